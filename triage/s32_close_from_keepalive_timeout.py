"""Triage: the application closes the client from on_keepalive_timeout (runs inside the keepalive watchdog task, which the
receiver owns).  Expected (C11/C15): close() completes, on_close is delivered once, no task of the connection is left."""
import asyncio, logging, sys
from datetime import timedelta
from typing import Optional
from rsocket.request_handler import BaseRequestHandler
from rsocket.rsocket_client import RSocketClient
from rsocket.rsocket_server import RSocketServer
from rsocket.transports.tcp import TransportTCP

logging.basicConfig(level=logging.ERROR)
events = []

class ClientHandler(BaseRequestHandler):
    async def on_keepalive_timeout(self, time_since_last_keepalive, rsocket):
        events.append('timeout')
        await rsocket.close()
        events.append('closed-returned')
    async def on_close(self, rsocket, exception: Optional[Exception] = None):
        events.append('on_close')

async def main():
    servers = []
    def session(*conn):
        # a server that never answers keepalives: swallow everything
        servers.append(conn)
    service = await asyncio.start_server(session, 'localhost', 0)
    port = service.sockets[0].getsockname()[1]
    async def provider():
        yield TransportTCP(*await asyncio.open_connection('localhost', port))
    client = RSocketClient(provider(), handler_factory=ClientHandler,
                           keep_alive_period=timedelta(milliseconds=100), max_lifetime_period=timedelta(milliseconds=300))
    await client.connect()
    await asyncio.sleep(1.5)
    pending = [t for t in asyncio.all_tasks() if t is not asyncio.current_task() and not t.done()]
    names = sorted(str(t.get_coro()).split(' ')[2] for t in pending)
    print('events:', events)
    print('tasks still pending:', names)
    ok = events.count('on_close') == 1 and 'closed-returned' in events and not [n for n in names if 'keepalive' in n or 'receiver' in n or '_sender' in n]
    service.close()
    sys.exit(0 if ok else 1)

asyncio.run(main())
