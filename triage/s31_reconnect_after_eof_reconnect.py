"""Triage: server EOF -> on_close calls reconnect(); then an explicit reconnect() on the second connection; then a
request.  Expected (C17): the request on the third connection is served."""
import asyncio, logging, sys
from typing import Optional
from rsocket.payload import Payload
from rsocket.request_handler import BaseRequestHandler
from rsocket.rsocket_client import RSocketClient
from rsocket.rsocket_server import RSocketServer
from rsocket.transports.tcp import TransportTCP
from rsocket.helpers import create_future

logging.basicConfig(level=logging.ERROR)
servers = []
transports = []
ready = None

class ServerHandler(BaseRequestHandler):
    def __init__(self, n): self.n = n
    async def request_response(self, payload):
        return create_future(Payload(payload.data + b' @%d' % self.n))

class ClientHandler(BaseRequestHandler):
    async def on_close(self, rsocket, exception: Optional[Exception] = None):
        await rsocket.reconnect()

async def main():
    global ready
    ready = asyncio.Event()
    def session(*conn):
        t = TransportTCP(*conn)
        transports.append(t)
        n = len(transports)
        servers.append(RSocketServer(t, handler_factory=lambda: ServerHandler(n)))
        ready.set()
    service = await asyncio.start_server(session, 'localhost', 0)
    port = service.sockets[0].getsockname()[1]
    async def provider():
        while True:
            yield TransportTCP(*await asyncio.open_connection('localhost', port))
    client = RSocketClient(provider(), handler_factory=ClientHandler)
    await client.connect()
    await ready.wait(); ready.clear()
    r1 = await asyncio.wait_for(client.request_response(Payload(b'one')), 3)
    print('1:', r1.data)
    # server EOF
    transports[0]._writer.close()
    await asyncio.wait_for(ready.wait(), 3); ready.clear()
    r2 = await asyncio.wait_for(client.request_response(Payload(b'two')), 3)
    print('2:', r2.data)
    # explicit reconnect on the second connection
    await client.reconnect()
    try:
        await asyncio.wait_for(ready.wait(), 3); ready.clear()
        r3 = await asyncio.wait_for(client.request_response(Payload(b'three')), 3)
        print('3:', r3.data)
        ok = r3.data == b'three @3'
    except Exception as e:
        print('3: FAILED', type(e).__name__, e)
        ok = False
    # and once more
    if ok:
        await client.reconnect()
        try:
            await asyncio.wait_for(ready.wait(), 3); ready.clear()
            r4 = await asyncio.wait_for(client.request_response(Payload(b'four')), 3)
            print('4:', r4.data)
            ok = r4.data == b'four @4'
        except Exception as e:
            print('4: FAILED', type(e).__name__, e)
            ok = False
    print('reconnect listener alive:', not client._reconnect_task.done())
    service.close()
    sys.exit(0 if ok and not client._reconnect_task.done() else 1)

asyncio.run(main())
