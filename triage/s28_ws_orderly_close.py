"""Peer closes a websocket connection in an orderly way: does the other endpoint notice?"""
import asyncio, sys
from datetime import timedelta
from aiohttp.test_utils import RawTestServer
from rsocket.helpers import create_future, single_transport_provider
from rsocket.payload import Payload
from rsocket.request_handler import BaseRequestHandler
from rsocket.rsocket_client import RSocketClient
from rsocket.transports.aiohttp_websocket import websocket_handler_factory, TransportAioHttpClient


class Hang(BaseRequestHandler):
    closed = 0
    async def request_response(self, payload):
        return create_future()          # never resolved
    async def on_close(self, rsocket, exception=None):
        Hang.closed += 1


class ClientHandler(BaseRequestHandler):
    closed = 0
    async def on_close(self, rsocket, exception=None):
        ClientHandler.closed += 1


async def main(who):
    box = {}
    ready = asyncio.Event()
    def on_server_create(server):
        box['server'] = server
        ready.set()
    srv = RawTestServer(websocket_handler_factory(on_server_create=on_server_create, handler_factory=Hang), port=0)
    await srv.start_server()
    url = 'http://localhost:%d' % srv.port
    client = RSocketClient(single_transport_provider(TransportAioHttpClient(url)), handler_factory=ClientHandler)
    await client.connect()
    pending = asyncio.ensure_future(client.request_response(Payload(b'x')))
    await ready.wait()
    await asyncio.sleep(0.5)
    if who == 'server-closes':
        await box['server']._transport.close()        # orderly websocket close from the server side
        done, _ = await asyncio.wait([pending], timeout=5)
        print('client: pending request', 'FAILED as required: %r' % pending.exception() if done else 'STILL PENDING 5 s after the server closed the websocket',
              '| client on_close calls:', ClientHandler.closed)
        ok = bool(done)
    else:
        await (await client._current_transport()).close()
        await asyncio.sleep(3)
        print('server: on_close calls 3 s after the client closed the websocket:', Hang.closed)
        ok = Hang.closed == 1
    pending.cancel()
    try:
        await asyncio.wait_for(client.close(), 5)
    except Exception as e:
        print('client.close():', repr(e))
    await srv.close()
    return ok

ok = asyncio.run(main(sys.argv[1]))
sys.exit(0 if ok else 1)
