import asyncio, datetime
from common import *
from rsocket.rsocket_client import RSocketClient
from rsocket.helpers import single_transport_provider
from rsocket.payload import Payload
async def main():
    t=LoopT()
    c=RSocketClient(single_transport_provider(t), keep_alive_period=datetime.timedelta(seconds=100))
    await c.connect()
    await asyncio.sleep(0.01)
    f=c.fire_and_forget(Payload(b'fnf'))
    f.cancel()             # application gives up waiting for "sent"
    await asyncio.sleep(0.02)
    print('sender task:', c._sender_task)
    r=c.request_response(Payload(b'later'))
    await asyncio.sleep(0.02)
    print([desc(f)[:3] for f in t.sent])
    await c.close()
asyncio.run(main())
