import asyncio
from rsocket.transports.transport import Transport
from rsocket.frame import parse_or_ignore
class LoopT(Transport):
    """in-memory message transport; frames put in .inq are delivered to the endpoint"""
    def __init__(self, length_header=False):
        super().__init__(); self.sent=[]; self.inq=asyncio.Queue(); self.lh=length_header; self.closed=False
    async def send_frame(self, frame):
        self.sent.append(parse_or_ignore(frame.serialize()))
        await asyncio.sleep(0)
    async def next_frame_generator(self):
        item = await self.inq.get()
        if item is None: return None
        if isinstance(item, Exception): raise item
        frames = item if isinstance(item, list) else [item]
        async def g():
            for f in frames: yield f
        return g()
    async def close(self): self.closed=True
    def requires_length_header(self): return self.lh
def desc(f):
    return (f.frame_type.name, f.stream_id, getattr(f,'data',None) and bytes(f.data)[:20])
