import asyncio
from rsocket.rsocket_server import RSocketServer
from rsocket.transports.transport import Transport
from rsocket.payload import Payload
from rsocket.frame_fragment_cache import FrameFragmentCache
from rsocket.frame import parse_or_ignore, is_fragmentable_frame

class T(Transport):
    def __init__(self):
        super().__init__(); self.sent=[]; self.q=asyncio.Queue()
    async def send_frame(self, frame):
        self.sent.append(frame.serialize())
        await asyncio.sleep(0)
    async def next_frame_generator(self):
        await self.q.get()
    async def close(self): pass

async def main():
    t=T()
    s=RSocketServer(t, fragment_size_bytes=64)
    s.send_payload(2, Payload(b'A'*150, b''))
    s.send_payload(2, Payload(b'B'*150, b''), complete=True)
    await asyncio.sleep(0.1)
    cache=FrameFragmentCache()
    for b in t.sent:
        f=parse_or_ignore(b)
        print(f.frame_type.name, f.stream_id, 'follows',f.flags_follows, 'complete', f.flags_complete, f.data[:1], len(f.data))
        if is_fragmentable_frame(f):
            c=cache.append(f)
            if c is not None: print('   DELIVERED', c.data, c.flags_complete)
    await s.close()
asyncio.run(main())
