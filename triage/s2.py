import asyncio, logging
from common import *
from rsocket.rsocket_client import RSocketClient
from rsocket.helpers import single_transport_provider
from rsocket.payload import Payload
from rsocket.frame_builders import to_payload_frame
async def main():
    t=LoopT()
    c=RSocketClient(single_transport_provider(t), keep_alive_period=__import__('datetime').timedelta(seconds=100))
    await c.connect()
    fut=c.request_response(Payload(b'x'))
    await asyncio.sleep(0.01)
    # response arrives; receiver task wake-up is scheduled; then app cancels in the same tick
    t.inq.put_nowait(to_payload_frame(1, Payload(b'resp'), complete=True))
    fut.cancel()
    await asyncio.sleep(0.05)
    print([desc(f) for f in t.sent])
    await c.close()
asyncio.run(main())
