import asyncio, datetime
from common import *
from rsocket.rsocket_server import RSocketServer
from rsocket.request_handler import BaseRequestHandler
from rsocket.payload import Payload
from rsocket.frame_builders import to_request_stream_frame, to_cancel_frame
from rsocket.streams.stream_from_generator import StreamFromGenerator
cancelled=[]
class H(BaseRequestHandler):
    async def request_stream(self, payload):
        def gen():
            for i in range(100):
                yield Payload(b'%d'%i), False
        return StreamFromGenerator(gen, on_cancel=lambda: cancelled.append(1))
async def main():
    t=LoopT()
    s=RSocketServer(t, handler_factory=H)
    # REQUEST_STREAM and CANCEL arrive in the same read
    t.inq.put_nowait([to_request_stream_frame(1, Payload(b'x'), initial_request_n=5), to_cancel_frame(1)])
    await asyncio.sleep(0.05)
    print([desc(f) for f in t.sent], 'on_cancel called:', cancelled, 'open streams:', list(s._stream_control._streams))
    await s.close()
asyncio.run(main())
