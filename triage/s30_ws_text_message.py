"""F21: a websocket TEXT message handed to the frame parser by the `websockets` / quart transports raises TypeError in
FrameParser.receive_data (bytearray.extend(str)); the incoming loop ends and the connection is torn down.
Drives the real WebsocketsTransport.consumer_handler + FrameParser with a scripted websocket.  Exit 0 = contained."""
import asyncio, sys
from rsocket.frame_builders import to_payload_frame
from rsocket.payload import Payload
from rsocket.transports.websockets_transport import WebsocketsTransport


class ScriptedWebsocket:
    def __init__(self, messages):
        self.messages = list(messages)

    def __aiter__(self):
        return self

    async def __anext__(self):
        if not self.messages:
            await asyncio.sleep(3600)
        return self.messages.pop(0)


async def main():
    transport = WebsocketsTransport()
    good = to_payload_frame(1, Payload(b'after the text message'), complete=True).serialize()
    task = asyncio.ensure_future(transport.consumer_handler(ScriptedWebsocket(['hello, I am text', good])))
    await asyncio.sleep(0.3)
    items = []
    while not transport._incoming_frame_queue.empty():
        items.append(transport._incoming_frame_queue.get_nowait())
    print('consumer task done:', task.done(), '| queued for the receiver:', [type(i).__name__ for i in items])
    ok = not task.done() and [type(i).__name__ for i in items] == ['PayloadFrame']
    task.cancel()
    return ok

sys.exit(0 if asyncio.run(main()) else 1)
