"""junk then probe: after arbitrary decodable frames, is an unrelated request still answered?"""
import asyncio, random, logging
from common import *
from rsocket.rsocket_server import RSocketServer
from rsocket.request_handler import BaseRequestHandler
from rsocket.payload import Payload
from rsocket.helpers import create_response
from rsocket.frame_builders import to_request_response_frame
from rsocket.frame import parse_or_ignore
logging.disable(logging.CRITICAL)
class H(BaseRequestHandler):
    async def request_response(self, payload): return create_response(b'pong')
async def one(seed):
    random.seed(seed)
    t=LoopT(); s=RSocketServer(t, handler_factory=H)
    junk=[]
    for i in range(30):
        typ=random.randrange(1,15); flags=random.randrange(1024)&~0x200
        sid=random.choice([0,1,3,5,7,2])
        hdr=sid.to_bytes(4,'big')+bytes([(typ<<2)|(flags>>8), flags&0xff])
        body=bytes(random.randrange(256) for _ in range(random.choice([0,4,8,12,20,30])))
        try:
            f=parse_or_ignore(hdr+body)
            if f is not None: junk.append(f)
        except Exception: pass
    for f in junk: t.inq.put_nowait(f)
    await asyncio.sleep(0.02)
    probe_id=1001
    t.inq.put_nowait(to_request_response_frame(probe_id, Payload(b'ping')))
    await asyncio.sleep(0.02)
    ok=any(f.frame_type.name=='PAYLOAD' and f.stream_id==probe_id and f.data==b'pong' for f in t.sent)
    alive=s._receiver_task is not None and not s._receiver_task.done()
    await s.close()
    return ok, alive, [(j.frame_type.name,j.stream_id) for j in junk]
async def main():
    fails=0
    for seed in range(300):
        ok,alive,junk=await one(seed)
        if not ok or not alive:
            fails+=1
            if fails<=3: print('seed',seed,'probe answered',ok,'receiver alive',alive,junk[:12])
    print('runs 300 failures',fails)
asyncio.run(main())
