import asyncio
from rsocket.frame_parser import FrameParser
async def main():
    p=FrameParser(); n=0
    async for f in p.receive_data(b'', 0):
        n+=1
        if n>1000: print('S6: >1000 frames from one empty message: non-terminating'); break
    from rsocket.datetime_helpers import to_milliseconds
    from datetime import timedelta
    print('S7:', to_milliseconds(timedelta(milliseconds=500)), to_milliseconds(timedelta(seconds=2, milliseconds=250)), to_milliseconds(timedelta(minutes=10)))
asyncio.run(main())
