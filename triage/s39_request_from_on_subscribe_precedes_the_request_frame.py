"""Triage: a requester-side subscriber that calls subscription.request(2) from on_subscribe (the canonical
reactive-streams opening move) on request_stream(p).initial_request_n(1).  Expected (C08 / C06): REQUEST_STREAM(1) first,
then REQUEST_N(2): three elements.  Observed before 965a694 / a34a39e (F28): REQUEST_N(2) is written before REQUEST_STREAM, the responder
drops it for an unknown stream, one element arrives."""
import asyncio, logging, sys
from rsocket.payload import Payload
from rsocket.frame import RequestNFrame
from rsocket.request_handler import BaseRequestHandler
from rsocket.rsocket_client import RSocketClient
from rsocket.rsocket_server import RSocketServer
from rsocket.streams.stream_from_generator import StreamFromGenerator
from rsocket.transports.tcp import TransportTCP
from reactivestreams.subscriber import DefaultSubscriber
logging.basicConfig(level=logging.CRITICAL)
written = []
class RecordingTCP(TransportTCP):
    async def send_frame(self, frame):
        written.append(frame)
        await super().send_frame(frame)
class Handler(BaseRequestHandler):
    async def request_stream(self, payload):
        def gen():
            for i in range(5):
                yield Payload(b'%d' % i), i == 4
        return StreamFromGenerator(gen)
class Canonical(DefaultSubscriber):
    def __init__(self):
        super().__init__(); self.got=[]
    def on_subscribe(self, subscription):
        super().on_subscribe(subscription)
        subscription.request(2)          # the canonical reactive-streams opening move
    def on_next(self, value, is_complete=False):
        self.got.append(value.data)
async def main():
    def session(*conn):
        RSocketServer(TransportTCP(*conn), handler_factory=Handler)
    service = await asyncio.start_server(session, 'localhost', 0)
    port = service.sockets[0].getsockname()[1]
    async def provider():
        yield RecordingTCP(*await asyncio.open_connection('localhost', port))
    client = RSocketClient(provider())
    await client.connect()
    s = Canonical()
    client.request_stream(Payload(b'x')).initial_request_n(1).subscribe(s)
    await asyncio.sleep(0.5)
    print([type(f).__name__ + ('(%d)' % f.request_n if isinstance(f, RequestNFrame) else '') for f in written if f.stream_id == 1])
    print('elements:', s.got)
    await client.close(); service.close()
asyncio.run(main())
