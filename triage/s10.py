import asyncio, datetime
from common import *
from rsocket.rsocket_client import RSocketClient
from rsocket.helpers import single_transport_provider
from rsocket.payload import Payload
from rsocket.frame import LeaseFrame
from s3 import Rec
async def main():
    t=LoopT()
    c=RSocketClient(single_transport_provider(t), honor_lease=True, keep_alive_period=datetime.timedelta(seconds=100))
    await c.connect()
    rec=Rec()
    c.request_stream(Payload(b'x')).initial_request_n(1).subscribe(rec)
    rec.sub.request(3)
    rec.sub.cancel()
    await asyncio.sleep(0.02)
    print('before lease:', [desc(f)[:2] for f in t.sent])
    l=LeaseFrame(); l.number_of_requests=5; l.time_to_live=10000
    t.inq.put_nowait(l)
    await asyncio.sleep(0.02)
    print('after lease:', [desc(f)[:2] for f in t.sent])
    await c.close()
import s3
if __name__=='__main__':
    asyncio.run(main())
