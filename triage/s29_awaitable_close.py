"""F20: AwaitableRSocket.close() creates the wrapped socket's close() coroutine and drops it: nothing is closed.
Run from a tree before the fix: prints 'on_close calls: 0' and a 'coroutine ... was never awaited' warning."""
import asyncio, sys, warnings
from rsocket.awaitable.awaitable_rsocket import AwaitableRSocket
from rsocket.helpers import single_transport_provider
from rsocket.request_handler import BaseRequestHandler
from rsocket.rsocket_client import RSocketClient
from rsocket.rsocket_server import RSocketServer
from rsocket.transports.tcp import TransportTCP

closed = []


class H(BaseRequestHandler):
    async def on_close(self, rsocket, exception=None):
        closed.append(rsocket)


async def main():
    def session(*connection):
        RSocketServer(TransportTCP(*connection))
    server = await asyncio.start_server(session, 'localhost', 0)
    port = server.sockets[0].getsockname()[1]
    connection = await asyncio.open_connection('localhost', port)
    client = RSocketClient(single_transport_provider(TransportTCP(*connection)), handler_factory=H)
    await client.connect()
    adapter = AwaitableRSocket(client)
    with warnings.catch_warnings(record=True) as w:
        warnings.simplefilter('always')
        r = adapter.close()
        if asyncio.iscoroutine(r):
            await r
        await asyncio.sleep(0.5)
        import gc; gc.collect()
    print('on_close calls:', len(closed), '| warnings:', [str(x.message)[:60] for x in w])
    ok = len(closed) == 1
    if not ok:
        await client.close()
    server.close()
    return ok

sys.exit(0 if asyncio.run(main()) else 1)
