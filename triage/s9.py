import asyncio
from rsocket.reactivex.reactivex_handler_adapter import ReactivexHandlerAdapter
from rsocket.reactivex.reactivex_handler import BaseReactivexHandler
from rsocket.payload import Payload
got=[]
class H(BaseReactivexHandler):
    async def on_metadata_push(self, metadata): got.append(metadata)
async def main():
    a=ReactivexHandlerAdapter(H())
    try:
        await a.on_metadata_push(Payload(None,b'm'))
    except RecursionError as e: print('S9: RecursionError', got)
asyncio.run(main())
