import asyncio, datetime
from common import *
from rsocket.rsocket_client import RSocketClient
from rsocket.request_handler import BaseRequestHandler
from rsocket.payload import Payload
from rsocket.frame_builders import to_payload_frame
ts=[]
async def provider():
    while True:
        t=LoopT(); ts.append(t); yield t
class H(BaseRequestHandler):
    async def on_keepalive_timeout(self, d, rsocket):
        print('keepalive timeout -> reconnect'); await rsocket.reconnect()
async def main():
    c=RSocketClient(provider(), handler_factory=H, keep_alive_period=datetime.timedelta(milliseconds=50), max_lifetime_period=datetime.timedelta(milliseconds=100))
    await c.connect()
    await asyncio.sleep(0.5)
    print('transports:', len(ts), 'alive flag:', c.is_server_alive())
    for i,t in enumerate(ts): print(i, [desc(f)[0] for f in t.sent][:6])
    fut=c.request_response(Payload(b'after'))
    await asyncio.sleep(0.1)
    print('last transport sent:', [desc(f) for f in ts[-1].sent])
    await c.close()
asyncio.run(main())
