"""Triage: a client that honours leases, configured with request_queue_size=2, issues requests before the first LEASE
arrives.  The third request does not fit into the hold queue.  Expected (C10 / C14): the rejected request leaves nothing
behind - the stream table holds exactly the two requests that are retained, and after the lease arrives and both are
answered the table is empty."""
import asyncio, logging, sys
from datetime import timedelta
from rsocket.helpers import create_future
from rsocket.lease import SingleLeasePublisher
from rsocket.payload import Payload
from rsocket.request_handler import BaseRequestHandler
from rsocket.rsocket_client import RSocketClient
from rsocket.rsocket_server import RSocketServer
from rsocket.streams.stream_from_generator import StreamFromGenerator
from rsocket.transports.tcp import TransportTCP
from reactivestreams.subscriber import DefaultSubscriber

logging.basicConfig(level=logging.CRITICAL)


class Handler(BaseRequestHandler):
    async def request_response(self, payload):
        return create_future(Payload(b'ok'))


async def main():
    lease_source = None

    def session(*conn):
        nonlocal lease_source
        # the lease is published late: the test drives the moment
        class Late(SingleLeasePublisher):
            def subscribe(self, subscriber):
                nonlocal lease_source
                lease_source = (self, subscriber)
        RSocketServer(TransportTCP(*conn), handler_factory=Handler,
                      lease_publisher=Late(maximum_request_count=10, maximum_lease_time=timedelta(seconds=5)))
    service = await asyncio.start_server(session, 'localhost', 0)
    port = service.sockets[0].getsockname()[1]

    async def provider():
        yield TransportTCP(*await asyncio.open_connection('localhost', port))
    client = RSocketClient(provider(), honor_lease=True, request_queue_size=2)
    await client.connect()
    await asyncio.sleep(0.2)
    table = client._stream_control._streams
    results = []
    futures = [client.request_response(Payload(b'1')), client.request_response(Payload(b'2'))]
    rejected = []
    for kind in ('response', 'stream', 'channel'):
        try:
            if kind == 'response':
                client.request_response(Payload(b'3'))
            elif kind == 'stream':
                client.request_stream(Payload(b'3')).subscribe(DefaultSubscriber())
            else:
                client.request_channel(Payload(b'3')).subscribe(DefaultSubscriber())
            rejected.append((kind, None))
        except Exception as e:
            rejected.append((kind, type(e).__name__))
    print('requests beyond the queue size:', rejected)
    print('stream table after the rejections:', sorted(table), '(2 requests are retained)')
    leaked_now = len(table) - 2
    pub, sub = lease_source
    SingleLeasePublisher.subscribe(pub, sub)   # now the lease goes out
    for f in futures:
        results.append((await asyncio.wait_for(f, 3)).data)
    await asyncio.sleep(0.2)
    print('answers:', results)
    print('stream table at quiescence:', sorted(table))
    ok = leaked_now == 0 and not table
    await client.close()
    service.close()
    sys.exit(0 if ok else 1)

asyncio.run(main())
