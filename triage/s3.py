import asyncio, datetime
from common import *
from rsocket.rsocket_client import RSocketClient
from rsocket.helpers import single_transport_provider
from rsocket.payload import Payload
from rsocket.frame_builders import to_payload_frame
from reactivestreams.subscriber import Subscriber
from rsocket.streams.stream_from_generator import StreamFromGenerator
class Rec(Subscriber):
    def __init__(s): s.ev=[]
    def on_subscribe(s, sub): s.ev.append('subscribe'); s.sub=sub
    def on_next(s, v, is_complete=False): s.ev.append(('next', v.data, is_complete))
    def on_error(s, e): s.ev.append(('error', repr(e)))
    def on_complete(s): s.ev.append('complete')
async def main():
    t=LoopT()
    c=RSocketClient(single_transport_provider(t), keep_alive_period=datetime.timedelta(seconds=100))
    await c.connect()
    def gen():
        for i in range(100):
            yield Payload(b'%d'%i), False
    rec=Rec()
    c.request_channel(Payload(b'x'), StreamFromGenerator(gen)).subscribe(rec)
    await asyncio.sleep(0.01)
    t.inq.put_nowait(to_payload_frame(1, Payload(), complete=True, is_next=False))  # peer completes its direction
    await asyncio.sleep(0.01)
    t.inq.put_nowait(None)  # EOF -> connection lost while our sending direction still open (no credit given)
    await asyncio.sleep(0.05)
    print(rec.ev)
    await c.close()
if __name__=="__main__": asyncio.run(main())
