"""Triage: a request-stream subscriber written the plain reactive-streams way - it asks for one more element in every
on_next and cancels its subscription when it is done with it (here: in on_complete) - on a stream whose last element
carries COMPLETE.  Reactive-streams: request()/cancel() on a terminated subscription are no-ops.  Expected (C08): after
the responder's COMPLETE has been received the requester writes nothing further on that stream."""
import asyncio, logging, sys
from rsocket.frame import RequestNFrame, CancelFrame
from rsocket.payload import Payload
from rsocket.request_handler import BaseRequestHandler
from rsocket.rsocket_client import RSocketClient
from rsocket.rsocket_server import RSocketServer
from rsocket.streams.stream_from_generator import StreamFromGenerator
from rsocket.transports.tcp import TransportTCP
from reactivestreams.subscriber import DefaultSubscriber

logging.basicConfig(level=logging.CRITICAL)
written = []


class RecordingTCP(TransportTCP):
    async def send_frame(self, frame):
        written.append(frame)
        await super().send_frame(frame)


class Handler(BaseRequestHandler):
    async def request_stream(self, payload):
        def gen():
            yield Payload(b'1'), False
            yield Payload(b'2'), True
        return StreamFromGenerator(gen)


class Plain(DefaultSubscriber):
    def __init__(self):
        super().__init__()
        self.got = []
        self.done = asyncio.Event()

    def on_next(self, value, is_complete=False):
        self.got.append(value.data)
        self.subscription.request(1)     # one more, please

    def on_complete(self):
        self.subscription.cancel()        # release whatever is held
        self.done.set()


async def main():
    def session(*conn):
        RSocketServer(TransportTCP(*conn), handler_factory=Handler)
    service = await asyncio.start_server(session, 'localhost', 0)
    port = service.sockets[0].getsockname()[1]

    async def provider():
        yield RecordingTCP(*await asyncio.open_connection('localhost', port))
    client = RSocketClient(provider())
    await client.connect()
    s = Plain()
    client.request_stream(Payload(b'go')).initial_request_n(1).subscribe(s)
    await asyncio.sleep(0.5)
    frames = [type(f).__name__ + ('(n=%d)' % f.request_n if isinstance(f, RequestNFrame) else '')
              for f in written if f.stream_id == 1]
    print('elements:', s.got)
    print('written on stream 1:', frames)
    # REQUEST_STREAM(n=1), REQUEST_N(1) after element 1; element 2 carries COMPLETE: nothing may follow it
    late = frames[2:]
    print('after the COMPLETE was received:', late)
    await client.close()
    service.close()
    sys.exit(0 if not late else 1)

asyncio.run(main())
