"""Triage: request-channel without a local publisher (the REQUEST_CHANNEL carries COMPLETE), responder answers two
elements, the second flagged complete.  The requester's subscriber asks for one more element in every on_next and cancels
in on_complete / after the completing element - ordinary reactive-streams usage.  Expected (C08): after both directions
have completed the requester writes nothing further on that stream."""
import asyncio, logging, sys
from rsocket.frame import RequestNFrame
from rsocket.payload import Payload
from rsocket.request_handler import BaseRequestHandler
from rsocket.rsocket_client import RSocketClient
from rsocket.rsocket_server import RSocketServer
from rsocket.streams.stream_from_generator import StreamFromGenerator
from rsocket.transports.tcp import TransportTCP
from reactivestreams.subscriber import DefaultSubscriber

logging.basicConfig(level=logging.CRITICAL)
written = []


class RecordingTCP(TransportTCP):
    async def send_frame(self, frame):
        written.append(frame)
        await super().send_frame(frame)


class Handler(BaseRequestHandler):
    async def request_channel(self, payload):
        def gen():
            yield Payload(b'1'), False
            yield Payload(b'2'), True
        return StreamFromGenerator(gen), None


class Plain(DefaultSubscriber):
    def __init__(self):
        super().__init__()
        self.got = []

    def on_next(self, value, is_complete=False):
        self.got.append(value.data)
        self.subscription.request(1)
        if is_complete:
            self.subscription.cancel()


async def main():
    def session(*conn):
        RSocketServer(TransportTCP(*conn), handler_factory=Handler)
    service = await asyncio.start_server(session, 'localhost', 0)
    port = service.sockets[0].getsockname()[1]

    async def provider():
        yield RecordingTCP(*await asyncio.open_connection('localhost', port))
    client = RSocketClient(provider())
    await client.connect()
    s = Plain()
    client.request_channel(Payload(b'go')).initial_request_n(1).subscribe(s)
    await asyncio.sleep(0.5)
    frames = [type(f).__name__ + ('(n=%d)' % f.request_n if isinstance(f, RequestNFrame) else '')
              for f in written if f.stream_id == 1]
    print('elements:', s.got)
    print('written on stream 1:', frames)
    late = frames[2:]   # REQUEST_CHANNEL[complete], REQUEST_N after element 1; element 2 carries COMPLETE
    print('after both directions had completed:', late)
    print('streams still registered:', sorted(client._stream_control._streams))
    await client.close()
    service.close()
    sys.exit(0 if not late else 1)

asyncio.run(main())
