import asyncio, datetime
from common import *
from s3 import Rec
from rsocket.rsocket_client import RSocketClient
from rsocket.rsocket_server import RSocketServer
from rsocket.request_handler import BaseRequestHandler
from rsocket.helpers import single_transport_provider
from rsocket.payload import Payload
from rsocket.frame_builders import *
from rsocket.frame import ErrorFrame
from rsocket.error_codes import ErrorCode
from rsocket.streams.stream_from_generator import StreamFromGenerator
def gen():
    for i in range(100):
        yield Payload(b'%d'%i), False
async def requester_cancel():
    t=LoopT()
    c=RSocketClient(single_transport_provider(t), keep_alive_period=datetime.timedelta(seconds=100))
    await c.connect()
    rec=Rec(); cancelled=[]
    c.request_channel(Payload(b'x'), StreamFromGenerator(gen, on_cancel=lambda: cancelled.append(1))).initial_request_n(1).subscribe(rec)
    await asyncio.sleep(0.01)
    t.inq.put_nowait(to_request_n_frame(1, 3))   # responder grants 3
    await asyncio.sleep(0.01)
    rec.sub.cancel()                              # app cancels the channel
    await asyncio.sleep(0.01)
    t.inq.put_nowait(to_request_n_frame(1, 2))   # a REQUEST_N that was in flight
    await asyncio.sleep(0.05)
    print('A requester cancel: sent', [desc(f)[:3] for f in t.sent], 'open', list(c._stream_control._streams), 'local publisher cancelled', cancelled)
    await c.close()
async def peer_error():
    t=LoopT()
    c=RSocketClient(single_transport_provider(t), keep_alive_period=datetime.timedelta(seconds=100))
    await c.connect()
    rec=Rec(); cancelled=[]
    c.request_channel(Payload(b'x'), StreamFromGenerator(gen, on_cancel=lambda: cancelled.append(1))).initial_request_n(1).subscribe(rec)
    await asyncio.sleep(0.01)
    t.inq.put_nowait(to_request_n_frame(1, 1))
    await asyncio.sleep(0.01)
    e=ErrorFrame(); e.stream_id=1; e.error_code=ErrorCode.APPLICATION_ERROR; e.data=b'boom'
    t.inq.put_nowait(e)
    await asyncio.sleep(0.05)
    print('B peer error: events', rec.ev, 'open', list(c._stream_control._streams), 'local publisher cancelled', cancelled)
    await c.close()
async def main():
    await requester_cancel(); await peer_error()
asyncio.run(main())
