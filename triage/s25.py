import asyncio, datetime
from common import *
from rsocket.rsocket_client import RSocketClient
from rsocket.helpers import single_transport_provider
from rsocket.payload import Payload
class StuckT(LoopT):
    """the link stalls: writes never complete (e.g. peer stopped reading)"""
    async def send_frame(self, frame):
        if frame.frame_type.name != 'SETUP':
            await asyncio.Event().wait()
        await super().send_frame(frame)
async def main():
    t=StuckT()
    c=RSocketClient(single_transport_provider(t), keep_alive_period=datetime.timedelta(seconds=100))
    await c.connect()
    await asyncio.sleep(0.01)
    fnf=c.fire_and_forget(Payload(b'a'))     # being written when the link dies
    fnf2=c.fire_and_forget(Payload(b'b'))    # still queued
    mp=c.metadata_push(b'm')                 # still queued
    rr=c.request_response(Payload(b'c'))     # still queued
    await asyncio.sleep(0.01)
    t.inq.put_nowait(None)                   # EOF from the server
    await asyncio.sleep(0.05)
    print('after connection loss: request_response failed:', rr.done(), '| fire_and_forget awaitables done:', fnf.done(), fnf2.done(), '| metadata_push done:', mp.done())
    await c.close()
    await asyncio.sleep(0.02)
    print('after close():                                 ', rr.done(), fnf.done(), fnf2.done(), mp.done())
asyncio.run(main())
