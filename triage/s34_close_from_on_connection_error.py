"""Triage: a reconnect attempt fails and the application gives up by calling close() from on_connection_error (which runs
inside the reconnect listener).  Expected (C11/C17): close() returns, the listener ends, nothing is left running."""
import asyncio, logging, sys
from typing import Optional
from rsocket.request_handler import BaseRequestHandler
from rsocket.rsocket_client import RSocketClient
from rsocket.rsocket_server import RSocketServer
from rsocket.transports.tcp import TransportTCP

logging.basicConfig(level=logging.CRITICAL)
events = []

class ClientHandler(BaseRequestHandler):
    async def on_connection_error(self, rsocket, exception: Exception):
        events.append('connection_error')
        await rsocket.close()
        events.append('close-returned')
    async def on_close(self, rsocket, exception: Optional[Exception] = None):
        events.append('on_close')

async def main():
    def session(*conn):
        RSocketServer(TransportTCP(*conn))
    service = await asyncio.start_server(session, 'localhost', 0)
    port = service.sockets[0].getsockname()[1]
    attempts = 0
    async def provider():
        nonlocal attempts
        while True:
            attempts += 1
            if attempts > 1:
                raise ConnectionRefusedError('no server')
            yield TransportTCP(*await asyncio.open_connection('localhost', port))
    client = RSocketClient(provider(), handler_factory=ClientHandler)
    await client.connect()
    await asyncio.sleep(0.2)
    await client.reconnect()
    await asyncio.sleep(1.5)
    pending = [t for t in asyncio.all_tasks() if t is not asyncio.current_task() and not t.done()]
    names = sorted(str(t.get_coro()).split(' ')[2] for t in pending)
    print('events:', events)
    print('tasks still pending:', [n for n in names if 'RSocket' in n])
    ok = 'close-returned' in events and not [n for n in names if 'RSocket' in n]
    service.close()
    sys.exit(0 if ok else 1)

asyncio.run(main())
