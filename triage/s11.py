import asyncio, datetime
from common import *
from rsocket.rsocket_client import RSocketClient
from rsocket.helpers import single_transport_provider
from rsocket.payload import Payload
class SlowT(LoopT):
    async def connect(self):
        await asyncio.sleep(0.05)   # like aiohttp ws_connect
async def main():
    t=SlowT()
    c=RSocketClient(single_transport_provider(t), keep_alive_period=datetime.timedelta(seconds=100))
    task=asyncio.create_task(c.connect())
    await asyncio.sleep(0.01)   # connect() is suspended inside transport.connect()
    c.request_response(Payload(b'early'))
    await task
    await asyncio.sleep(0.05)
    print([desc(f)[:2] for f in t.sent])
    await c.close()
asyncio.run(main())
