import asyncio
from common import *
from s3 import Rec
from rsocket.rsocket_server import RSocketServer
from rsocket.request_handler import BaseRequestHandler
from rsocket.payload import Payload
from rsocket.frame_builders import to_request_channel_frame, to_cancel_frame
class H(BaseRequestHandler):
    async def request_channel(self, payload):
        return None, Rec()            # responder only listens: no publisher
async def main():
    t=LoopT()
    s=RSocketServer(t, handler_factory=H)
    t.inq.put_nowait(to_request_channel_frame(1, Payload(b'x'), initial_request_n=1))
    await asyncio.sleep(0.02)
    t.inq.put_nowait(to_cancel_frame(1))       # requester cancels
    await asyncio.sleep(0.05)
    print([desc(f) for f in t.sent], 'open streams:', list(s._stream_control._streams))
    await s.close()
asyncio.run(main())
