"""Triage: request_stream(p).cancel() and request_channel(p).cancel() without subscribing - the only way to give the
id the call registered back.  Expected (C08): nothing is written for a stream id that no request frame has opened.
Observed before 965a694 / a34a39e (F28): CancelFrame on streams 1 and 3 right after SETUP; the channel requester stays registered."""
import asyncio, logging, sys
from rsocket.payload import Payload
from rsocket.request_handler import BaseRequestHandler
from rsocket.rsocket_client import RSocketClient
from rsocket.rsocket_server import RSocketServer
from rsocket.transports.tcp import TransportTCP
logging.basicConfig(level=logging.CRITICAL)
written = []
class RecordingTCP(TransportTCP):
    async def send_frame(self, frame):
        written.append(frame)
        await super().send_frame(frame)
async def main():
    def session(*conn):
        RSocketServer(TransportTCP(*conn), handler_factory=BaseRequestHandler)
    service = await asyncio.start_server(session, 'localhost', 0)
    port = service.sockets[0].getsockname()[1]
    async def provider():
        yield RecordingTCP(*await asyncio.open_connection('localhost', port))
    client = RSocketClient(provider())
    await client.connect()
    r = client.request_stream(Payload(b'x'))
    r.cancel()          # never subscribed: give the id back
    c = client.request_channel(Payload(b'y'))
    c.cancel()
    await asyncio.sleep(0.3)
    print([ (type(f).__name__, f.stream_id) for f in written])
    print('registered:', sorted(client._stream_control._streams))
    await client.close(); service.close()
asyncio.run(main())
