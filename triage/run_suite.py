#!/venv/bin/python
"""Triage helper (not a check): run the pinned suite in DIR (a scratch copy or /repo), compare with BASELINE stable_pass;
re-run apparent regressions alone (several server-based tests are flaky); print real regressions.
usage: run_suite.py DIR [extra pytest args]"""
import json, subprocess, sys, xml.etree.ElementTree as ET, os, tempfile
d=sys.argv[1]; extra=sys.argv[2:]
base=json.load(open('/root/.vp/BASELINE.json'))
stable=set(base['stable_pass'])
def run(args):
    out=tempfile.mktemp(suffix='.xml')
    cmd=['/venv/bin/python','-m','pytest','-ra','-q','-p','no:cacheprovider','--timeout=60','--continue-on-collection-errors','--junitxml='+out]+args
    subprocess.run(cmd,cwd=d,capture_output=True,text=True)
    passed=set()
    for tc in ET.parse(out).getroot().iter('testcase'):
        if not any(ch.tag in('failure','error','skipped') for ch in tc):
            passed.add(tc.get('classname')+'::'+tc.get('name'))
    os.unlink(out)
    return passed
passed=run(extra)
missing=sorted(stable-passed)
print('stable_pass',len(stable),'passed now',len(passed),'apparent regressions',len(missing))
real=[]
for m in missing:
    mod,name=m.split('::',1)
    nodeid=mod.replace('.','/')+'.py::'+name
    ok=False
    for attempt in range(3):
        if m in run([nodeid]): ok=True; break
    print('  ', 'flaky-ok' if ok else 'REGRESSION', m)
    if not ok: real.append(m)
print('REAL REGRESSIONS', len(real))
