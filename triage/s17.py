from rsocket.frame_builders import *
from rsocket.payload import Payload
from rsocket.frame import parse_or_ignore, serialize_with_frame_size_header
from rsocket.frame_fragment_cache import FrameFragmentCache
import itertools
bad={}
def mk(kind, data, md, fs):
    p=Payload(data, md)
    if kind=='payload': return to_payload_frame(2,p,complete=True,fragment_size_bytes=fs)
    if kind=='rr': return to_request_response_frame(1,p,fs)
    if kind=='rs': return to_request_stream_frame(1,p,fs,7)
    if kind=='rc': return to_request_channel_frame(1,p,fs,7,True)
    if kind=='fnf': return to_fire_and_forget_frame(1,p,fs)
import asyncio
async def main():
  for kind in ['payload','rr','rs','rc','fnf']:
    for fs in [64,65,70,100]:
      for lh in (True,False):
        for dl in list(range(0,140))+[500]:
          for ml in list(range(0,140))+[500]:
            data=bytes((i*7)%251 for i in range(dl)); md=bytes((i*3+1)%251 for i in range(ml))
            f=mk(kind,data,md,fs)
            frags=[]
            while True:
                fr=f.get_next_fragment(lh)
                if fr is None: break
                frags.append(fr)
                if not fr.flags_follows: 
                    break
            cache=FrameFragmentCache(); out=None
            seen_data=False
            for i,fr in enumerate(frags):
                ser=fr.serialize()
                size=len(ser)+(3 if lh else 0)
                if len(frags)>1 and size>fs: bad.setdefault('oversize',[]).append((kind,fs,lh,dl,ml,i,size))
                if len(frags)==1 and size>fs: bad.setdefault('oversize_single',[]).append((kind,fs,lh,dl,ml,i,size))
                p=parse_or_ignore(ser)
                if i==0 and type(p)!=type(f): bad.setdefault('firsttype',[]).append((kind,fs,lh,dl,ml))
                if i>0 and p.frame_type.name!='PAYLOAD': bad.setdefault('resttype',[]).append((kind,fs,lh,dl,ml))
                if (i<len(frags)-1)!=bool(p.flags_follows): bad.setdefault('follows',[]).append((kind,fs,lh,dl,ml,i))
                if i<len(frags)-1 and getattr(p,'flags_complete',False) : bad.setdefault('complete_early',[]).append((kind,fs,lh,dl,ml,i))
                if p.data: seen_data=True
                if p.metadata and seen_data and not (p.data and p.metadata and not any(q for q in [])) :
                    # metadata after data seen in an earlier fragment
                    if any(parse_or_ignore(x.serialize()).data for x in frags[:i]): bad.setdefault('md_after_data',[]).append((kind,fs,lh,dl,ml,i))
                out=cache.append(p)
            if out is None: bad.setdefault('noreassembly',[]).append((kind,fs,lh,dl,ml)); continue
            if (out.data or b'')!=data or (out.metadata or b'')!=md: bad.setdefault('content',[]).append((kind,fs,lh,dl,ml))
            if kind in('rs','rc') and out.initial_request_n!=7: bad.setdefault('n',[]).append((kind,fs,lh,dl,ml))
            if kind in ('payload','rc') and not out.flags_complete: bad.setdefault('complete_lost',[]).append((kind,fs,lh,dl,ml))
            whole=len(mk(kind,data,md,None).serialize())+(3 if lh else 0)
            if whole<=fs and len(frags)!=1: bad.setdefault('fits_but_fragmented',[]).append((kind,fs,lh,dl,ml,len(frags)))
  for k,v in bad.items(): print(k,len(v),v[:5])
  print('done')
asyncio.run(main())
