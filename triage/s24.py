import asyncio, datetime
from common import *
from rsocket.rsocket_client import RSocketClient
from rsocket.request_handler import BaseRequestHandler
from rsocket.payload import Payload
ts=[]
async def provider():
    while True:
        t=LoopT(); ts.append(t); yield t
async def main():
    c=RSocketClient(provider(), keep_alive_period=datetime.timedelta(seconds=100))
    await c.connect()
    await asyncio.sleep(0.01)
    ts[0].inq.put_nowait(None)            # server EOF: connection lost, close sequence runs
    await asyncio.sleep(0.01)
    fut=c.request_response(Payload(b'issued between loss and reconnect'))
    await c.reconnect()
    await asyncio.sleep(0.1)
    print('transports', len(ts), 'second transport sent', [desc(f)[:2] for f in ts[1].sent])
    print('request future done?', fut.done(), '(pending forever: neither sent on the new connection nor failed)')
    await c.close()
    await asyncio.sleep(0.05)
    print('after close(): done?', fut.done())
asyncio.run(main())
