"""Triage: the application calls close() from on_close while a reconnect is in progress (reconnect() was requested
explicitly; the listener is closing the old connection).  Expected (C11): close() returns, the client stays closed."""
import asyncio, logging, sys
from typing import Optional
from rsocket.payload import Payload
from rsocket.request_handler import BaseRequestHandler
from rsocket.rsocket_client import RSocketClient
from rsocket.rsocket_server import RSocketServer
from rsocket.transports.tcp import TransportTCP
from rsocket.helpers import create_future

logging.basicConfig(level=logging.CRITICAL)
events = []
connections = []

class ClientHandler(BaseRequestHandler):
    async def on_close(self, rsocket, exception: Optional[Exception] = None):
        events.append('on_close')
        await rsocket.close()
        events.append('close-returned')

async def main():
    def session(*conn):
        connections.append(conn)
        RSocketServer(TransportTCP(*conn))
    service = await asyncio.start_server(session, 'localhost', 0)
    port = service.sockets[0].getsockname()[1]
    async def provider():
        while True:
            yield TransportTCP(*await asyncio.open_connection('localhost', port))
    client = RSocketClient(provider(), handler_factory=ClientHandler)
    await client.connect()
    await asyncio.sleep(0.2)
    await client.reconnect()
    await asyncio.sleep(1.5)
    pending = [t for t in asyncio.all_tasks() if t is not asyncio.current_task() and not t.done()]
    names = sorted(str(t.get_coro()).split(' ')[2] for t in pending)
    print('events:', events)
    print('connections made:', len(connections))
    print('tasks still pending:', [n for n in names if 'RSocket' in n])
    ok = not [n for n in names if 'RSocket' in n]  # the call-back's own task is cancelled by the reconnect; nothing may hang
    service.close()
    sys.exit(0 if ok else 1)

asyncio.run(main())
