#!/venv/bin/python
"""Ad-hoc checker probing: apply a text edit (file, old, new) as an in-memory overlay and run every property's rules.
usage: try_edit.py <file> <old> <new> [--props C01,C02]     (old must match exactly once; \\n in arguments is a newline)
   or: try_edit.py --diff patch.diff                         (applies in a scratch copy of the touched files)"""
import multiprocessing
import os
import subprocess
import sys
import tempfile

sys.path.insert(0, os.path.dirname(os.path.dirname(os.path.abspath(__file__))))
from sa.variants import _run_one  # noqa: E402
from sa.rules import PROPERTIES  # noqa: E402

ROOT = os.environ.get('VERIF_REPO', '/repo')


def main(argv):
    props = sorted(PROPERTIES)
    if '--props' in argv:
        i = argv.index('--props')
        props = argv[i + 1].split(',')
        argv = argv[:i] + argv[i + 2:]
    if argv[0] == '--diff':
        overlay = {}
        files = [l[6:].strip() for l in open(argv[1]) if l.startswith('+++ b/')]
        with tempfile.TemporaryDirectory(dir='/dev/shm') as d:
            for f in files:
                os.makedirs(os.path.join(d, os.path.dirname(f)), exist_ok=True)
                if os.path.exists(os.path.join(ROOT, f)):
                    open(os.path.join(d, f), 'w').write(open(os.path.join(ROOT, f)).read())
            subprocess.check_call(['patch', '-s', '-p1', '-d', d, '-i', os.path.abspath(argv[1])])
            for f in files:
                overlay[f] = open(os.path.join(d, f)).read()
        v = {'id': 'adhoc', 'overlay': overlay, 'edits': [], 'kind': 'break', 'expect': None}
    else:
        file, old, new = argv[0], argv[1].replace('\\n', '\n'), argv[2].replace('\\n', '\n')
        v = {'id': 'adhoc', 'edits': [(file, old, new, 1)], 'kind': 'break', 'expect': None}
    base = {}
    with multiprocessing.get_context('fork').Pool(16) as pool:
        basev = {'id': 'base', 'overlay': {}, 'edits': [], 'kind': 'twin', 'expect': None}
        for p, r in zip(props, pool.map(_run_one, [(ROOT, p, basev, set()) for p in props])):
            base[p] = set(r[3])
        res = pool.map(_run_one, [(ROOT, p, v, base[p]) for p in props])
    hit = False
    for p, (vid, status, msg, new) in zip(props, res):
        if status != 'ran' or new:
            hit = True
            print('%s: %s %s' % (p, status, msg[:300]))
            for k in new[:6]:
                print('    ' + k[:260])
    if not hit:
        print('SILENT: no property reports this edit')


if __name__ == '__main__':
    main(sys.argv[1:])
