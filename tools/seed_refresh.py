#!/venv/bin/python
"""Re-run every registered quick check against each stored seed (/verif/seeded/*/patch.diff applied to /repo and
undone straight afterwards) and update meta.json's checks_reporting.  Documentation of checker validation."""
import json, os, subprocess, sys, glob
from concurrent.futures import ThreadPoolExecutor

only = set(sys.argv[1:])
man = json.load(open('/verif/MANIFEST.json'))
summary = []
for d in sorted(glob.glob('/verif/seeded/*/')):
    sid = os.path.basename(d.rstrip('/'))
    if only and sid not in only:
        continue
    mp = os.path.join(d, 'meta.json')
    meta = json.load(open(mp))
    patch = os.path.join(d, 'patch.diff')
    st = subprocess.run(['git', '-C', '/repo', 'status', '--porcelain', '--', 'rsocket', 'reactivestreams'],
                        capture_output=True, text=True).stdout.strip()
    if st:
        sys.exit('refusing: /repo has local changes')
    subprocess.check_call(['git', '-C', '/repo', 'apply', patch])
    caught = {}
    try:
        with ThreadPoolExecutor(max_workers=10) as ex:
            results = list(ex.map(lambda c: (c['property_id'], subprocess.run(
                c['quick_cmd'], shell=True, cwd='/verif', capture_output=True, text=True)), man['checks']))
        for pid, r in results:
            if r.returncode != 0:
                lines = [l for l in r.stdout.splitlines() if l.startswith('  C') or l.startswith('ANALYSIS-ERROR')]
                caught[pid] = {'exit': r.returncode, 'reports': lines[:4]}
    finally:
        subprocess.check_call(['git', '-C', '/repo', 'checkout', '--', 'rsocket', 'reactivestreams'])
    meta['checks_reporting'] = caught
    prop = meta['property']
    meta['detected_by_target_property_check'] = prop in caught and caught[prop]['exit'] == 1
    json.dump(meta, open(mp, 'w'), indent=1)
    summary.append((sid, prop, meta['detected_by_target_property_check'], {k: v['exit'] for k, v in caught.items()}))
for s in summary:
    print(*s)
# evidence files were rewritten against patched trees: restore them from the clean tree
for c in man['checks']:
    subprocess.run(c['quick_cmd'], shell=True, cwd='/verif', capture_output=True)
