#!/usr/bin/env python3
"""Regenerates MANIFEST.json from the registered rule modules (sa/rules/cXX.py) - run after adding a property."""
import importlib
import json
import os
import sys

here = os.path.dirname(os.path.dirname(os.path.abspath(__file__)))
sys.path.insert(0, here)
base = json.load(open('/root/.vp/BASELINE.json'))

props = [json.loads(l) for l in open(os.path.join(here, 'properties.jsonl'))]
checks = []
na = []
claimed = []
for p in props:
    pid = p['id']
    try:
        m = importlib.import_module('sa.rules.%s' % pid.lower())
    except ModuleNotFoundError:
        na.append({'property_id': pid, 'reason': 'static rules for this property are not built yet (in progress); '
                                                 'no other technique is substituted'})
        continue
    if getattr(m, 'NOT_APPLICABLE', None):
        na.append({'property_id': pid, 'reason': m.NOT_APPLICABLE})
        continue
    claimed.append(pid)
    checks.append({
        'property_id': pid,
        'quick_cmd': './check %s --tier quick' % pid,
        'thorough_cmd': './check %s --tier thorough' % pid,
        'evidence_file': 'evidence/%s.json' % pid,
        'replay_cmd_template': './check %s --replay {path}' % pid,
        'engine': 'sa',
        'level_claimed': {
            'category': 'other',
            'text': m.EXPLANATION,
            'design_ref': 'DESIGN.md section 5 (%s)' % pid,
        },
        'level_note': 'Static analysis of the parsed source only (no execution). Assumes: closed world (rsocket + '
                      'reactivestreams packages; application code modelled as call-outs that may raise / re-enter); '
                      'asyncio single-thread model (task switches only at await/yield; done-callbacks deferred). '
                      'Trusted base: CPython ast, sa/tables.py (protocol tables), sa/effects.py (effect primitives). '
                      'Each rule decides a necessary structural clause, not the run-time behaviour.',
        'technique': getattr(m, 'TECHNIQUE', 'path-sensitive typestate / dataflow over the AST with a class-hierarchy '
                                             'call graph (custom static analysis)'),
    })
manifest = {
    'version': 1,
    'setup_cmd': './check --self-check',
    'hooks': {
        'guard': 'RSOCKET_PY_VERIF',
        'enable': 'no hooks are needed: every check parses the working tree of /repo; the guard name is reserved',
        'baseline_off_cmd': base['cmd'],
        'source_commits': [],
        'add_only': True,
    },
    'engines': [{
        'name': 'sa',
        'path': 'sa/',
        'serves_properties': claimed,
        'kind_free_text': 'repository-specific static analysis in pure-stdlib Python: ast index + class-hierarchy '
                          'call resolution + path-sensitive abstract interpretation (constants, class tags, '
                          'provenance terms) + codec layout extraction + linear forms; no execution, no solver',
    }],
    'checks': checks,
    'not_applicable': na,
    'notes': 'All checks are static (technique family: static analysis). Findings are keyed by rule+construct in '
             'known_findings.json; fix commits in /repo are recorded there as "fixed:" entries. '
             'Exit 2 + ANALYSIS-ERROR means the analyser could not understand the code (never a verdict).',
}
json.dump(manifest, open(os.path.join(here, 'MANIFEST.json'), 'w'), indent=1)
print('claimed', claimed, 'not_applicable', [x['property_id'] for x in na])
