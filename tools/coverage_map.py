#!/venv/bin/python
"""Which functions of the library do the rule sets look at?  (documentation of checker coverage, not a check)

Runs every property's rules in-process with two probes: the interpreter's entry/inline hooks (functions whose paths are
enumerated) and reads of FuncInfo.node after the index is built (functions a rule inspects at AST level).  Functions
read by whole-repository scans only (every function read at most `--scan` times, default 3) are listed as 'scan only'.

usage: coverage_map.py [--root DIR] [--scan N]
"""
import collections
import os
import sys

sys.path.insert(0, os.path.dirname(os.path.dirname(os.path.abspath(__file__))))
root = '/repo'
scan = 3
if '--root' in sys.argv:
    root = sys.argv[sys.argv.index('--root') + 1]
if '--scan' in sys.argv:
    scan = int(sys.argv[sys.argv.index('--scan') + 1])

from sa import AnalysisError
from sa.index import load, FuncInfo
from sa import interp as I
from sa.report import Report
from sa.rules import PROPERTIES, Ctx

interp_hits = collections.Counter()
entry_hits = collections.Counter()
entry_props = collections.defaultdict(set)
node_hits = collections.Counter()
by_prop = collections.defaultdict(set)
current = [None]

orig_run = I.Interp.run
orig_inline = I.Interp._inline


def run(self, func, *a, **k):
    interp_hits[func.qualname] += 1
    entry_hits[func.qualname] += 1
    entry_props[func.qualname].add(current[0])
    by_prop[func.qualname].add(current[0])
    return orig_run(self, func, *a, **k)


def inline(self, e, f, *a, **k):
    interp_hits[f.qualname] += 1
    by_prop[f.qualname].add(current[0])
    return orig_inline(self, e, f, *a, **k)


I.Interp.run = run
I.Interp._inline = inline

repo = load(root)
for f in repo.all_functions():
    f.__dict__['_node'] = f.__dict__.pop('node')


node_prop = collections.defaultdict(collections.Counter)


def _get(self):
    node_hits[self.qualname] += 1
    node_prop[self.qualname][current[0]] += 1
    return self.__dict__['_node']


def _set(self, v):
    self.__dict__['_node'] = v


FuncInfo.node = property(_get, _set)

for prop in sorted(PROPERTIES):
    current[0] = prop
    spec = PROPERTIES[prop]
    ctx = Ctx(repo, Report(prop, 'quick', 0, root), 'quick', 0)
    for rid, fn in spec.RULES:
        current[0] = '%s/%s/%s' % (prop, rid, fn.__name__)
        try:
            fn(ctx)
        except AnalysisError as e:
            print('analysis-error', prop, rid, e)

FuncInfo.node = property(lambda self: self.__dict__['_node'], _set)
n_props = len(PROPERTIES)
rows = []
for f in repo.all_functions():
    if not (f.qualname.startswith('rsocket') or f.qualname.startswith('reactivestreams')):
        continue
    q = f.qualname
    size = (f.node.end_lineno or f.node.lineno) - f.node.lineno + 1
    if interp_hits[q]:
        kind = 'paths'
    elif node_hits[q] > scan * n_props:
        kind = 'ast'
    else:
        kind = 'scan-only'
    rows.append((kind, f.file, q, size, interp_hits[q], node_hits[q], sorted(p for p in by_prop[q] if p)))
tot = collections.Counter(r[0] for r in rows)
print('functions: %d; paths enumerated %d, inspected at AST level %d, reached by whole-repository scans only %d' % (
    len(rows), tot['paths'], tot['ast'], tot['scan-only']))
lines = collections.Counter()
for r in rows:
    lines[r[0]] += r[3]
print('lines:', dict(lines))
wide = collections.Counter()
for q, ps in by_prop.items():
    for p_ in ps:
        wide[p_] += 1
wide_rules = {r for r, n in wide.items() if n > 300}
node_wide = collections.Counter()
for q, c in node_prop.items():
    for r in c:
        node_wide[r] += 1
node_wide_rules = {r for r, n in node_wide.items() if n > 300}
print('whole-repository rules (excluded below):', sorted(wide_rules))
rows = [(k, fl, q, sz, ih, nh, sorted({x.split('/')[0] for x in by_prop[q] if x and x not in wide_rules}))
        for k, fl, q, sz, ih, nh, _ in rows]
generic = collections.Counter()
for q, ps in entry_props.items():
    for p_ in ps:
        generic[p_] += 1
print('entry functions per property:', dict(generic))
print('\n# functions by number of properties whose rules interpret them (entry or inlined); 0-2 = thin')
for kind, file, q, size, ih, nh, props in sorted(rows, key=lambda r: (len(r[6]), r[1], r[2])):
    if len(props) <= 2 and size >= 4:
        ast_rules = sorted({r.split('/')[0] for r in node_prop[q] if r and r not in node_wide_rules})
        print('    %d %-14s %-80s %3d lines  ast-targeted: %s' % (len(props), ','.join(props), q, size,
                                                                   ','.join(ast_rules) or '-'))
print('\n# scan-only functions (not looked at by any targeted rule), by file')
last = None
for kind, file, q, size, ih, nh, props in sorted(rows, key=lambda r: (r[1], r[2])):
    if kind != 'scan-only':
        continue
    if file != last:
        print(file)
        last = file
    print('    %-70s %3d lines  node reads %d' % (q.split(':', 1)[1], size, nh))
