#!/venv/bin/python
"""Checker validation by systematic mutation (not a check: a map of what the rules do and do not notice).

Generates first-order mutants of the analysed source (statement deletion, negated tests, swapped comparison operators,
and/or swaps, integer +-1, boolean flips, dropped `not`), applies each as an in-memory overlay and runs every property's
rules.  Prints one line per mutant: the properties that report it, or SILENT.

usage: mutation_sweep.py [--retest LOG (only mutants that were SILENT in an earlier log)] [--props C01,..] [--files f1,f2] [--ops del,neg,cmp,bool,int,const,not] [--out FILE] [--limit N] [--jobs N]
"""
import ast
import json
import multiprocessing
import os
import sys

sys.path.insert(0, os.path.dirname(os.path.dirname(os.path.abspath(__file__))))

ROOT = os.environ.get('VERIF_REPO', '/repo')

DEFAULT_FILES = """rsocket/rsocket_base.py rsocket/rsocket_client.py rsocket/rsocket_server.py rsocket/stream_control.py
rsocket/frame.py rsocket/frame_helpers.py rsocket/frame_builders.py rsocket/frame_fragment_cache.py rsocket/frame_parser.py
rsocket/fragment.py rsocket/helpers.py rsocket/lease.py rsocket/queue_peekable.py rsocket/datetime_helpers.py
rsocket/handlers/request_response_requester.py rsocket/handlers/request_response_responder.py
rsocket/handlers/request_stream_requester.py rsocket/handlers/request_stream_responder.py
rsocket/handlers/request_cahnnel_common.py rsocket/handlers/request_channel_requester.py
rsocket/handlers/request_cahnnel_responder.py rsocket/frame_fragmenter.py rsocket/async_helpers.py rsocket/payload.py rsocket/request_handler.py
rsocket/streams/stream_from_generator.py rsocket/streams/stream_from_async_generator.py rsocket/streams/helpers.py
rsocket/streams/empty_stream.py rsocket/streams/error_stream.py rsocket/streams/null_subscrier.py
rsocket/extensions/composite_metadata.py rsocket/extensions/tagging.py rsocket/extensions/routing.py
rsocket/extensions/stream_data_mimetype.py rsocket/extensions/authentication.py rsocket/extensions/authentication_content.py
rsocket/extensions/authentication_types.py rsocket/extensions/helpers.py rsocket/extensions/mimetype.py
rsocket/extensions/mimetypes.py rsocket/extensions/composite_metadata_item.py
rsocket/routing/request_router.py rsocket/routing/routing_request_handler.py
rsocket/transports/tcp.py rsocket/transports/abstract_messaging.py rsocket/transports/transport.py
rsocket/reactivex/reactivex_client.py rsocket/reactivex/reactivex_handler_adapter.py rsocket/reactivex/from_rsocket_publisher.py
rsocket/reactivex/back_pressure_publisher.py rsocket/reactivex/reactivex_channel.py rsocket/reactivex/subscriber_adapter.py
rsocket/rx_support/rx_rsocket.py rsocket/rx_support/rx_handler_adapter.py rsocket/rx_support/from_rsocket_publisher.py
rsocket/rx_support/back_pressure_publisher.py rsocket/rx_support/rx_channel.py rsocket/rx_support/subscriber_adapter.py
rsocket/load_balancer/round_robin.py rsocket/load_balancer/random_client.py rsocket/load_balancer/load_balancer_rsocket.py
rsocket/streams/stream_handler.py rsocket/awaitable/awaitable_rsocket.py rsocket/awaitable/collector_subscriber.py
rsocket/exceptions.py rsocket/rsocket_internal.py rsocket/reactivex/reactivex_handler.py rsocket/rx_support/rx_handler.py
rsocket/transports/aiohttp_websocket.py rsocket/transports/aioquic_transport.py rsocket/transports/asyncwebsockets_transport.py
rsocket/transports/channels_transport.py rsocket/transports/http3_transport.py rsocket/transports/quart_websocket.py
rsocket/transports/websockets_transport.py reactivestreams/subscriber.py reactivestreams/subscription.py
reactivestreams/publisher.py
""".split()

CMP = {ast.Lt: '<=', ast.LtE: '<', ast.Gt: '>=', ast.GtE: '>', ast.Eq: '!=', ast.NotEq: '==', ast.Is: 'is not',
       ast.IsNot: 'is', ast.In: 'not in', ast.NotIn: 'in'}
CMP_TEXT = {ast.Lt: '<', ast.LtE: '<=', ast.Gt: '>', ast.GtE: '>=', ast.Eq: '==', ast.NotEq: '!=', ast.Is: 'is',
            ast.IsNot: 'is not', ast.In: 'in', ast.NotIn: 'not in'}


def offsets(src):
    lines = src.split('\n')
    starts = [0]
    for ln in lines:
        starts.append(starts[-1] + len(ln) + 1)
    return starts


def span(starts, src, node):
    # col offsets are utf8 byte offsets; the analysed files are ASCII where it matters
    a = starts[node.lineno - 1] + node.col_offset
    b = starts[node.end_lineno - 1] + node.end_col_offset
    return a, b


def is_log(node):
    t = ast.unparse(node)
    return t.startswith(('logger()', 'logging.', 'log_frame', 'warnings.', 'print('))


def mutants_of(file, src, ops):
    tree = ast.parse(src)
    starts = offsets(src)
    out = []

    def add(op, node, a, b, text, what):
        out.append({'file': file, 'op': op, 'line': node.lineno, 'a': a, 'b': b, 'text': text,
                    'what': what, 'orig': src[a:b][:120]})

    docstrings = set()
    for n in ast.walk(tree):
        if isinstance(n, (ast.FunctionDef, ast.AsyncFunctionDef, ast.ClassDef, ast.Module)) and n.body and \
                isinstance(n.body[0], ast.Expr) and isinstance(n.body[0].value, ast.Constant) and \
                isinstance(n.body[0].value.value, str):
            docstrings.add(id(n.body[0]))
    in_ann = set()
    for n in ast.walk(tree):
        for fld in ('annotation', 'returns'):
            sub = getattr(n, fld, None)
            if sub is not None:
                for x in ast.walk(sub):
                    in_ann.add(id(x))
    for n in ast.walk(tree):
        if id(n) in in_ann:
            continue
        if 'del' in ops and isinstance(n, (ast.Expr, ast.Assign, ast.AugAssign, ast.AnnAssign, ast.Raise,
                                           ast.Delete)) and id(n) not in docstrings:
            if isinstance(n, ast.Expr) and (is_log(n.value) or isinstance(n.value, ast.Constant)):
                continue
            if isinstance(n, ast.AnnAssign) and n.value is None:
                continue
            if n.col_offset == 0:
                continue  # module level
            a, b = span(starts, src, n)
            add('del', n, a, b, 'pass', 'delete statement')
        if 'neg' in ops and isinstance(n, (ast.If, ast.While, ast.IfExp)):
            t = n.test
            if isinstance(n, ast.While) and isinstance(t, ast.Constant):
                continue
            a, b = span(starts, src, t)
            add('neg', t, a, b, 'not (%s)' % src[a:b], 'negate test')
        if 'cmp' in ops and isinstance(n, ast.Compare) and len(n.ops) == 1 and type(n.ops[0]) in CMP:
            la, lb = span(starts, src, n.left)
            ra, rb = span(starts, src, n.comparators[0])
            mid = src[lb:ra]
            old = CMP_TEXT[type(n.ops[0])]
            if mid.count(old) >= 1:
                add('cmp', n, lb, ra, mid.replace(old, CMP[type(n.ops[0])], 1), 'comparison %s -> %s' % (
                    old, CMP[type(n.ops[0])]))
        if 'bool' in ops and isinstance(n, ast.BoolOp):
            a, b = span(starts, src, n)
            vals = [src[slice(*span(starts, src, v))] for v in n.values]
            joiner = ' or ' if isinstance(n.op, ast.And) else ' and '
            add('bool', n, a, b, '(' + joiner.join('(%s)' % v for v in vals) + ')', 'and <-> or')
            # drop one operand
            for i in range(len(vals)):
                rest = vals[:i] + vals[i + 1:]
                j = ' and ' if isinstance(n.op, ast.And) else ' or '
                add('bool', n, a, b, '(' + j.join('(%s)' % v for v in rest) + ')', 'drop operand %d' % i)
        if 'int' in ops and isinstance(n, ast.Constant) and type(n.value) is int and not isinstance(n.value, bool):
            a, b = span(starts, src, n)
            add('int', n, a, b, str(n.value + 1), 'constant + 1')
            if n.value > 0:
                add('int', n, a, b, str(n.value - 1), 'constant - 1')
        if 'const' in ops and isinstance(n, ast.Constant) and isinstance(n.value, bool):
            a, b = span(starts, src, n)
            add('const', n, a, b, str(not n.value), 'boolean flipped')
        if 'not' in ops and isinstance(n, ast.UnaryOp) and isinstance(n.op, ast.Not):
            a, b = span(starts, src, n)
            oa, ob = span(starts, src, n.operand)
            add('not', n, a, b, '(%s)' % src[oa:ob], 'drop not')
        if 'ret' in ops and isinstance(n, ast.Return) and n.value is not None and \
                isinstance(n.value, ast.Constant) and isinstance(n.value.value, bool):
            pass
    return out


def run_one(job):
    m, props, base = job
    from sa.variants import _run_one
    path = os.path.join(ROOT, m['file'])
    src = open(path, encoding='utf-8').read()
    new = src[:m['a']] + m['text'] + src[m['b']:]
    try:
        compile(new, m['file'], 'exec')
    except SyntaxError:
        return m, None
    v = {'id': 'm', 'overlay': {m['file']: new}, 'edits': [], 'kind': 'break', 'expect': None}
    hits = {}
    for p in props:
        vid, status, msg, newv = _run_one((ROOT, p, v, base[p]))
        if status.startswith('analysis-error'):
            hits[p] = ['ANALYSIS-ERROR ' + msg[:160]]
        elif newv:
            hits[p] = newv[:3]
    return m, hits


def main(argv):
    from sa.rules import PROPERTIES
    from sa.variants import _run_one
    files = DEFAULT_FILES
    ops = {'del', 'neg', 'cmp', 'bool', 'int', 'const', 'not'}
    out = None
    limit = None
    jobs = 16
    retest = None
    only_props = None
    i = 0
    while i < len(argv):
        if argv[i] == '--files':
            files = argv[i + 1].split(',')
        elif argv[i] == '--ops':
            ops = set(argv[i + 1].split(','))
        elif argv[i] == '--out':
            out = argv[i + 1]
        elif argv[i] == '--limit':
            limit = int(argv[i + 1])
        elif argv[i] == '--jobs':
            jobs = int(argv[i + 1])
        elif argv[i] == '--retest':
            retest = argv[i + 1]
        elif argv[i] == '--props':
            only_props = argv[i + 1].split(',')
        i += 2
    props = only_props or sorted(PROPERTIES)
    basev = {'id': 'base', 'overlay': {}, 'edits': [], 'kind': 'twin', 'expect': None}
    base = {}
    for p in props:
        base[p] = set(_run_one((ROOT, p, basev, set()))[3])
    muts = []
    for f in files:
        path = os.path.join(ROOT, f)
        if not os.path.exists(path):
            print('missing', f)
            continue
        muts.extend(mutants_of(f, open(path, encoding='utf-8').read(), ops))
    if retest:
        import re
        want = set()
        for ln in open(retest):
            mm = re.match(r'^SILENT\s+(\S+):(\d+) (\w+) \[(.+?)\] :: (.*)$', ln.rstrip('\n'))
            if mm:
                want.add((mm.group(1), int(mm.group(2)), mm.group(3), mm.group(4), mm.group(5)))
        muts = [m for m in muts if (m['file'], m['line'], m['op'], m['what'],
                                    m['orig'].replace('\n', ' ')[:90]) in want]
    if limit:
        muts = muts[:limit]
    print('%d mutants over %d files' % (len(muts), len(files)), flush=True)
    results = []
    with multiprocessing.get_context('fork').Pool(jobs) as pool:
        for m, hits in pool.imap_unordered(run_one, [(m, props, base) for m in muts], chunksize=2):
            if hits is None:
                continue
            rec = dict(m)
            rec['hits'] = hits
            results.append(rec)
            tag = ','.join(sorted(hits)) if hits else 'SILENT'
            print('%-8s %s:%d %s [%s] :: %s' % (tag[:40], m['file'], m['line'], m['op'], m['what'],
                                                  m['orig'].replace('\n', ' ')[:90]), flush=True)
    n_sil = len([r for r in results if not r['hits']])
    print('TOTAL %d mutants, %d reported, %d silent' % (len(results), len(results) - n_sil, n_sil))
    if out:
        with open(out, 'w') as f:
            json.dump(results, f, indent=1)


if __name__ == '__main__':
    main(sys.argv[1:])
