#!/venv/bin/python
"""Robustness sweep (checker validation, not a check): apply each generic behaviour-preserving transformation of
sa/twins.py to the analysed packages - whole tree at once, and file by file - as an in-memory overlay and run every
property's rules.  Any violation or analysis error that the unmodified tree does not show is a checker bug.

usage: twin_sweep.py [--files] [--props C01,C02] [--transforms rename-locals,...] [--apply-to DIR transform]"""
import json, multiprocessing, os, sys, time, traceback
sys.path.insert(0, os.path.dirname(os.path.dirname(os.path.abspath(__file__))))
from sa import AnalysisError
from sa.index import load, PACKAGES
from sa.report import Report, load_known, match_known
from sa.rules import PROPERTIES, Ctx
from sa.twins import TRANSFORMS as _T, OPTIONAL_TRANSFORMS
TRANSFORMS = dict(_T)
ALL_TRANSFORMS = dict(_T, **OPTIONAL_TRANSFORMS)

ROOT = os.environ.get('VERIF_REPO', '/repo')


def sources():
    out = {}
    for pkg in PACKAGES:
        for dp, dn, fn in os.walk(os.path.join(ROOT, pkg)):
            for f in fn:
                if f.endswith('.py'):
                    full = os.path.join(dp, f)
                    out[os.path.relpath(full, ROOT)] = open(full).read()
    return out


def run(args):
    label, overlay, props = args
    res = {}
    try:
        repo = load(ROOT, overlay)
    except Exception as e:
        return label, {'*': 'LOAD-ERROR %s' % e}
    for prop in props:
        rep = Report(prop, 'quick', 0, ROOT)
        ctx = Ctx(repo, rep, 'quick', 0)
        try:
            for rid, fn in PROPERTIES[prop].RULES:
                fn(ctx)
            known = load_known()
            bad = sorted({i.key() for i in rep.instances if not i.ok and match_known(known, prop, i) is None})
            if bad:
                res[prop] = bad[:4]
        except AnalysisError as e:
            res[prop] = 'ANALYSIS-ERROR %s' % str(e)[:300]
        except Exception:
            res[prop] = 'CRASH ' + traceback.format_exc()[-300:]
    return label, res


def main():
    argv = sys.argv[1:]
    if '--apply-to' in argv:
        d, t = argv[argv.index('--apply-to') + 1], argv[argv.index('--apply-to') + 2]
        n = 0
        for pkg in PACKAGES:
            for dp, dn, fn in os.walk(os.path.join(d, pkg)):
                for f in fn:
                    if f.endswith('.py'):
                        full = os.path.join(dp, f)
                        src = open(full).read()
                        open(full, 'w').write(ALL_TRANSFORMS[t](src))
                        n += 1
        print('applied', t, 'to', n, 'files under', d)
        return
    props = [p for p in PROPERTIES]
    if '--props' in argv:
        props = argv[argv.index('--props') + 1].split(',')
    names = list(TRANSFORMS)
    if '--transforms' in argv:
        names = argv[argv.index('--transforms') + 1].split(',')
    per_file = '--files' in argv
    src = sources()
    jobs = []
    for t in names:
        fn = ALL_TRANSFORMS[t]
        whole = {}
        for path, s in src.items():
            if path.startswith('rsocket/cli'):
                continue
            try:
                whole[path] = fn(s)
            except Exception as e:
                print('transform', t, 'failed on', path, e)
        jobs.append((t + ' / whole tree', whole, props))
        if per_file:
            for path, s in whole.items():
                if s != src[path] and s.strip() != ast_norm(src[path]):
                    jobs.append(('%s / %s' % (t, path), {path: s}, props))
    t0 = time.time()
    bad = 0
    with multiprocessing.get_context('fork').Pool(min(16, len(jobs))) as pool:
        for label, res in pool.imap_unordered(run, jobs):
            if res:
                bad += 1
                print('NOISY', label)
                for k, v in res.items():
                    print('    ', k, v if isinstance(v, str) else v[:3])
    print('%d overlay variants x %d properties, %d noisy  [%.1fs]' % (len(jobs), len(props), bad, time.time() - t0))
    sys.exit(1 if bad else 0)


def ast_norm(s):
    import ast
    return ast.unparse(ast.parse(s)).strip()


if __name__ == '__main__':
    main()
