#!/venv/bin/python
"""Checker validation, second stage: which of the mutants that no rule reports SURVIVE the repository's own tests?

Those are the interesting ones (a change that breaks behaviour, compiles, passes the suite and is not noticed by any
check).  For every silent mutant of a mutation_sweep result this copies the library and the tests to a scratch
directory under /dev/shm, applies the mutant and runs the fast, network-free part of the suite with -x.  Not a check.

usage: mutant_suite.py <sweep.json> <out.json> [--jobs N] [--files f1,f2] [--limit N]
"""
import json
import multiprocessing
import os
import shutil
import subprocess
import sys
import tempfile

REPO = os.environ.get('VERIF_REPO', '/repo')
K = 'not quart and not aiohttp and not http3 and not quic and not websockets and not graphql and not cli'
CMD = ['/venv/bin/python', '-m', 'pytest', '-q', '-p', 'no:cacheprovider', '--timeout=30', 'tests/rsocket',
       'tests/test_reactivex', 'tests/rx_support', 'tests/reactivestreams', '-x', '-q', '-k', K,
       '--deselect', 'tests/test_reactivex/test_concurrency.py::test_concurrent_streams']


def run(m):
    d = tempfile.mkdtemp(prefix='ms_', dir='/dev/shm')
    try:
        for sub in ('rsocket', 'reactivestreams', 'tests'):
            shutil.copytree(os.path.join(REPO, sub), os.path.join(d, sub),
                            ignore=shutil.ignore_patterns('__pycache__', '*.pyc'))
        for f in ('setup.cfg', 'pyproject.toml'):
            if os.path.exists(os.path.join(REPO, f)):
                shutil.copy(os.path.join(REPO, f), d)
        path = os.path.join(d, m['file'])
        src = open(path, encoding='utf-8').read()
        if src[m['a']:m['b']][:120] != m['orig']:
            return m, 'stale', ''
        open(path, 'w', encoding='utf-8').write(src[:m['a']] + m['text'] + src[m['b']:])
        try:
            r = subprocess.run(CMD, cwd=d, capture_output=True, text=True, timeout=400,
                               env={**os.environ, 'PYTHONDONTWRITEBYTECODE': '1'})
            tail = (r.stdout or '').strip().splitlines()[-3:]
            status = 'survived' if r.returncode == 0 else 'killed'
            if status == 'killed':
                # one retry of the failing test alone guards against the flaky fixtures
                failed = [ln.split()[1] for ln in (r.stdout or '').splitlines() if ln.startswith('FAILED ')]
                failed += [ln.split()[1] for ln in (r.stdout or '').splitlines() if ln.startswith('ERROR ')]
                if failed and 'error' not in ' '.join(tail).lower().split('in')[0:1]:
                    r2 = subprocess.run(CMD[:6] + ['--timeout=30', failed[0]], cwd=d, capture_output=True, text=True,
                                        timeout=200, env={**os.environ, 'PYTHONDONTWRITEBYTECODE': '1'})
                    if r2.returncode == 0:
                        # flaky: run the whole subset again without -x
                        cmd = [c for c in CMD if c != '-x']
                        r3 = subprocess.run(cmd, cwd=d, capture_output=True, text=True, timeout=600,
                                            env={**os.environ, 'PYTHONDONTWRITEBYTECODE': '1'})
                        bad = [ln for ln in (r3.stdout or '').splitlines() if ln.startswith(('FAILED ', 'ERROR '))]
                        still = []
                        for ln in bad[:6]:
                            r4 = subprocess.run(CMD[:6] + ['--timeout=30', ln.split()[1]], cwd=d,
                                                capture_output=True, text=True, timeout=200,
                                                env={**os.environ, 'PYTHONDONTWRITEBYTECODE': '1'})
                            if r4.returncode != 0:
                                still.append(ln.split()[1])
                        if not still and len(bad) <= 6:
                            status = 'survived'
                            tail = ['(flaky failures only: %s)' % [b.split()[1] for b in bad]]
                        else:
                            tail = ['killed by %s' % (still or [b.split()[1] for b in bad][:3])]
                    else:
                        tail = ['killed by %s' % failed[0]]
            return m, status, ' | '.join(tail)[-300:]
        except subprocess.TimeoutExpired:
            return m, 'killed', 'timeout (hang)'
    finally:
        shutil.rmtree(d, ignore_errors=True)


def main(argv):
    src, out = argv[0], argv[1]
    jobs = 10
    files = None
    limit = None
    i = 2
    while i < len(argv):
        if argv[i] == '--jobs':
            jobs = int(argv[i + 1])
        elif argv[i] == '--files':
            files = set(argv[i + 1].split(','))
        elif argv[i] == '--limit':
            limit = int(argv[i + 1])
        i += 2
    muts = [m for m in json.load(open(src)) if not m['hits']]
    if files:
        muts = [m for m in muts if m['file'] in files]
    # crash-only mutants are not worth a suite run: deleted __slots__/class-level declarations
    muts = [m for m in muts if not (m['op'] == 'del' and m['orig'].startswith('__slots__'))]
    if limit:
        muts = muts[:limit]
    print('%d silent mutants to run' % len(muts), flush=True)
    res = []
    with multiprocessing.get_context('fork').Pool(jobs) as pool:
        for m, status, tail in pool.imap_unordered(run, muts):
            rec = dict(m)
            rec['suite'] = status
            rec['suite_tail'] = tail
            res.append(rec)
            print('%-8s %s:%d %s [%s] :: %s  ## %s' % (status.upper(), m['file'], m['line'], m['op'], m['what'],
                                                        m['orig'].replace('\n', ' ')[:70], tail[:100]), flush=True)
            if len(res) % 25 == 0:
                json.dump(res, open(out, 'w'), indent=1)
    json.dump(res, open(out, 'w'), indent=1)
    print('TOTAL %d: %d survived, %d killed' % (len(res), len([r for r in res if r['suite'] == 'survived']),
                                                len([r for r in res if r['suite'] == 'killed'])))


if __name__ == '__main__':
    main(sys.argv[1:])
