#!/venv/bin/python
"""Intake of a seeded change produced by a sub-agent (documentation of checker validation, not a check).

usage: seed_intake.py <seed-id> <agent-worktree> <property> [--suite]
  1. copies <worktree>/_seed/{patch.diff, test_demo.py|demo.py, notes.md} to /verif/seeded/<seed-id>/
  2. in a fresh scratch worktree of /repo HEAD: runs the demo without the patch (must pass) and with it (must fail)
  3. with --suite: runs the pinned suite with the patch (triage/run_suite.py logic: regressions re-run alone)
  4. applies the patch to /repo, runs every registered quick check, records which report a violation, and undoes it
  5. writes meta.json
"""
import json, os, shutil, subprocess, sys, tempfile, time

sid, wt, prop = sys.argv[1:4]
suite = '--suite' in sys.argv
extra = {}
for key in ('needs', 'summary', 'history'):
    if '--' + key in sys.argv:
        extra[key] = sys.argv[sys.argv.index('--' + key) + 1]
dest = '/verif/seeded/%s' % sid
os.makedirs(dest, exist_ok=True)
src = os.path.join(wt, '_seed')
demo = None
for name in ('test_demo.py', 'demo.py'):
    if os.path.exists(os.path.join(src, name)):
        demo = name
for name in ('patch.diff', 'notes.md', demo):
    if name and os.path.exists(os.path.join(src, name)):
        shutil.copy(os.path.join(src, name), os.path.join(dest, name))
# helper modules the demo imports
for name in os.listdir(src):
    if name.endswith('.py') and name not in ('test_demo.py', 'demo.py') and os.path.getsize(os.path.join(src, name)) < 200000:
        shutil.copy(os.path.join(src, name), os.path.join(dest, name))
# regenerate the patch from the worktree's actual diff (library files only) to be sure it is what is applied there
diff = subprocess.run(['git', '-C', wt, 'diff', '--', 'rsocket', 'reactivestreams'], capture_output=True, text=True).stdout
if diff.strip():
    open(os.path.join(dest, 'patch.diff'), 'w').write(diff)
meta = {'seed': sid, 'property': prop, 'created': time.strftime('%Y-%m-%d'), 'ran': []}
if 'summary' in extra:
    meta['summary'] = extra['summary']
if 'needs' in extra:
    meta['needs_to_manifest'] = extra['needs']
if 'history' in extra:
    meta['history'] = extra['history']

scratch = tempfile.mkdtemp(prefix='seedcheck_', dir='/tmp')
os.rmdir(scratch)
subprocess.check_call(['git', '-C', '/repo', 'worktree', 'add', '-q', '--detach', scratch, 'HEAD'])
try:
    os.makedirs(os.path.join(scratch, '_seed'), exist_ok=True)
    shutil.copy(os.path.join(dest, demo), os.path.join(scratch, '_seed', demo))
    for _n in os.listdir(dest):
        if _n.endswith('.py') and _n != demo:
            shutil.copy(os.path.join(dest, _n), os.path.join(scratch, '_seed', _n))

    def run_demo():
        if demo.startswith('test_'):
            cmd = ['/venv/bin/python', '-m', 'pytest', '-q', '-p', 'no:cacheprovider', '--timeout=120', '_seed/' + demo]
        else:
            cmd = ['/venv/bin/python', '_seed/' + demo]
        r = subprocess.run(cmd, cwd=scratch, capture_output=True, text=True, timeout=900)
        tail = (r.stdout + r.stderr).strip().splitlines()[-3:]
        return r.returncode, tail

    rc0, t0 = run_demo()
    meta['demo_without_change'] = {'exit': rc0, 'tail': t0}
    subprocess.check_call(['git', '-C', scratch, 'apply', os.path.join(dest, 'patch.diff')])
    rc1, t1 = run_demo()
    meta['demo_with_change'] = {'exit': rc1, 'tail': t1}
    meta['ran'].append('demo %s in a scratch worktree of /repo HEAD without and with patch.diff' % demo)
    meta['demo_confirms'] = (rc0 == 0 and rc1 != 0)
    if suite:
        r = subprocess.run(['/venv/bin/python', '/verif/triage/run_suite.py', scratch], capture_output=True, text=True)
        meta['suite_with_change'] = r.stdout.strip().splitlines()[-8:]
        meta['ran'].append('pinned suite with the patch (triage/run_suite.py: apparent regressions re-run alone)')
finally:
    subprocess.call(['git', '-C', '/repo', 'worktree', 'remove', '--force', scratch])

# checks against the patched /repo
subprocess.check_call(['git', '-C', '/repo', 'apply', os.path.join(dest, 'patch.diff')])
caught = {}
try:
    man = json.load(open('/verif/MANIFEST.json'))
    for c in man['checks']:
        pid = c['property_id']
        r = subprocess.run(c['quick_cmd'], shell=True, cwd='/verif', capture_output=True, text=True)
        lines = [l for l in r.stdout.splitlines() if l.startswith('  C') or l.startswith('ANALYSIS-ERROR')]
        if r.returncode != 0:
            caught[pid] = {'exit': r.returncode, 'reports': lines[:6]}
finally:
    subprocess.check_call(['git', '-C', '/repo', 'checkout', '--', 'rsocket', 'reactivestreams'])
    # evidence files were rewritten against the patched tree: restore by re-running the affected checks
    for pid in caught:
        subprocess.run('./check %s --tier quick' % pid, shell=True, cwd='/verif', capture_output=True)
meta['checks_reporting'] = caught
meta['detected_by_target_property_check'] = prop in caught and caught[prop]['exit'] == 1
meta['ran'].append('git -C /repo apply patch.diff; every MANIFEST quick_cmd; git -C /repo checkout -- .')
old = {}
mp = os.path.join(dest, 'meta.json')
if os.path.exists(mp):
    old = json.load(open(mp))
for k in ('needs_to_manifest', 'summary', 'history', 'suite_with_change'):
    if k in old and k not in meta:
        meta[k] = old[k]
json.dump(meta, open(mp, 'w'), indent=1)
print(json.dumps({k: meta[k] for k in ('seed', 'demo_confirms', 'detected_by_target_property_check')}, indent=0))
print('checks reporting:', {k: v['exit'] for k, v in caught.items()})
for k, v in caught.items():
    for l in v['reports'][:3]:
        print('   ', k, l[:220])
