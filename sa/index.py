"""E1: loader and index.  Parses every .py file of the analysed packages and builds
modules, classes (with C3 MRO), functions, the import table, folded constants and
attribute types.  Nothing is imported or executed."""
import ast
import os
from typing import Dict, List, Optional, Tuple, Iterable

from . import AnalysisError

PACKAGES = ('rsocket', 'reactivestreams')


class External:
    """A name that resolves outside the analysed packages (stdlib / third party)."""
    __slots__ = ('qualname',)

    def __init__(self, qualname: str):
        self.qualname = qualname

    def __repr__(self):
        return 'External(%s)' % self.qualname

    def __eq__(self, other):
        return isinstance(other, External) and other.qualname == self.qualname

    def __hash__(self):
        return hash(('ext', self.qualname))


class ModuleRef:
    __slots__ = ('name',)

    def __init__(self, name):
        self.name = name

    def __repr__(self):
        return 'ModuleRef(%s)' % self.name


class FuncInfo:
    def __init__(self, module: 'Module', node, cls: Optional['ClassInfo'], parent: Optional['FuncInfo'], arm: str):
        self.module = module
        self.node = node
        self.cls = cls
        self.parent = parent
        self.arm = arm  # '' | 'try' | 'except' (alternative definitions under try/except ImportError)
        self.name = node.name
        self.is_async = isinstance(node, ast.AsyncFunctionDef)
        self.children: Dict[str, FuncInfo] = {}
        self.decorators = [ast.unparse(d) for d in node.decorator_list]
        self._has_yield = None

    @property
    def qualname(self) -> str:
        if self.parent is not None:
            return self.parent.qualname + '.<locals>.' + self.name
        if self.cls is not None:
            return self.cls.qualname + '.' + self.name
        return self.module.name + ':' + self.name

    @property
    def short(self) -> str:
        if self.parent is not None:
            return self.parent.short + '.<locals>.' + self.name
        if self.cls is not None:
            return self.cls.name + '.' + self.name
        return self.name

    @property
    def file(self) -> str:
        return self.module.relpath

    @property
    def line(self) -> int:
        return self.node.lineno

    def params(self) -> List[str]:
        a = self.node.args
        return [x.arg for x in a.posonlyargs + a.args]

    def has_yield(self) -> bool:
        if self._has_yield is None:
            self._has_yield = any(isinstance(n, (ast.Yield, ast.YieldFrom)) for n in walk_local(self.node))
        return self._has_yield

    def is_contextmanager(self) -> bool:
        return any(d.split('.')[-1] in ('contextmanager', 'asynccontextmanager') for d in self.decorators)

    def is_property(self) -> bool:
        return any(d == 'property' or d.endswith('.setter') for d in self.decorators)

    def __repr__(self):
        return 'Func(%s)' % self.qualname


def walk_local(fnode) -> Iterable[ast.AST]:
    """ast.walk that does not descend into nested function/class definitions or lambdas."""
    stack = list(ast.iter_child_nodes(fnode))
    while stack:
        n = stack.pop()
        yield n
        if isinstance(n, (ast.FunctionDef, ast.AsyncFunctionDef, ast.ClassDef, ast.Lambda)):
            continue
        stack.extend(ast.iter_child_nodes(n))


class ClassInfo:
    def __init__(self, module: 'Module', node: ast.ClassDef, outer: Optional['ClassInfo'], arm: str):
        self.module = module
        self.node = node
        self.outer = outer
        self.arm = arm
        self.name = node.name
        self.methods: Dict[str, FuncInfo] = {}
        self.setters: Dict[str, FuncInfo] = {}
        self.nested: Dict[str, ClassInfo] = {}
        self.bases: list = []  # ClassInfo | External
        self.class_attrs: Dict[str, ast.expr] = {}
        self.class_annotations: Dict[str, ast.expr] = {}
        self._mro = None

    @property
    def qualname(self):
        if self.outer is not None:
            return self.outer.qualname + '.' + self.name
        return self.module.name + ':' + self.name

    @property
    def file(self):
        return self.module.relpath

    @property
    def line(self):
        return self.node.lineno

    def mro(self) -> List['ClassInfo']:
        if self._mro is None:
            self._mro = _c3(self)
        return self._mro

    def is_subclass_of(self, other: 'ClassInfo') -> bool:
        return other in self.mro()

    def external_bases(self) -> List[str]:
        out = []
        for c in self.mro():
            for b in c.bases:
                if isinstance(b, External):
                    out.append(b.qualname)
        return out

    def lookup(self, name: str) -> Optional[FuncInfo]:
        for c in self.mro():
            if name in c.methods:
                return c.methods[name]
        return None

    def lookup_after(self, after: 'ClassInfo', name: str) -> Optional[FuncInfo]:
        """super() lookup: first definition of `name` after class `after` in self's MRO."""
        m = self.mro()
        if after not in m:
            return None
        for c in m[m.index(after) + 1:]:
            if name in c.methods:
                return c.methods[name]
        return None

    def is_abstract_method(self, name: str) -> bool:
        f = self.lookup(name)
        return f is not None and any('abstractmethod' in d for d in f.decorators)

    def __repr__(self):
        return 'Class(%s)' % self.qualname


def _c3(cls: ClassInfo) -> List[ClassInfo]:
    seqs = []
    for b in cls.bases:
        if isinstance(b, ClassInfo):
            seqs.append(list(b.mro()))
    seqs.append([b for b in cls.bases if isinstance(b, ClassInfo)])
    result = [cls]
    seqs = [s for s in seqs if s]
    while seqs:
        for s in seqs:
            cand = s[0]
            if not any(cand in t[1:] for t in seqs):
                break
        else:
            raise AnalysisError('inconsistent MRO for %s' % cls.qualname)
        result.append(cand)
        seqs = [[x for x in s if x is not cand] for s in seqs]
        seqs = [s for s in seqs if s]
    return result


class Module:
    def __init__(self, name: str, relpath: str, source: str):
        self.name = name
        self.relpath = relpath
        self.source = source
        try:
            self.tree = ast.parse(source, filename=relpath)
        except SyntaxError as e:
            raise AnalysisError('%s does not parse: %s' % (relpath, e))
        self.functions: Dict[str, List[FuncInfo]] = {}  # name -> alternative definitions
        self.classes: Dict[str, List[ClassInfo]] = {}
        self.imports: Dict[str, tuple] = {}  # local name -> ('module', dotted) | ('attr', dotted, attr)
        self.assigns: Dict[str, List[ast.expr]] = {}  # module-level NAME = expr (all stores)
        self.assign_nodes: Dict[str, List[ast.stmt]] = {}
        self.all_functions: List[FuncInfo] = []
        self.all_classes: List[ClassInfo] = []

    def __repr__(self):
        return 'Module(%s)' % self.name


class Repo:
    def __init__(self, root: str, overlay: Optional[Dict[str, str]] = None):
        self.root = root
        self.overlay = overlay or {}
        self.modules: Dict[str, Module] = {}
        self.by_path: Dict[str, Module] = {}
        self._subclasses: Dict[ClassInfo, List[ClassInfo]] = {}
        self._const_cache: Dict[Tuple[str, str], object] = {}
        self._attr_type_cache = {}
        self._load()
        self._link()

    # ---------------------------------------------------------------- loading
    def _load(self):
        found = False
        for pkg in PACKAGES:
            base = os.path.join(self.root, pkg)
            if not os.path.isdir(base):
                raise AnalysisError('package directory missing: %s' % base)
            for dirpath, dirnames, filenames in os.walk(base):
                dirnames[:] = sorted(d for d in dirnames if d != '__pycache__')
                for fn in sorted(filenames):
                    if not fn.endswith('.py'):
                        continue
                    full = os.path.join(dirpath, fn)
                    rel = os.path.relpath(full, self.root)
                    if rel in self.overlay:
                        src = self.overlay[rel]
                    else:
                        with open(full, encoding='utf-8') as f:
                            src = f.read()
                    modname = rel[:-3].replace(os.sep, '.')
                    if modname.endswith('.__init__'):
                        modname = modname[:-9]
                    m = Module(modname, rel, src)
                    self.modules[modname] = m
                    self.by_path[rel] = m
                    found = True
        for rel in self.overlay:
            if rel not in self.by_path:
                raise AnalysisError('overlay names a file that is not part of the packages: %s' % rel)
        if not found:
            raise AnalysisError('no sources found under %s' % self.root)
        for m in self.modules.values():
            self._index_body(m, m.tree.body, None, None, '')

    def _index_body(self, m: Module, body, cls: Optional[ClassInfo], parent: Optional[FuncInfo], arm: str):
        for st in body:
            if isinstance(st, (ast.FunctionDef, ast.AsyncFunctionDef)):
                f = FuncInfo(m, st, cls if parent is None else None, parent, arm)
                m.all_functions.append(f)
                if parent is not None:
                    parent.children[st.name] = f
                elif cls is not None:
                    if any(d.endswith('.setter') for d in f.decorators):
                        cls.setters[st.name] = f
                    else:
                        cls.methods[st.name] = f
                else:
                    m.functions.setdefault(st.name, []).append(f)
                self._index_nested(m, st.body, f, arm)
            elif isinstance(st, ast.ClassDef):
                c = ClassInfo(m, st, cls, arm)
                m.all_classes.append(c)
                if cls is not None:
                    cls.nested[st.name] = c
                elif parent is None:
                    m.classes.setdefault(st.name, []).append(c)
                self._index_body(m, st.body, c, None, arm)
            elif isinstance(st, ast.Import):
                if cls is None and parent is None:
                    for a in st.names:
                        local = a.asname or a.name.split('.')[0]
                        target = a.name if a.asname else a.name.split('.')[0]
                        m.imports[local] = ('module', target)
            elif isinstance(st, ast.ImportFrom):
                if cls is None and parent is None:
                    base = st.module or ''
                    if st.level:
                        parts = m.name.split('.')
                        is_pkg = m.relpath.endswith('__init__.py')
                        up = st.level - (1 if is_pkg else 0)
                        prefix = parts[:len(parts) - up] if up else parts
                        base = '.'.join(prefix + ([st.module] if st.module else []))
                    for a in st.names:
                        m.imports[a.asname or a.name] = ('attr', base, a.name)
            elif isinstance(st, (ast.Assign, ast.AnnAssign)):
                targets = st.targets if isinstance(st, ast.Assign) else [st.target]
                value = st.value
                for t in targets:
                    if isinstance(t, ast.Name):
                        if cls is not None:
                            if value is not None:
                                cls.class_attrs[t.id] = value
                            if isinstance(st, ast.AnnAssign):
                                cls.class_annotations[t.id] = st.annotation
                        elif parent is None and value is not None:
                            m.assigns.setdefault(t.id, []).append(value)
                            m.assign_nodes.setdefault(t.id, []).append(st)
            elif isinstance(st, ast.Try):
                if cls is None and parent is None:
                    self._index_body(m, st.body, cls, parent, 'try')
                    for h in st.handlers:
                        self._index_body(m, h.body, cls, parent, 'except')
                    self._index_body(m, st.orelse, cls, parent, arm)
                    self._index_body(m, st.finalbody, cls, parent, arm)
            elif isinstance(st, ast.If):
                if cls is None and parent is None:
                    self._index_body(m, st.body, cls, parent, arm)
                    self._index_body(m, st.orelse, cls, parent, arm)

    def _index_nested(self, m: Module, body, parent: FuncInfo, arm: str):
        for n in body:
            for sub in _iter_stmts(n):
                if isinstance(sub, (ast.FunctionDef, ast.AsyncFunctionDef)):
                    f = FuncInfo(m, sub, None, parent, arm)
                    m.all_functions.append(f)
                    parent.children[sub.name] = f
                    self._index_nested(m, sub.body, f, arm)

    # ---------------------------------------------------------------- linking
    def _link(self):
        for m in self.modules.values():
            for c in m.all_classes:
                c.bases = []
                for b in c.node.bases:
                    r = self.resolve_expr(m, b, c.outer)
                    if isinstance(r, ClassInfo):
                        c.bases.append(r)
                    elif isinstance(r, External):
                        c.bases.append(r)
                    else:
                        c.bases.append(External(ast.unparse(b)))
        for m in self.modules.values():
            for c in m.all_classes:
                for anc in c.mro()[1:]:
                    self._subclasses.setdefault(anc, []).append(c)

    # ---------------------------------------------------------------- lookup
    def module(self, name: str) -> Module:
        if name not in self.modules:
            raise AnalysisError('anchor module vanished: %s' % name)
        return self.modules[name]

    def cls(self, spec: str) -> ClassInfo:
        """'rsocket.frame:PayloadFrame' or 'rsocket.rsocket_base:RSocketBase.LeaseSubscriber'."""
        modname, _, path = spec.partition(':')
        m = self.module(modname)
        parts = path.split('.')
        cands = m.classes.get(parts[0])
        if not cands:
            raise AnalysisError('anchor class vanished: %s' % spec)
        c = cands[-1]
        for p in parts[1:]:
            if p not in c.nested:
                raise AnalysisError('anchor class vanished: %s' % spec)
            c = c.nested[p]
        return c

    def func(self, spec: str) -> FuncInfo:
        """'mod:func', 'mod:Class.method', 'mod:func.<locals>.inner'."""
        fs = self.funcs(spec)
        return fs[-1]

    def funcs(self, spec: str) -> List[FuncInfo]:
        modname, _, path = spec.partition(':')
        m = self.module(modname)
        parts = [p for p in path.split('.') if p != '<locals>']
        cur_cls = None
        cur_f: Optional[List[FuncInfo]] = None
        for i, p in enumerate(parts):
            if cur_f is not None:
                nxt = [f.children[p] for f in cur_f if p in f.children]
                if not nxt:
                    raise AnalysisError('anchor function vanished: %s' % spec)
                cur_f = nxt
            elif cur_cls is not None:
                if p in cur_cls.nested:
                    cur_cls = cur_cls.nested[p]
                elif p in cur_cls.methods:
                    cur_f = [cur_cls.methods[p]]
                else:
                    raise AnalysisError('anchor method vanished: %s' % spec)
            else:
                if p in m.classes:
                    cur_cls = m.classes[p][-1]
                elif p in m.functions:
                    cur_f = list(m.functions[p])
                else:
                    raise AnalysisError('anchor vanished: %s' % spec)
        if cur_f is None:
            raise AnalysisError('anchor is not a function: %s' % spec)
        return cur_f

    def try_func(self, spec: str) -> Optional[FuncInfo]:
        try:
            return self.func(spec)
        except AnalysisError:
            return None

    def subclasses(self, c: ClassInfo) -> List[ClassInfo]:
        return list(self._subclasses.get(c, []))

    def concrete_subclasses(self, c: ClassInfo, include_self=True) -> List[ClassInfo]:
        out = []
        for k in ([c] if include_self else []) + self.subclasses(c):
            if not self.is_abstract(k):
                out.append(k)
        return out

    def is_abstract(self, c: ClassInfo) -> bool:
        seen = set()
        for k in c.mro():
            for name, f in k.methods.items():
                if name in seen:
                    continue
                seen.add(name)
                if any('abstractmethod' in d for d in f.decorators):
                    return True
        return False

    def all_classes(self) -> List[ClassInfo]:
        return [c for m in self.modules.values() for c in m.all_classes]

    def all_functions(self) -> List[FuncInfo]:
        return [f for m in self.modules.values() for f in m.all_functions]

    def classes_defining(self, method: str) -> List[ClassInfo]:
        return [c for c in self.all_classes() if method in c.methods]

    # ---------------------------------------------------------------- name resolution
    def resolve_name(self, m: Module, name: str, _depth=0):
        """Resolve a module-scope name to ClassInfo | [FuncInfo] | ModuleRef | External | ('const', expr, module) | None."""
        if _depth > 8:
            return None
        if name in m.classes:
            return m.classes[name][-1]
        if name in m.functions:
            return m.functions[name]
        if name in m.imports:
            imp = m.imports[name]
            if imp[0] == 'module':
                if imp[1] in self.modules:
                    return ModuleRef(imp[1])
                return External(imp[1])
            _, base, attr = imp
            full = base + '.' + attr if base else attr
            if full in self.modules:
                return ModuleRef(full)
            if base in self.modules:
                return self.resolve_name(self.modules[base], attr, _depth + 1) or External(full)
            return External(full)
        if name in m.assigns:
            return ('const', m.assigns[name][-1], m)
        return None

    def resolve_expr(self, m: Module, e: ast.expr, outer_cls: Optional[ClassInfo] = None):
        """Resolve a Name / dotted Attribute expression statically (classes, functions, modules)."""
        if isinstance(e, ast.Name):
            if outer_cls is not None and e.id in outer_cls.nested:
                return outer_cls.nested[e.id]
            return self.resolve_name(m, e.id)
        if isinstance(e, ast.Attribute):
            base = self.resolve_expr(m, e.value, outer_cls)
            if isinstance(base, ModuleRef):
                if base.name + '.' + e.attr in self.modules:
                    return ModuleRef(base.name + '.' + e.attr)
                return self.resolve_name(self.modules[base.name], e.attr)
            if isinstance(base, External):
                return External(base.qualname + '.' + e.attr)
            if isinstance(base, ClassInfo):
                if e.attr in base.nested:
                    return base.nested[e.attr]
                f = base.lookup(e.attr)
                if f is not None:
                    return [f]
                for k in base.mro():
                    if e.attr in k.class_attrs:
                        return ('classattr', k, e.attr)
            return None
        if isinstance(e, ast.Constant) and isinstance(e.value, str):
            try:
                return self.resolve_expr(m, ast.parse(e.value, mode='eval').body, outer_cls)
            except SyntaxError:
                return None
        return None

    # ---------------------------------------------------------------- constants
    def const(self, m: Module, e: ast.expr, _depth=0):
        """Fold a literal expression to a Python value.  Raises KeyError when not foldable."""
        if _depth > 12:
            raise KeyError('depth')
        if isinstance(e, ast.Constant):
            return e.value
        if isinstance(e, ast.Name):
            r = self.resolve_name(m, e.id)
            if isinstance(r, tuple) and r[0] == 'const':
                return self.const(r[2], r[1], _depth + 1)
            raise KeyError(e.id)
        if isinstance(e, ast.Attribute):
            r = self.resolve_expr(m, e)
            if isinstance(r, tuple) and r[0] == 'const':
                return self.const(r[2], r[1], _depth + 1)
            if isinstance(r, tuple) and r[0] == 'classattr':
                k = r[1]
                v = self.const(k.module, k.class_attrs[r[2]], _depth + 1)
                if isinstance(v, tuple) and len(v) == 1 and 'IntEnum' in ' '.join(k.external_bases()):
                    v = v[0]  # ErrorCode members are written with a trailing comma
                return v
            raise KeyError(ast.unparse(e))
        if isinstance(e, ast.UnaryOp):
            v = self.const(m, e.operand, _depth + 1)
            if isinstance(e.op, ast.USub):
                return -v
            if isinstance(e.op, ast.Invert):
                return ~v
            if isinstance(e.op, ast.Not):
                return not v
            if isinstance(e.op, ast.UAdd):
                return +v
        if isinstance(e, ast.BinOp):
            a = self.const(m, e.left, _depth + 1)
            b = self.const(m, e.right, _depth + 1)
            ops = {ast.Add: lambda: a + b, ast.Sub: lambda: a - b, ast.Mult: lambda: a * b,
                   ast.FloorDiv: lambda: a // b, ast.Div: lambda: a / b, ast.Mod: lambda: a % b,
                   ast.LShift: lambda: a << b, ast.RShift: lambda: a >> b, ast.BitOr: lambda: a | b,
                   ast.BitAnd: lambda: a & b, ast.BitXor: lambda: a ^ b, ast.Pow: lambda: a ** b}
            for k, fn in ops.items():
                if isinstance(e.op, k):
                    return fn()
        if isinstance(e, ast.Call) and isinstance(e.func, ast.Name) and e.func.id == 'pow' and len(e.args) == 2:
            return self.const(m, e.args[0], _depth + 1) ** self.const(m, e.args[1], _depth + 1)
        if isinstance(e, ast.Tuple):
            return tuple(self.const(m, x, _depth + 1) for x in e.elts)
        if isinstance(e, ast.Call) and isinstance(e.func, ast.Attribute) and e.func.attr == 'pack' and \
                not e.keywords and e.args:
            # struct.pack(<literal format>, <literal integers>...): a constant byte string
            r = self.resolve_expr(m, e.func.value)
            if isinstance(r, External) and r.qualname == 'struct':
                import struct as _struct
                vals = [self.const(m, a, _depth + 1) for a in e.args]
                if isinstance(vals[0], str) and all(isinstance(v, int) and not isinstance(v, bool) for v in vals[1:]):
                    try:
                        return _struct.pack(*vals)
                    except _struct.error:
                        raise KeyError(ast.unparse(e))
        raise KeyError(ast.unparse(e))

    def try_const(self, m: Module, e: ast.expr, default=None):
        try:
            return self.const(m, e)
        except (KeyError, TypeError, ValueError, ZeroDivisionError):
            return default

    # ---------------------------------------------------------------- annotations & attribute types
    def annotation_types(self, m: Module, ann: Optional[ast.expr], outer_cls=None) -> Optional[List]:
        """Classes named by an annotation (Optional/Union flattened).  None if nothing usable."""
        if ann is None:
            return None
        out = []
        self._ann(m, ann, outer_cls, out)
        return out or None

    def _ann(self, m, ann, outer_cls, out):
        if isinstance(ann, ast.Constant) and isinstance(ann.value, str):
            try:
                self._ann(m, ast.parse(ann.value, mode='eval').body, outer_cls, out)
            except SyntaxError:
                pass
            return
        if isinstance(ann, ast.Subscript):
            head = ast.unparse(ann.value).split('.')[-1]
            if head in ('Optional', 'Union'):
                sl = ann.slice
                elts = sl.elts if isinstance(sl, ast.Tuple) else [sl]
                for e in elts:
                    self._ann(m, e, outer_cls, out)
            elif head in ('List', 'Dict', 'Set', 'Tuple', 'list', 'dict', 'set', 'tuple', 'Deque', 'FrozenSet'):
                out.append(External('builtins.' + head.lower()))
            elif head in ('Awaitable', 'Coroutine', 'Future'):
                sl = ann.slice
                inner = sl.elts[-1] if isinstance(sl, ast.Tuple) else sl
                sub = []
                self._ann(m, inner, outer_cls, sub)
                out.append(('awaitable', [x for x in sub if isinstance(x, (ClassInfo, External))]))
            elif head in ('Type', 'Callable', 'AsyncGenerator', 'Generator'):
                out.append(('generic', head, ann))
            return
        if isinstance(ann, ast.BinOp) and isinstance(ann.op, ast.BitOr):
            self._ann(m, ann.left, outer_cls, out)
            self._ann(m, ann.right, outer_cls, out)
            return
        if isinstance(ann, ast.Constant) and ann.value is None:
            return
        r = self.resolve_expr(m, ann, outer_cls)
        if isinstance(r, (ClassInfo, External)):
            out.append(r)

    def attr_assignments(self, c: ClassInfo, attr: str) -> List[Tuple[FuncInfo, ast.stmt, Optional[ast.expr]]]:
        """All `self.<attr> = value` statements in methods of c's MRO and of its subclasses."""
        out = []
        seen = set()
        for k in c.mro() + self.subclasses(c):
            if k in seen:
                continue
            seen.add(k)
            for f in list(k.methods.values()) + list(k.setters.values()):
                selfname = f.params()[0] if f.params() else None
                if selfname is None:
                    continue
                for n in walk_local(f.node):
                    if isinstance(n, (ast.Assign, ast.AnnAssign, ast.AugAssign)):
                        targets = n.targets if isinstance(n, ast.Assign) else [n.target]
                        for t in targets:
                            for tt in _flatten_targets(t):
                                if (isinstance(tt, ast.Attribute) and isinstance(tt.value, ast.Name)
                                        and tt.value.id == selfname and tt.attr == attr):
                                    out.append((f, n, getattr(n, 'value', None)))
        return out


def _flatten_targets(t):
    if isinstance(t, (ast.Tuple, ast.List)):
        for e in t.elts:
            yield from _flatten_targets(e)
    else:
        yield t


def _iter_stmts(n):
    """Statements nested (through compound statements) in n, not descending into defs."""
    yield n
    if isinstance(n, (ast.FunctionDef, ast.AsyncFunctionDef, ast.ClassDef)):
        return
    for field in ('body', 'orelse', 'finalbody'):
        for s in getattr(n, field, []) or []:
            if isinstance(s, ast.stmt):
                yield from _iter_stmts(s)
    for h in getattr(n, 'handlers', []) or []:
        for s in h.body:
            yield from _iter_stmts(s)
    if isinstance(n, ast.Match):
        for c in n.cases:
            for s in c.body:
                yield from _iter_stmts(s)


def load(root: str, overlay=None) -> Repo:
    return Repo(root, overlay)
