"""Small AST helpers that make syntactic rules insensitive to temporaries and local names."""
import ast
from typing import List, Optional

from .index import walk_local


def single_assignments(fn_node):
    """name -> value expression, for locals assigned exactly once by a plain `name = value`."""
    counts = {}
    values = {}
    for n in walk_local(fn_node):
        if isinstance(n, ast.Assign) and len(n.targets) == 1 and isinstance(n.targets[0], ast.Name):
            counts[n.targets[0].id] = counts.get(n.targets[0].id, 0) + 1
            values[n.targets[0].id] = n.value
        elif isinstance(n, (ast.AugAssign, ast.AnnAssign)) and isinstance(n.target, ast.Name):
            counts[n.target.id] = counts.get(n.target.id, 0) + 2
        elif isinstance(n, ast.Name) and isinstance(n.ctx, ast.Store):
            counts.setdefault(n.id, 0)
    # names bound in other ways (for targets, with, tuple unpacking) appear with count 0 only if never plainly assigned
    return {k: v for k, v in values.items() if counts.get(k) == 1}


def resolve_temp(fn_node, e: ast.expr, depth=3) -> ast.expr:
    """Follow `tmp = expr; ... tmp` for single-assignment temporaries."""
    sa = single_assignments(fn_node)
    while depth and isinstance(e, ast.Name) and e.id in sa:
        e = sa[e.id]
        depth -= 1
    return e


def returned_exprs(fn_node) -> List[ast.expr]:
    out = []
    for n in walk_local(fn_node):
        if isinstance(n, ast.Return) and n.value is not None:
            out.append(resolve_temp(fn_node, n.value))
    return out


def params_of(fn_node) -> List[str]:
    a = fn_node.args
    return [x.arg for x in a.posonlyargs + a.args + a.kwonlyargs]
