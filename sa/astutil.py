"""Small AST helpers that make syntactic rules insensitive to temporaries and local names."""
import ast
from typing import List, Optional

from .index import walk_local


def single_assignments(fn_node):
    """name -> value expression, for locals assigned exactly once by a plain `name = value`."""
    counts = {}
    values = {}
    for n in walk_local(fn_node):
        if isinstance(n, ast.Assign) and len(n.targets) == 1 and isinstance(n.targets[0], ast.Name):
            counts[n.targets[0].id] = counts.get(n.targets[0].id, 0) + 1
            values[n.targets[0].id] = n.value
        elif isinstance(n, (ast.AugAssign, ast.AnnAssign)) and isinstance(n.target, ast.Name):
            counts[n.target.id] = counts.get(n.target.id, 0) + 2
        elif isinstance(n, ast.Name) and isinstance(n.ctx, ast.Store):
            counts.setdefault(n.id, 0)
    # names bound in other ways (for targets, with, tuple unpacking) appear with count 0 only if never plainly assigned
    return {k: v for k, v in values.items() if counts.get(k) == 1}


def resolve_temp(fn_node, e: ast.expr, depth=3) -> ast.expr:
    """Follow `tmp = expr; ... tmp` for single-assignment temporaries."""
    sa = single_assignments(fn_node)
    while depth and isinstance(e, ast.Name) and e.id in sa:
        e = sa[e.id]
        depth -= 1
    return e


def returned_exprs(fn_node) -> List[ast.expr]:
    out = []
    for n in walk_local(fn_node):
        if isinstance(n, ast.Return) and n.value is not None:
            out.append(resolve_temp(fn_node, n.value))
    return out


def params_of(fn_node) -> List[str]:
    a = fn_node.args
    return [x.arg for x in a.posonlyargs + a.args + a.kwonlyargs]


def loop_carried_reads(loop) -> List[tuple]:
    """Reads, inside the body of a for loop, of a local that the body also assigns, on a path of one iteration that has
    not assigned it yet: the value then comes from an earlier iteration (or from before the loop).  Returns
    [(name, node)].  Definite assignment over if/else, try, with, nested loops (a nested loop may run zero times);
    return / raise / continue / break end a path."""
    assigned = set()
    for n in ast.walk(ast.Module(body=loop.body, type_ignores=[])):
        if isinstance(n, ast.Name) and isinstance(n.ctx, ast.Store):
            assigned.add(n.id)
        elif isinstance(n, (ast.FunctionDef, ast.AsyncFunctionDef, ast.Lambda)):
            pass
    start = {n.id for n in ast.walk(loop.target) if isinstance(n, ast.Name)}
    out = []

    def reads(e, defined):
        if e is None:
            return
        for n in ast.walk(e):
            if isinstance(n, ast.Name) and isinstance(n.ctx, ast.Load) and n.id in assigned and n.id not in defined:
                out.append((n.id, n))

    def stores(t, defined):
        for n in ast.walk(t):
            if isinstance(n, ast.Name) and isinstance(n.ctx, ast.Store):
                defined.add(n.id)
            elif isinstance(n, (ast.Subscript, ast.Attribute)) and isinstance(n.ctx, ast.Store):
                reads(n.value, defined)
                if isinstance(n, ast.Subscript):
                    reads(n.slice, defined)

    def block(stmts, defined):
        """-> the names defined when the block falls through, None when it never does"""
        for s in stmts:
            if isinstance(s, ast.Assign):
                reads(s.value, defined)
                for t in s.targets:
                    stores(t, defined)
            elif isinstance(s, ast.AnnAssign):
                reads(s.value, defined)
                if s.value is not None:
                    stores(s.target, defined)
            elif isinstance(s, ast.AugAssign):
                reads(s.value, defined)
                if isinstance(s.target, ast.Name):
                    if s.target.id in assigned and s.target.id not in defined:
                        out.append((s.target.id, s.target))
                    defined.add(s.target.id)
                else:
                    reads(s.target.value, defined)
            elif isinstance(s, ast.If):
                reads(s.test, defined)
                a = block(s.body, set(defined))
                b = block(s.orelse, set(defined))
                if a is None and b is None:
                    return None
                defined = a if b is None else b if a is None else (a & b)
            elif isinstance(s, (ast.For, ast.AsyncFor, ast.While)):
                reads(s.iter if not isinstance(s, ast.While) else s.test, defined)
                inner = set(defined)
                if not isinstance(s, ast.While):
                    stores(s.target, inner)
                block(s.body, inner)
                block(s.orelse, set(defined))
            elif isinstance(s, (ast.With, ast.AsyncWith)):
                for it in s.items:
                    reads(it.context_expr, defined)
                    if it.optional_vars is not None:
                        stores(it.optional_vars, defined)
                r = block(s.body, defined)
                if r is None:
                    return None
                defined = r
            elif isinstance(s, ast.Try):
                before = set(defined)
                a = block(s.body, set(defined))
                if a is not None:
                    a = block(s.orelse, a)
                outs = [a]
                for h in s.handlers:
                    d = set(before)
                    if h.name:
                        d.add(h.name)
                    outs.append(block(h.body, d))
                outs = [o for o in outs if o is not None]
                if not outs:
                    block(s.finalbody, set(before))
                    return None
                defined = set.intersection(*outs)
                r = block(s.finalbody, defined)
                if r is None:
                    return None
                defined = r
            elif isinstance(s, (ast.Return, ast.Raise)):
                reads(getattr(s, 'value', None) or getattr(s, 'exc', None), defined)
                return None
            elif isinstance(s, (ast.Continue, ast.Break)):
                return None
            elif isinstance(s, (ast.FunctionDef, ast.AsyncFunctionDef, ast.ClassDef)):
                defined.add(s.name)
            else:
                for e in ast.iter_child_nodes(s):
                    if isinstance(e, ast.expr):
                        reads(e, defined)
        return defined

    block(loop.body, set(start))
    return out
