"""python -m sa.debug <func spec> [--cls spec] [--arg name=ClassSpec] [--exc app,cancel] : print enumerated paths"""
import sys
from .index import load
from .interp import Interp, Options, AVal, fmt_term


def main(argv):
    import os
    repo = load(os.environ.get('VERIF_REPO', '/repo'))
    spec = argv[0]
    cls = None
    args = {}
    exc = ()
    verbose = False
    i = 1
    while i < len(argv):
        if argv[i] == '--cls':
            cls = repo.cls(argv[i + 1]); i += 2
        elif argv[i] == '--arg':
            k, v = argv[i + 1].split('=')
            args[k] = AVal(('param', 'X', k), [repo.cls(v)], exact=True); i += 2
        elif argv[i] == '--exc':
            exc = argv[i + 1].split(','); i += 2
        elif argv[i] == '-v':
            verbose = True; i += 1
        else:
            i += 1
    it = Interp(repo, Options(exc=exc))
    paths = it.run(repo.func(spec), cls, args)
    print(len(paths), 'paths', it.stats)
    for n, p in enumerate(paths):
        print('--- path', n, p.outcome, p.value)
        for e in p.events:
            if e.kind == 'cond' and e.data.get('static') and not verbose:
                continue
            if e.kind in ('enter', 'exit', 'loop', 'finally', 'except', 'new', 'dispatch', 'byname'):
                extra = getattr(e.data.get('callee') or e.data.get('cls') or e.data.get('target'), 'short', None) or \
                        getattr(e.data.get('cls'), 'name', '') or e.data.get('phase', '')
                print('   ' + '  ' * e.depth, e.kind, extra, '@%s' % e.line)
            elif e.kind == 'call':
                print('   ' + '  ' * e.depth, 'call', e.data['name'], '[%s]' % e.data['how'],
                      'recv=' + (fmt_term(e.data['recv'].term) if e.data.get('recv') else '-'),
                      'args=' + ','.join(fmt_term(a.term) for a in e.data.get('args') or []), '@%s' % e.line)
            elif e.kind == 'cond':
                print('   ' + '  ' * e.depth, 'cond', fmt_term(e.data['key']), '=', e.data['value'], '@%s' % e.line)
            elif e.kind == 'store':
                print('   ' + '  ' * e.depth, 'store', e.data['target'][0], e.data['target'][-1] if e.data['target'][0] != 'item' else '[]', '=',
                      fmt_term(e.data['value'].term), '@%s' % e.line)
            else:
                print('   ' + '  ' * e.depth, e.kind, '@%s' % e.line)


if __name__ == '__main__':
    main(sys.argv[1:])
