"""Instances, verdicts, known-findings matching, evidence and replay files."""
import hashlib
import json
import os
import time
from typing import List, Optional, Dict

from . import AnalysisError

VERIF = os.path.dirname(os.path.dirname(os.path.abspath(__file__)))
KNOWN_FILE = os.path.join(VERIF, 'known_findings.json')
EVIDENCE_DIR = os.path.join(VERIF, 'evidence')


class Instance:
    __slots__ = ('rule', 'construct', 'file', 'line', 'ok', 'detail', 'extra', 'nontrivial')

    def __init__(self, rule, construct, file, line, ok, detail='', extra=None, nontrivial=True):
        self.rule = rule
        self.construct = construct
        self.file = file
        self.line = line
        self.ok = ok
        self.detail = detail
        self.extra = extra or {}
        self.nontrivial = nontrivial

    def key(self):
        return self.rule + '|' + self.construct

    def as_dict(self):
        d = {'rule': self.rule, 'construct': self.construct, 'where': '%s:%s' % (self.file, self.line),
             'verdict': 'holds' if self.ok else 'VIOLATED', 'detail': self.detail}
        if self.extra:
            d['extra'] = self.extra
        return d


class Report:
    def __init__(self, prop: str, tier: str, seed: int, repo_root: str):
        self.prop = prop
        self.tier = tier
        self.seed = seed
        self.repo_root = repo_root
        self.instances: List[Instance] = []
        self.notes: List[str] = []
        self.stats: Dict[str, object] = {}
        self.rules_run: List[str] = []
        self.assumptions: List[str] = []
        self.explanation = ''
        self.t0 = time.time()

    # ------------------------------------------------------------ recording
    def add(self, rule, construct, where, ok, detail='', extra=None, nontrivial=True):
        file, line = where if isinstance(where, tuple) else (getattr(where, 'file', '?'), getattr(where, 'line', 0))
        self.instances.append(Instance(rule, construct, file, line, bool(ok), detail, extra, nontrivial))

    def ok(self, rule, construct, where, detail='', **kw):
        self.add(rule, construct, where, True, detail, **kw)

    def bad(self, rule, construct, where, detail='', **kw):
        self.add(rule, construct, where, False, detail, **kw)

    def note(self, text):
        self.notes.append(text)

    def require(self, rule: str, what: str, found: int, at_least: int):
        """Vacuity guard: a rule that found fewer subjects than were confirmed by hand is broken, not passing."""
        if found < at_least:
            raise AnalysisError('%s: found %d %s, expected at least %d (vacuity guard)' % (rule, found, what, at_least))

    def count(self, rule_prefix=None):
        return len([i for i in self.instances if rule_prefix is None or i.rule.startswith(rule_prefix)])

    # ------------------------------------------------------------ finishing
    def finish(self) -> int:
        known = load_known()
        violations = [i for i in self.instances if not i.ok]
        # de-duplicate by key (a shared rule may be evaluated from several places)
        seen = {}
        for v in violations:
            seen.setdefault(v.key(), v)
        violations = list(seen.values())
        exit_code = 0
        lines = []
        replay_dir = os.path.join(EVIDENCE_DIR, 'replay', self.prop)
        new_violations = []
        for v in violations:
            k = match_known(known, self.prop, v)
            if k is not None:
                lines.append('KNOWN-FINDING: property=%s %s %s %s -- %s' % (
                    self.prop, k.get('id', ''), v.rule, v.construct, k.get('what', v.detail)))
            else:
                new_violations.append(v)
        if new_violations:
            os.makedirs(replay_dir, exist_ok=True)
        for v in new_violations:
            h = hashlib.sha1(v.key().encode()).hexdigest()[:10]
            path = os.path.join(replay_dir, '%s-%s.json' % (v.rule.replace('.', '_'), h))
            with open(path, 'w') as f:
                json.dump({'property': self.prop, 'key': v.key(), **v.as_dict(), 'repo_root': self.repo_root}, f,
                          indent=1, default=str)
            lines.append('VIOLATION property=%s replay=%s' % (self.prop, path))
            lines.append('  %s %s at %s:%s: %s' % (v.rule, v.construct, v.file, v.line, v.detail))
            exit_code = 1
        self._write_evidence(len(new_violations), [v for v in violations if v not in new_violations])
        for ln in lines:
            print(ln)
        n_ok = len([i for i in self.instances if i.ok])
        print('%s %s: %d rule instances evaluated, %d hold, %d violated (%d known), rules: %s  [%.2fs]' % (
            self.prop, self.tier, len(self.instances), n_ok, len(violations), len(violations) - len(new_violations),
            ','.join(self.rules_run), time.time() - self.t0))
        return exit_code

    def _write_evidence(self, n_new, known_hits):
        os.makedirs(EVIDENCE_DIR, exist_ok=True)
        distinct = {}
        for i in self.instances:
            if i.nontrivial:
                distinct.setdefault(i.key(), i)
        insts = list(distinct.values())
        import random
        rnd = random.Random(self.seed)
        sample = list(insts)
        rnd.shuffle(sample)
        # always show violated instances first
        sample.sort(key=lambda i: i.ok)
        ev = {
            'property_id': self.prop,
            'tier': self.tier,
            'seed': self.seed,
            'level': 'other',
            'coverage': {
                'explanation': self.explanation,
                'evaluations': len(self.instances),
                'distinct_nontrivial': len(insts),
                'rule': 'one evaluation = one (rule, construct) instance decided on the parsed tree; an instance is '
                        'non-trivial when the rule found at least one site/path to examine for that construct; '
                        'distinct = distinct (rule, construct) keys',
                'samples': [i.as_dict() for i in sample[:40]],
                'rules': self.rules_run,
                'per_rule_instances': _per_rule(self.instances),
                'analysed': self.stats,
                'known_findings_hit': [i.key() for i in known_hits],
                'notes': self.notes[:60],
                'exhaustive': True,
            },
            'assumptions': self.assumptions,
            'wall_s': round(time.time() - self.t0, 3),
            'violations': n_new,
        }
        path = os.path.join(EVIDENCE_DIR, self.prop + '.json')
        tmp = path + '.tmp'
        with open(tmp, 'w') as f:
            json.dump(ev, f, indent=1, default=str)
        os.replace(tmp, path)


def _per_rule(instances):
    out = {}
    for i in instances:
        d = out.setdefault(i.rule, {'instances': 0, 'violated': 0})
        d['instances'] += 1
        if not i.ok:
            d['violated'] += 1
    return out


def load_known() -> List[dict]:
    if not os.path.exists(KNOWN_FILE):
        return []
    with open(KNOWN_FILE) as f:
        data = json.load(f)
    return data.get('findings', [])


def match_known(known: List[dict], prop: str, inst: Instance) -> Optional[dict]:
    for k in known:
        if k.get('status') != 'known':
            continue  # a 'fixed' entry suppresses nothing
        if prop not in k.get('properties', []):
            continue
        if k.get('rule') == inst.rule and k.get('construct') == inst.construct:
            return k
    return None
