"""E4/E5: path-sensitive abstract interpretation of one entry function.

Enumerates the acyclic control-flow paths of a function (loops: zero and one
iteration), inlining repository callees that resolve uniquely, over a small
abstract domain: constants, allocation sites / class tags (for call resolution
and isinstance), and provenance terms (for "is an unmodified copy of").  A pure
predicate keeps one truth value along a path (predicate consistency), so
infeasible combinations of correlated branches are not enumerated.  There is no
constraint solving: a condition the domain cannot decide simply forks the path.

The product is a list of Path objects - ordered Event lists with a terminal
outcome - over which the rules of sa/rules evaluate typestate, ordering,
dominance and provenance facts."""
import ast
import itertools
from typing import List, Optional, Dict, Tuple, Callable

from . import AnalysisError
from .index import Repo, FuncInfo, ClassInfo, External, ModuleRef, Module, walk_local

MAX_PATHS = 20000
MAX_DEPTH = 8

# ------------------------------------------------------------------------- values

UNKNOWN_TYPES = None


class AVal:
    """Abstract value: provenance term + possible classes (exact = allocation / literal class)."""
    __slots__ = ('term', 'types', 'exact', 'await_types')

    def __init__(self, term, types=None, exact=False, await_types=None):
        self.term = term
        self.types = frozenset(types) if types is not None else None
        self.exact = exact
        self.await_types = frozenset(await_types) if await_types else None  # classes of `await <this value>`

    def __repr__(self):
        return 'AVal(%s%s)' % (fmt_term(self.term), '' if self.types is None else ' : ' + ','.join(
            sorted(getattr(t, 'name', None) or getattr(t, 'qualname', str(t)) for t in self.types)))

    def is_const(self):
        return self.term[0] == 'const'

    @property
    def const(self):
        return self.term[1]


def const(v):
    return AVal(('const', v))


def fmt_term(t) -> str:
    if isinstance(t, AVal):
        return fmt_term(t.term)
    if not isinstance(t, tuple) or not t:
        return repr(t)
    k = t[0]
    if k == 'const':
        return repr(t[1])
    if k == 'param':
        return str(t[-1])
    if k == 'self':
        return 'self'
    if k == 'attr':
        return fmt_term(t[1]) + '.' + t[2]
    if k == 'new':
        return 'new %s@%s' % (t[2], t[1])
    if k == 'call':
        return '%s(%s)' % (t[1], ', '.join(fmt_term(x) for x in t[2]))
    if k == 'op':
        return '(%s %s %s)' % (fmt_term(t[2]), t[1], fmt_term(t[3]))
    return '%s<%s>' % (k, ', '.join(fmt_term(x) for x in t[1:]))


BUILTIN_EXC_PARENT = {
    'BaseException': None, 'Exception': 'BaseException', 'CancelledError': 'BaseException',
    'GeneratorExit': 'BaseException', 'KeyboardInterrupt': 'BaseException', 'SystemExit': 'BaseException',
    'ValueError': 'Exception', 'RuntimeError': 'Exception', 'LookupError': 'Exception', 'KeyError': 'LookupError',
    'IndexError': 'LookupError', 'AttributeError': 'Exception', 'TypeError': 'Exception',
    'StopIteration': 'Exception', 'StopAsyncIteration': 'Exception', 'ImportError': 'Exception',
    'NotImplementedError': 'RuntimeError', 'RecursionError': 'RuntimeError', 'OSError': 'Exception',
    'ConnectionError': 'OSError', 'TimeoutError': 'OSError', 'InvalidStateError': 'Exception',
    'QueueEmpty': 'Exception', 'QueueFull': 'Exception', 'AssertionError': 'Exception', 'error': 'Exception',
    'UnicodeDecodeError': 'ValueError', 'ArithmeticError': 'Exception', 'ZeroDivisionError': 'ArithmeticError',
    'AppException': 'Exception',  # an Exception subclass raised by application code, otherwise unknown
}


class Event:
    __slots__ = ('kind', 'node', 'func', 'depth', 'data', 'seq')

    def __init__(self, kind, node, func, depth, **data):
        self.kind = kind
        self.node = node
        self.func = func
        self.depth = depth
        self.data = data
        self.seq = -1

    def __getattr__(self, item):
        try:
            return self.data[item]
        except KeyError:
            raise AttributeError(item)

    @property
    def line(self):
        return getattr(self.node, 'lineno', 0)

    def where(self):
        return '%s:%s' % (self.func.file if self.func else '?', self.line)

    def __repr__(self):
        d = self.data
        if self.kind == 'call':
            return 'call %s [%s] @%s' % (d.get('name'), d.get('how'), self.where())
        if self.kind == 'cond':
            return 'cond %s=%s @%s' % (fmt_term(d['key']), d['value'], self.where())
        if self.kind == 'store':
            return 'store %s @%s' % (d.get('target'), self.where())
        return '%s @%s' % (self.kind, self.where())


class Path:
    def __init__(self, events, outcome, value=None):
        self.events: List[Event] = events
        self.outcome: str = outcome  # 'return' | 'raise' | 'cut'
        self.value = value  # return value / exception AVal

    def calls(self, name=None):
        return [e for e in self.events if e.kind == 'call' and (name is None or e.data.get('name') == name)]

    def of_kind(self, *kinds):
        return [e for e in self.events if e.kind in kinds]

    def describe(self, limit=60):
        out = []
        for e in self.events[:limit]:
            out.append(repr(e))
        return out


class Frame:
    __slots__ = ('func', 'locals', 'self_val', 'defining_cls', 'depth', 'closure_idx', 'cm')

    def __init__(self, func, locals_, self_val, defining_cls, depth, closure_idx=None, cm=None):
        self.func: FuncInfo = func
        self.locals: Dict[str, AVal] = locals_
        self.self_val: Optional[AVal] = self_val
        self.defining_cls: Optional[ClassInfo] = defining_cls
        self.depth = depth
        self.closure_idx: Optional[int] = closure_idx  # index (in State.frames) of the enclosing function's frame
        self.cm = cm  # (with-node, item, remaining items) when this frame is a generator context manager

    def fork(self):
        return Frame(self.func, dict(self.locals), self.self_val, self.defining_cls, self.depth, self.closure_idx,
                     self.cm)


class State:
    __slots__ = ('events', 'frames', 'heap', 'preds', 'epoch', 'recv_epoch', 'alias')

    def __init__(self):
        self.events: List[Event] = []
        self.frames: List[Frame] = []
        self.heap: Dict[Tuple, AVal] = {}
        self.preds: Dict[Tuple, bool] = {}
        self.epoch = 0
        self.recv_epoch: Dict[Tuple, int] = {}
        self.alias: Dict[Tuple, str] = {}  # allocation-site term -> attribute name it was stored to

    def fork(self) -> 'State':
        s = State()
        s.events = list(self.events)
        s.frames = [f.fork() for f in self.frames]
        s.heap = dict(self.heap)
        s.preds = dict(self.preds)
        s.epoch = self.epoch
        s.recv_epoch = dict(self.recv_epoch)
        s.alias = dict(self.alias)
        return s

    @property
    def frame(self) -> Frame:
        return self.frames[-1]

    def emit(self, kind, node, **data) -> Event:
        e = Event(kind, node, self.frame.func if self.frames else None, len(self.frames), **data)
        e.seq = len(self.events)
        self.events.append(e)
        return e


# outcomes of executing a block
FALL, RETURN, RAISE, BREAK, CONTINUE, CUT = 'fall', 'return', 'raise', 'break', 'continue', 'cut'

PURE_METHODS = {'done', 'cancelled', 'empty', 'is_set', 'exception', 'full', 'qsize', 'result', 'get', 'keys',
                'items', 'values', 'decode', 'total_seconds', 'requires_length_header', 'is_server_alive',
                'copy', 'encode'}
# methods that change the observable state of their receiver (bump the receiver's epoch)
MUTATORS = {'cancel', 'set_result', 'set_exception', 'put_nowait', 'get_nowait', 'set', 'clear', 'pop', 'append',
            'extend', 'remove', 'close', 'add_done_callback', 'task_done', 'popleft', 'update', 'add', 'insert',
            'on_next', 'on_completed', 'on_error', 'on_complete', 'send', 'read', '__next__', '__anext__'}


# method names too generic to resolve by name alone (they collide with stdlib / third-party objects)
GENERIC_NAMES = {'close', 'cancel', 'get', 'set', 'append', 'send', 'connect', 'parse', 'serialize', 'request',
                 'subscribe', 'on_next', 'on_error', 'on_complete', 'on_subscribe', 'run', 'clear', 'pop', 'remove',
                 'extend', 'dispose', 'put_nowait', 'get_nowait', 'empty', 'wait', 'read', 'write', 'setup', 'peek',
                 'done', 'result', 'exception', 'items', 'keys', 'values', 'update', 'copy', 'encode', 'decode',
                 'on_completed', 'pipe', 'reconnect', 'route', 'response', 'stream', 'channel', '__init__'}


LOGGING_MODULES = {'rsocket.frame_logger', 'rsocket.logger'}


class Options:
    def __init__(self, exc=(), inline_depth=MAX_DEPTH, no_inline=(), loop_bind=None, attr_types=None,
                 inline_filter=None, app_types=None, max_paths=MAX_PATHS, follow_multi=4, initial_heap=None,
                 arm=None, symbolic_compare=False, stable_attrs=False):
        self.exc = set(exc)  # subset of {'app', 'cancel'}; explicit raises are always followed
        self.inline_depth = inline_depth
        self.no_inline = set(no_inline)  # function short names / qualnames never inlined
        self.loop_bind = loop_bind  # callable(for_node, state) -> list of {name: AVal} or None
        self.attr_types = attr_types or {}
        self.inline_filter = inline_filter
        self.app_types = app_types
        self.max_paths = max_paths
        self.follow_multi = follow_multi
        self.initial_heap = initial_heap or {}
        self.arm = arm  # 'try' | 'except': which of two alternative definitions (try: import x / except ImportError)
        self.symbolic_compare = symbolic_compare  # comparisons in value context stay terms instead of forking
        self.stable_attrs = stable_attrs  # attribute reads carry no epoch (synchronous code without call-outs)


# interfaces whose implementations are supplied by the application: calls on them are APP call-outs
APP_INTERFACES = {
    'reactivestreams.subscriber:Subscriber', 'reactivestreams.subscriber:DefaultSubscriber',
    'reactivestreams.subscription:Subscription', 'reactivestreams.subscription:DefaultSubscription',
    'reactivestreams.publisher:Publisher', 'reactivestreams.publisher:DefaultPublisher',
    'rsocket.request_handler:RequestHandler', 'rsocket.request_handler:BaseRequestHandler',
    'rsocket.transports.transport:Transport', 'rsocket.disposable:Disposable',
    'rsocket.lease:Lease',
}


class Interp:
    def __init__(self, repo: Repo, options: Optional[Options] = None):
        self.repo = repo
        self.opt = options or Options()
        self.paths: List[Path] = []
        self._site = itertools.count()
        self.stats = {'inlined': 0, 'atomic_repo': 0, 'app': 0, 'external': 0, 'unknown': 0, 'ambiguous': 0}
        self.ambiguous_sites = []

    # ------------------------------------------------------------------ entry
    def run(self, func: FuncInfo, self_cls: Optional[ClassInfo] = None, args: Optional[Dict[str, AVal]] = None,
            self_val: Optional[AVal] = None, self_exact: bool = True) -> List[Path]:
        st = State()
        for k, v in self.opt.initial_heap.items():
            st.heap[k] = v
        locals_ = {}
        params = func.params()
        fr_self = None
        if func.cls is not None and params and not self._is_static(func):
            cls = self_cls or func.cls
            fr_self = self_val or AVal(('self',), [cls], exact=self_exact)
            locals_[params[0]] = fr_self
            params = params[1:]
        elif func.parent is not None:
            pass
        for p in params:
            locals_[p] = self._param_val(func, p)
        a = func.node.args
        for x in a.kwonlyargs:
            locals_[x.arg] = self._param_val(func, x.arg)
        if a.vararg:
            locals_[a.vararg.arg] = AVal(('param', func.qualname, '*' + a.vararg.arg))
        if a.kwarg:
            locals_[a.kwarg.arg] = AVal(('param', func.qualname, '**' + a.kwarg.arg))
        if args:
            for k, v in args.items():
                if k not in locals_:
                    raise AnalysisError('%s has no parameter %s' % (func.qualname, k))
                locals_[k] = v
        st.frames.append(Frame(func, locals_, fr_self, func.cls, 1))
        self.paths = []
        for s, out, val in self._exec_block(func.node.body, st):
            if out == FALL:
                self._finish(s, RETURN, const(None))
            elif out in (RETURN, RAISE, CUT):
                self._finish(s, out, val)
            else:
                raise AnalysisError('break/continue outside loop in %s' % func.qualname)
        return self.paths

    def _finish(self, s: State, out, val):
        self.paths.append(Path(s.events, out, val))
        if len(self.paths) > self.opt.max_paths:
            raise AnalysisError('path budget exceeded (%d)' % self.opt.max_paths)

    @staticmethod
    def _is_static(func: FuncInfo):
        return any(d in ('staticmethod',) for d in func.decorators)

    def _param_val(self, func: FuncInfo, name: str) -> AVal:
        ann = None
        a = func.node.args
        for x in a.posonlyargs + a.args + a.kwonlyargs:
            if x.arg == name:
                ann = x.annotation
        types = self._usable_types(self.repo.annotation_types(func.module, ann, func.cls))
        return AVal(('param', func.qualname, name), types)

    @staticmethod
    def _usable_types(types):
        if not types:
            return None
        out = [t for t in types if isinstance(t, (ClassInfo, External))]
        return out or None

    # ------------------------------------------------------------------ blocks & statements
    def _exec_block(self, stmts, st: State):
        """Yields (state, outcome, value)."""
        if not stmts:
            yield st, FALL, None
            return
        first, rest = stmts[0], stmts[1:]
        for s, out, val in self._exec_stmt(first, st):
            if out == FALL:
                yield from self._exec_block(rest, s)
            else:
                yield s, out, val

    def _exec_stmt(self, n: ast.stmt, st: State):
        m = getattr(self, '_st_' + type(n).__name__, None)
        if m is None:
            raise AnalysisError('statement form outside the idiom table: %s at %s:%s' % (
                type(n).__name__, st.frame.func.file, n.lineno))
        yield from m(n, st)

    def _st_Pass(self, n, st):
        yield st, FALL, None

    def _st_Global(self, n, st):
        yield st, FALL, None

    _st_Nonlocal = _st_Global

    def _st_Import(self, n, st):
        yield st, FALL, None

    _st_ImportFrom = _st_Import

    def _st_Break(self, n, st):
        yield st, BREAK, None

    def _st_Continue(self, n, st):
        yield st, CONTINUE, None

    def _st_Assert(self, n, st):
        yield st, FALL, None

    def _st_Delete(self, n, st):
        yield st, FALL, None

    def _st_ClassDef(self, n, st):
        yield st, FALL, None

    def _st_FunctionDef(self, n, st):
        f = st.frame.func.children.get(n.name)
        if f is None:
            raise AnalysisError('nested function not indexed: %s' % n.name)
        st.frame.locals[n.name] = AVal(('closure', f.qualname), None)
        yield st, FALL, None

    _st_AsyncFunctionDef = _st_FunctionDef

    def _st_Expr(self, n, st):
        for s, v, out in self._eval(n.value, st):
            if out is not None:
                yield s, out[0], out[1]
            else:
                yield s, FALL, None

    def _st_Return(self, n, st):
        if n.value is None:
            st.emit('return', n, value=const(None))
            yield st, RETURN, const(None)
            return
        for s, v, out in self._eval(n.value, st):
            if out is not None:
                yield s, out[0], out[1]
            else:
                s.emit('return', n, value=v)
                yield s, RETURN, v

    def _st_Raise(self, n, st):
        if n.exc is None:
            cur = st.frame.locals.get('$exc')
            exc = cur if cur is not None else AVal(('exc', 'Exception'), None)
            st.emit('raise', n, exc=exc, reraise=True)
            yield st, RAISE, exc
            return
        for s, v, out in self._eval(n.exc, st):
            if out is not None:
                yield s, out[0], out[1]
                continue
            s.emit('raise', n, exc=v, reraise=False)
            yield s, RAISE, v

    def _st_Assign(self, n, st):
        for s, v, out in self._eval(n.value, st):
            if out is not None:
                yield s, out[0], out[1]
                continue
            for t in n.targets:
                self._store(t, v, s, n)
            yield s, FALL, None

    def _st_AnnAssign(self, n, st):
        if n.value is None:
            yield st, FALL, None
            return
        for s, v, out in self._eval(n.value, st):
            if out is not None:
                yield s, out[0], out[1]
                continue
            self._store(n.target, v, s, n)
            yield s, FALL, None

    def _st_AugAssign(self, n, st):
        load = _as_load(n.target)
        for s, cur, out in self._eval(load, st):
            if out is not None:
                yield s, out[0], out[1]
                continue
            for s2, v, out2 in self._eval(n.value, s):
                if out2 is not None:
                    yield s2, out2[0], out2[1]
                    continue
                res = self._binop(type(n.op).__name__, cur, v)
                self._store(n.target, res, s2, n, aug=type(n.op).__name__)
                yield s2, FALL, None

    def _st_If(self, n, st):
        for s, truth, out in self._cond(n.test, st):
            if out is not None:
                yield s, out[0], out[1]
            elif truth:
                yield from self._exec_block(n.body, s)
            else:
                yield from self._exec_block(n.orelse, s)

    def _st_While(self, n, st):
        for s, truth, out in self._cond(n.test, st):
            if out is not None:
                yield s, out[0], out[1]
                continue
            if not truth:
                yield from self._exec_block(n.orelse, s)
                continue
            s.emit('loop', n, phase='enter')
            for s2, o2, v2 in self._exec_block(n.body, s):
                if o2 == BREAK:
                    s2.emit('loop', n, phase='break')
                    yield s2, FALL, None
                elif o2 in (FALL, CONTINUE):
                    s2.emit('loop', n, phase='back')
                    # second evaluation of the condition: exit, or cut the path (one iteration only)
                    for s3, t3, out3 in self._cond(n.test, s2):
                        if out3 is not None:
                            yield s3, out3[0], out3[1]
                        elif t3:
                            s3.emit('loop', n, phase='cut')
                            yield s3, CUT, None
                        else:
                            s3.emit('loop', n, phase='exit')
                            yield from self._exec_block(n.orelse, s3)
                else:
                    yield s2, o2, v2

    def _st_For(self, n, st):
        for s, itv, out in self._eval(n.iter, st):
            if out is not None:
                yield s, out[0], out[1]
                continue
            if isinstance(n, ast.AsyncFor):
                s.emit('await', n, what='async for')
                s.epoch += 1
                if 'cancel' in self.opt.exc:
                    sc = s.fork()
                    exc = AVal(('exc', 'CancelledError'), None)
                    sc.emit('raise', n, exc=exc, implicit='cancel')
                    yield sc, RAISE, exc
            if itv.term[0] in ('tuple', 'list') and not isinstance(n, ast.AsyncFor) and len(itv.term[1]) <= 6 and \
                    all(isinstance(x, AVal) for x in itv.term[1]):
                yield from self._unrolled_for(n, list(itv.term[1]), s)
                continue
            # zero iterations
            s0 = s.fork()
            s0.emit('loop', n, phase='skip')
            yield from self._exec_block(n.orelse, s0)
            # one iteration
            binds = None
            if self.opt.loop_bind is not None:
                binds = self.opt.loop_bind(n, s, itv)
            if binds is None:
                binds = [None]
            for b in binds:
                s1 = s.fork() if len(binds) > 1 else s
                s1.emit('loop', n, phase='enter')
                elem = AVal(('elem', itv.term, s1.epoch), None)
                self._store(n.target, elem, s1, n)
                if b:
                    for k, v in b.items():
                        s1.frame.locals[k] = v
                for s2, o2, v2 in self._exec_block(n.body, s1):
                    if o2 == BREAK:
                        s2.emit('loop', n, phase='break')
                        yield s2, FALL, None
                    elif o2 in (FALL, CONTINUE):
                        s2.emit('loop', n, phase='back')
                        yield from self._exec_block(n.orelse, s2)
                    else:
                        yield s2, o2, v2

    _st_AsyncFor = _st_For

    def _unrolled_for(self, n, elems, st):
        """A loop over a literal tuple/list of known elements is executed exactly (sequentially unrolled)."""
        if not elems:
            yield from self._exec_block(n.orelse, st)
            return
        first, rest = elems[0], elems[1:]
        st.emit('loop', n, phase='enter', unrolled=True)
        self._store(n.target, first, st, n)
        for s2, o2, v2 in self._exec_block(n.body, st):
            if o2 == BREAK:
                s2.emit('loop', n, phase='break')
                yield s2, FALL, None
            elif o2 in (FALL, CONTINUE):
                yield from self._unrolled_for(n, rest, s2)
            else:
                yield s2, o2, v2

    def _st_With(self, n, st):
        yield from self._with_items(n, list(n.items), st)

    _st_AsyncWith = _st_With

    def _with_items(self, n, items, st):
        if not items:
            yield from self._exec_block(n.body, st)
            return
        item, rest = items[0], items[1:]
        is_async = isinstance(n, ast.AsyncWith)
        ce = item.context_expr
        # repository context manager written as a generator: run it up to the yield, then the body, then the rest
        target = None
        if isinstance(ce, ast.Call):
            for s, callee, out in self._resolve_callee(ce, st):
                if out is not None:
                    yield s, out[0], out[1]
                    continue
                funcs = callee.get('funcs') or []
                if len(funcs) == 1 and funcs[0].is_contextmanager() and self._may_inline(funcs[0], s):
                    yield from self._with_generator_cm(n, item, rest, funcs[0], callee, ce, s, is_async)
                else:
                    yield from self._with_opaque(n, item, rest, s, is_async)
            return
        yield from self._with_opaque(n, item, rest, st, is_async)

    def _with_opaque(self, n, item, rest, st, is_async):
        for s, v, out in self._eval(item.context_expr, st):
            if out is not None:
                yield s, out[0], out[1]
                continue
            s.emit('with_enter', n, ctx=v, expr=item.context_expr)
            if is_async:
                s.emit('await', n, what='async with')
                s.epoch += 1
            if item.optional_vars is not None:
                self._store(item.optional_vars, AVal(('ctxval', v.term), None), s, n)
            for s2, o2, v2 in self._with_items(n, rest, s):
                s2.emit('with_exit', n, ctx=v, outcome=o2, expr=item.context_expr)
                yield s2, o2, v2

    def _with_generator_cm(self, n, item, rest, f: FuncInfo, callee, call_node, st, is_async):
        """Inline a @contextmanager/@asynccontextmanager generator around the with-body: the generator runs
        up to its yield, the with-body runs there (see _ex_Yield), then the generator is resumed."""
        for s, argvals, out in self._eval_args(call_node, st):
            if out is not None:
                yield s, out[0], out[1]
                continue
            frame = self._make_frame(f, callee, argvals, s, call_node)
            frame.cm = (n, item, rest)
            s.emit('enter', call_node, callee=f, cm=True, recv=callee.get('recv'), args=argvals[0],
                   kwargs=argvals[1])
            s.frames.append(frame)
            depth = len(s.frames)
            for s2, o, v in self._exec_block(f.node.body, s):
                if len(s2.frames) != depth or s2.frames[-1].func is not f:
                    raise AnalysisError('frame stack imbalance in context manager %s' % f.qualname)
                fr = s2.frames.pop()
                s2.emit('exit', call_node, callee=f, cm=True, outcome=o)
                pend = fr.locals.pop('$cm_pending', None)
                if o in (FALL, RETURN):
                    if pend is not None:
                        yield s2, pend[0], pend[1]
                    else:
                        yield s2, FALL, None
                else:
                    yield s2, o, v

    def _st_Try(self, n, st):
        for s, out, val in self._exec_block(n.body, st):
            if out == FALL:
                for s2, o2, v2 in self._exec_block(n.orelse, s):
                    yield from self._finally(n, s2, o2, v2)
            elif out == RAISE:
                handled = False
                for h in n.handlers:
                    m = self._handler_matches(h, val, s)
                    if m:
                        handled = True
                        s.emit('except', h, exc=val)
                        saved = s.frame.locals.get('$exc')
                        s.frame.locals['$exc'] = val
                        if h.name:
                            s.frame.locals[h.name] = val
                        for s2, o2, v2 in self._exec_block(h.body, s):
                            if saved is None:
                                s2.frame.locals.pop('$exc', None)
                            else:
                                s2.frame.locals['$exc'] = saved
                            yield from self._finally(n, s2, o2, v2)
                        break
                if not handled:
                    yield from self._finally(n, s, out, val)
            else:
                yield from self._finally(n, s, out, val)

    def _finally(self, n, st, out, val):
        if not n.finalbody:
            yield st, out, val
            return
        st.emit('finally', n, pending=out)
        for s2, o2, v2 in self._exec_block(n.finalbody, st):
            if o2 == FALL:
                yield s2, out, val
            else:
                yield s2, o2, v2

    def _exc_class_name(self, val: AVal) -> Tuple[Optional[ClassInfo], str]:
        """(repo class or None, builtin-ish name)."""
        if val is None:
            return None, 'Exception'
        if val.types:
            for t in val.types:
                if isinstance(t, ClassInfo):
                    return t, t.name
                if isinstance(t, External):
                    return None, t.qualname.split('.')[-1]
        t = val.term
        if t[0] == 'exc':
            return None, t[1]
        if t[0] in ('external', 'builtin'):
            return None, t[1].split('.')[-1]
        if t[0] == 'call' and isinstance(t[1], str):
            return None, t[1].split('.')[-1]
        return None, 'AppException'

    def _handler_matches(self, h: ast.ExceptHandler, exc: AVal, st: State) -> bool:
        if h.type is None:
            return True
        cls, name = self._exc_class_name(exc)
        types = h.type.elts if isinstance(h.type, ast.Tuple) else [h.type]
        for t in types:
            r = self.repo.resolve_expr(st.frame.func.module, t, st.frame.func.cls)
            if isinstance(r, ClassInfo):
                if cls is not None and cls.is_subclass_of(r):
                    return True
                continue
            hname = (r.qualname if isinstance(r, External) else ast.unparse(t)).split('.')[-1]
            # walk up from the exception's class
            chain = []
            if cls is not None:
                for k in cls.mro():
                    for b in k.bases:
                        if isinstance(b, External):
                            chain.append(b.qualname.split('.')[-1])
            else:
                chain.append(name)
            seen = set()
            work = list(chain)
            while work:
                c = work.pop()
                if c in seen or c is None:
                    continue
                seen.add(c)
                if c == hname:
                    return True
                if c not in BUILTIN_EXC_PARENT:
                    # unknown external exception class: assume it derives from Exception
                    work.append('Exception')
                else:
                    work.append(BUILTIN_EXC_PARENT[c])
        return False

    # ------------------------------------------------------------------ stores
    def _store(self, target, v: AVal, st: State, stmt, aug=None):
        if isinstance(target, ast.Name):
            self._set_local(st, target.id, v)
            st.emit('store', stmt, target=('local', target.id), value=v, tnode=target, aug=aug)
        elif isinstance(target, ast.Attribute):
            for_s = list(self._eval(target.value, st))
            if len(for_s) != 1 or for_s[0][2] is not None:
                raise AnalysisError('branching store target at %s:%s' % (st.frame.func.file, stmt.lineno))
            _, base, _ = for_s[0]
            st.heap[(base.term, target.attr)] = v
            if v.term[0] == 'new':
                st.alias[v.term] = target.attr
            st.emit('store', stmt, target=('attr', base.term, target.attr), value=v, tnode=target, base=base,
                    aug=aug)
        elif isinstance(target, ast.Subscript):
            r = list(self._eval(target.value, st))
            r2 = list(self._eval(_slice_expr(target), r[0][0])) if r else []
            base = r[0][1] if r else AVal(('unknown',))
            idx = r2[0][1] if r2 else AVal(('unknown',))
            st.recv_epoch[base.term] = st.recv_epoch.get(base.term, 0) + 1
            st.emit('store', stmt, target=('item', base.term, idx.term), value=v, tnode=target, base=base, index=idx,
                    aug=aug)
        elif isinstance(target, (ast.Tuple, ast.List)):
            for i, e in enumerate(target.elts):
                if v.term[0] == 'tuple' and i < len(v.term[1]):
                    ev = v.term[1][i]
                    ev = ev if isinstance(ev, AVal) else AVal(ev)
                else:
                    ev = AVal(('unpack', v.term, i), None)
                self._store(e, ev, st, stmt)
        elif isinstance(target, ast.Starred):
            self._store(target.value, AVal(('unpack*', v.term)), st, stmt)
        else:
            raise AnalysisError('store target form outside the idiom table: %s' % type(target).__name__)

    def _set_local(self, st: State, name: str, v: AVal):
        fr = st.frame
        # closures: assignment to a nonlocal goes to the defining frame if declared nonlocal; keep simple: local
        fr.locals[name] = v

    # ------------------------------------------------------------------ conditions
    def _cond(self, e: ast.expr, st: State):
        """Yields (state, truth, abnormal) where abnormal is None or (outcome, value)."""
        if isinstance(e, ast.BoolOp):
            yield from self._cond_boolop(e, list(e.values), st)
            return
        if isinstance(e, ast.UnaryOp) and isinstance(e.op, ast.Not):
            for s, t, out in self._cond(e.operand, st):
                yield s, (not t) if out is None else None, out
            return
        if isinstance(e, ast.Compare) and len(e.ops) == 1:
            for s, a, out in self._eval(e.left, st):
                if out is not None:
                    yield s, None, out
                    continue
                for s2, b, out2 in self._eval(e.comparators[0], s):
                    if out2 is not None:
                        yield s2, None, out2
                        continue
                    yield from self._decide_compare(e, e.ops[0], a, b, s2)
            return
        if isinstance(e, ast.Call) and isinstance(e.func, ast.Name) and e.func.id == 'isinstance' and len(e.args) == 2:
            for s, v, out in self._eval(e.args[0], st):
                if out is not None:
                    yield s, None, out
                    continue
                yield from self._decide_isinstance(e, v, e.args[1], s)
            return
        for s, v, out in self._eval(e, st):
            if out is not None:
                yield s, None, out
                continue
            yield from self._decide_truth(e, v, s)

    def _cond_boolop(self, e, values, st):
        is_and = isinstance(e.op, ast.And)
        first, rest = values[0], values[1:]
        for s, t, out in self._cond(first, st):
            if out is not None:
                yield s, None, out
            elif not rest:
                yield s, t, None
            elif is_and and not t:
                yield s, False, None
            elif (not is_and) and t:
                yield s, True, None
            else:
                yield from self._cond_boolop(e, rest, s)

    def _branch(self, node, key, st: State):
        """Fork on an undecided predicate, honouring predicate consistency."""
        if key in st.preds:
            v = st.preds[key]
            st.emit('cond', node, key=key, value=v, forced=True)
            yield st, v, None
            return
        s_true = st
        s_false = st.fork()
        s_true.preds[key] = True
        s_true.emit('cond', node, key=key, value=True, forced=False)
        yield s_true, True, None
        s_false.preds[key] = False
        s_false.emit('cond', node, key=key, value=False, forced=False)
        yield s_false, False, None

    def _decided(self, node, key, value, st):
        st.emit('cond', node, key=key, value=value, forced=True, static=True)
        yield st, value, None

    def _decide_truth(self, node, v: AVal, st: State):
        t = v.term
        if t[0] == 'const':
            yield from self._decided(node, ('truth', t), bool(t[1]), st)
        elif t[0] in ('new', 'self', 'closure', 'lambda', 'func', 'boundmethod', 'appcallable'):
            yield from self._decided(node, ('truth', t), True, st)
        elif t[0] == 'not':
            for s, tr, out in self._branch(node, ('truth', t[1]), st):
                yield s, not tr, out
        else:
            yield from self._branch(node, ('truth', t), st)

    def _decide_compare(self, node, op, a: AVal, b: AVal, st: State):
        ta, tb = a.term, b.term
        opn = type(op).__name__
        if opn in ('Is', 'IsNot'):
            neg = opn == 'IsNot'
            if tb == ('const', None) or ta == ('const', None):
                x = ta if tb == ('const', None) else tb
                if x[0] == 'const':
                    yield from self._decided(node, ('isnone', x), (x[1] is None) != neg, st)
                elif x[0] in ('new', 'self', 'closure', 'lambda', 'appcallable'):
                    yield from self._decided(node, ('isnone', x), False != neg, st)
                else:
                    for s, tr, out in self._branch(node, ('isnone', x), st):
                        yield s, tr != neg, out
                return
            if ta == tb:
                yield from self._decided(node, ('is', ta, tb), True != neg, st)
                return
            if ta[0] == 'const' and tb[0] == 'const':
                yield from self._decided(node, ('is', ta, tb), (ta[1] is tb[1]) != neg, st)
                return
            if ta[0] == 'new' and tb[0] == 'new':
                yield from self._decided(node, ('is', ta, tb), False != neg, st)
                return
            key = ('is',) + tuple(sorted((ta, tb), key=repr))
            for s, tr, out in self._branch(node, key, st):
                yield s, tr != neg, out
            return
        if opn in ('Eq', 'NotEq'):
            neg = opn == 'NotEq'
            if ta[0] == 'const' and tb[0] == 'const':
                try:
                    yield from self._decided(node, ('eq', ta, tb), (ta[1] == tb[1]) != neg, st)
                    return
                except Exception:
                    pass
            if ta == tb:
                yield from self._decided(node, ('eq', ta, tb), True != neg, st)
                return
            key = ('eq',) + tuple(sorted((ta, tb), key=repr))
            for s, tr, out in self._branch(node, key, st):
                yield s, tr != neg, out
            return
        if opn in ('Lt', 'Gt', 'LtE', 'GtE'):
            if ta[0] == 'const' and tb[0] == 'const':
                try:
                    val = {'Lt': ta[1] < tb[1], 'Gt': ta[1] > tb[1], 'LtE': ta[1] <= tb[1], 'GtE': ta[1] >= tb[1]}[opn]
                    yield from self._decided(node, ('cmp', opn, ta, tb), val, st)
                    return
                except Exception:
                    pass
            # normalise to lt(x, y)
            if opn == 'Lt':
                key, neg = ('lt', ta, tb), False
            elif opn == 'Gt':
                key, neg = ('lt', tb, ta), False
            elif opn == 'GtE':
                key, neg = ('lt', ta, tb), True
            else:
                key, neg = ('lt', tb, ta), True
            for s, tr, out in self._branch(node, key, st):
                yield s, tr != neg, out
            return
        if opn in ('In', 'NotIn'):
            neg = opn == 'NotIn'
            if ta[0] == 'const' and tb[0] == 'tuple' and all(isinstance(x, AVal) and x.is_const() for x in tb[1]):
                yield from self._decided(node, ('in', ta, tb), (ta[1] in [x.const for x in tb[1]]) != neg, st)
                return
            tbk = tb + (st.recv_epoch.get(tb, 0),) if tb[0] != 'const' else tb
            for s, tr, out in self._branch(node, ('in', ta, tbk), st):
                yield s, tr != neg, out
            return
        yield from self._branch(node, ('cmp', opn, ta, tb), st)

    def _decide_isinstance(self, node, v: AVal, type_expr: ast.expr, st: State):
        elts = type_expr.elts if isinstance(type_expr, ast.Tuple) else [type_expr]
        targets = []
        for t in elts:
            r = self.repo.resolve_expr(st.frame.func.module, t, st.frame.func.cls)
            if isinstance(r, tuple) and r[0] == 'const':
                # a module-level tuple of classes (initiate_request_frame_types)
                ce = r[1]
                if isinstance(ce, ast.Tuple):
                    for x in ce.elts:
                        targets.append(self.repo.resolve_expr(r[2], x))
                    continue
            targets.append(r if r is not None else External(ast.unparse(t)))
        # local variable holding a tuple of classes
        names = tuple(sorted((getattr(t, 'qualname', None) or repr(t)) for t in targets))
        if v.types is not None and all(isinstance(t, ClassInfo) for t in v.types) and all(
                isinstance(t, (ClassInfo, External)) for t in targets):
            repo_targets = [t for t in targets if isinstance(t, ClassInfo)]
            ext_targets = [t.qualname.split('.')[-1] for t in targets if isinstance(t, External)]

            def sub(c):
                if any(c.is_subclass_of(t) for t in repo_targets):
                    return True
                exts = [x.split('.')[-1] for x in c.external_bases()]
                return any(x in ext_targets for x in exts)

            if v.exact:
                res = [sub(c) for c in v.types]
                if all(res):
                    yield from self._decided(node, ('isinstance', v.term, names), True, st)
                    return
                if not any(res):
                    yield from self._decided(node, ('isinstance', v.term, names), False, st)
                    return
            else:
                if all(sub(c) for c in v.types):
                    yield from self._decided(node, ('isinstance', v.term, names), True, st)
                    return
        yield from self._branch(node, ('isinstance', v.term, names), st)

    # ------------------------------------------------------------------ expressions
    def _eval(self, e: ast.expr, st: State):
        """Yields (state, AVal, abnormal)."""
        m = getattr(self, '_ex_' + type(e).__name__, None)
        if m is None:
            raise AnalysisError('expression form outside the idiom table: %s at %s:%s' % (
                type(e).__name__, st.frame.func.file, getattr(e, 'lineno', '?')))
        yield from m(e, st)

    def _ex_Constant(self, e, st):
        yield st, const(e.value), None

    def _lookup_name(self, name: str, st: State) -> Optional[AVal]:
        fr = st.frame
        if name in fr.locals:
            return fr.locals[name]
        idx = fr.closure_idx
        while idx is not None:
            cl = st.frames[idx]
            if name in cl.locals:
                return cl.locals[name]
            idx = cl.closure_idx
        # free variable of an enclosing function that is not on the stack (nested function analysed alone)
        p = fr.func.parent
        while p is not None:
            bound = set(p.params()) | {x.arg for x in p.node.args.kwonlyargs}
            for nn in walk_local(p.node):
                if isinstance(nn, ast.Name) and isinstance(nn.ctx, ast.Store):
                    bound.add(nn.id)
            bound |= set(p.children)
            if name in bound:
                if name in p.children:
                    return AVal(('closure', p.children[name].qualname), None)
                ann = None
                for x in p.node.args.posonlyargs + p.node.args.args + p.node.args.kwonlyargs:
                    if x.arg == name:
                        ann = x.annotation
                return AVal(('free', p.qualname, name),
                            self._usable_types(self.repo.annotation_types(p.module, ann, p.cls)))
            p = p.parent
        return None

    def _ex_Name(self, e, st):
        v = self._lookup_name(e.id, st)
        if v is not None:
            yield st, v, None
            return
        m = st.frame.func.module
        r = self.repo.resolve_name(m, e.id)
        yield st, self._static_val(r, m, e.id), None

    def _static_val(self, r, m: Module, label: str) -> AVal:
        if isinstance(r, ClassInfo):
            return AVal(('class', r.qualname), [r], exact=True)
        if isinstance(r, list):
            return AVal(('func', tuple(f.qualname for f in r)), None)
        if isinstance(r, ModuleRef):
            return AVal(('module', r.name), None)
        if isinstance(r, External):
            return AVal(('external', r.qualname), None)
        if isinstance(r, tuple) and r[0] == 'const':
            try:
                return const(self.repo.const(r[2], r[1]))
            except (KeyError, TypeError, ValueError):
                return AVal(('global', r[2].name, label), None)
        if isinstance(r, tuple) and r[0] == 'classattr':
            try:
                return const(self.repo.const(r[1].module, r[1].class_attrs[r[2]]))
            except (KeyError, TypeError, ValueError):
                return AVal(('classattr', r[1].qualname, r[2]), None)
        if label in ('True', 'False', 'None'):
            return const({'True': True, 'False': False, 'None': None}[label])
        return AVal(('builtin', label), None)

    def _ex_Attribute(self, e, st):
        for s, base, out in self._eval(e.value, st):
            if out is not None:
                yield s, None, out
                continue
            yield s, self._get_attr(base, e.attr, s, e), None

    def _get_attr(self, base: AVal, attr: str, st: State, node=None) -> AVal:
        bt = base.term
        key = (bt, attr)
        if key in st.heap:
            return st.heap[key]
        if bt[0] == 'module':
            m = self.repo.modules[bt[1]]
            if bt[1] + '.' + attr in self.repo.modules:
                return AVal(('module', bt[1] + '.' + attr), None)
            return self._static_val(self.repo.resolve_name(m, attr), m, attr)
        if bt[0] == 'external':
            return AVal(('external', bt[1] + '.' + attr), None)
        if bt[0] == 'class':
            cls = next(iter(base.types))
            if attr in cls.nested:
                return AVal(('class', cls.nested[attr].qualname), [cls.nested[attr]], exact=True)
            f = cls.lookup(attr)
            if f is not None:
                return AVal(('func', (f.qualname,)), None)
            for k in cls.mro():
                if attr in k.class_attrs:
                    try:
                        cv = self.repo.const(k.module, k.class_attrs[attr])
                        if isinstance(cv, tuple) and len(cv) == 1:
                            cv = cv[0]
                        return AVal(('enum', k.qualname, attr, cv) if 'Enum' in ' '.join(k.external_bases()) else
                                    ('const', cv), [k] if 'Enum' in ' '.join(k.external_bases()) else None)
                    except (KeyError, TypeError, ValueError):
                        return AVal(('classattr', k.qualname, attr), None)
            return AVal(('attr', bt, attr), None)
        if attr == '__class__' and base.types and base.exact and len(base.types) == 1 and \
                isinstance(next(iter(base.types)), ClassInfo):
            c = next(iter(base.types))
            return AVal(('class', c.qualname), [c], exact=True)
        # instance attribute
        types = None
        mutable = True
        if base.types:
            tl = []
            imm = True
            for c in base.types:
                if isinstance(c, ClassInfo):
                    k = (c.qualname, attr)
                    if k in self.opt.attr_types:
                        tl.extend(self.opt.attr_types[k])
                    else:
                        tt, im = self._attr_types(c, attr)
                        if tt:
                            tl.extend(tt)
                        imm = imm and im
                else:
                    imm = False
            types = tl or None
            mutable = not imm
            # bound method?
            for c in base.types:
                if isinstance(c, ClassInfo):
                    f = c.lookup(attr)
                    if f is not None and not f.is_property():
                        return AVal(('boundmethod', bt, attr), None)
        if mutable and not self.opt.stable_attrs:
            return AVal(('attr', bt, attr, st.epoch), types)
        return AVal(('attr', bt, attr), types)

    def _attr_types(self, c: ClassInfo, attr: str):
        """(possible classes of c.<attr>, immutable-after-__init__?) from stores and annotations."""
        ck = (c.qualname, attr)
        cache = self.repo._attr_type_cache
        if ck in cache:
            return cache[ck]
        cache[ck] = (None, False)
        types = []
        immutable = True
        any_store = False
        for f, stmt, value in self.repo.attr_assignments(c, attr):
            any_store = True
            if f.name != '__init__':
                immutable = False
            if isinstance(stmt, ast.AnnAssign):
                t = self.repo.annotation_types(f.module, stmt.annotation, f.cls)
                if t:
                    types.extend(x for x in t if isinstance(x, (ClassInfo, External)))
            if value is None:
                continue
            if isinstance(value, (ast.Dict, ast.List, ast.Set, ast.ListComp, ast.DictComp, ast.SetComp, ast.Tuple)):
                types.append(External('builtins.' + type(value).__name__.lower()))
                continue
            if isinstance(value, ast.Call):
                r = self.repo.resolve_expr(f.module, value.func, f.cls)
                if isinstance(r, ClassInfo):
                    types.append(('exact', r))
                    continue
                if isinstance(r, External) or (r is None and isinstance(value.func, ast.Name) and value.func.id in (
                        'dict', 'list', 'set', 'bytearray', 'bytes', 'tuple', 'object', 'int', 'str')):
                    types.append(External(r.qualname if isinstance(r, External) else 'builtins.' + value.func.id))
                    continue
                if isinstance(r, list) and len(r) == 1 and r[0].node.returns is not None:
                    t = self.repo.annotation_types(r[0].module, r[0].node.returns, r[0].cls)
                    if t:
                        types.extend(x for x in t if isinstance(x, (ClassInfo, External)))
                    continue
            if isinstance(value, ast.Name):
                a = f.node.args
                for x in a.posonlyargs + a.args + a.kwonlyargs:
                    if x.arg == value.id and x.annotation is not None:
                        t = self.repo.annotation_types(f.module, x.annotation, f.cls)
                        if t:
                            types.extend(y for y in t if isinstance(y, (ClassInfo, External)))
        for k in c.mro():
            if attr in k.class_annotations:
                t = self.repo.annotation_types(k.module, k.class_annotations[attr], k)
                if t:
                    types.extend(x for x in t if isinstance(x, (ClassInfo, External)))
        if not any_store:
            immutable = False
        flat = []
        for t in types:
            if isinstance(t, tuple):
                flat.append(t[1])
            else:
                flat.append(t)
        res = (list(dict.fromkeys(flat)) or None, immutable)
        cache[ck] = res
        return res

    def _ex_Subscript(self, e, st):
        for s, base, out in self._eval(e.value, st):
            if out is not None:
                yield s, None, out
                continue
            for s2, idx, out2 in self._eval(_slice_expr(e), s):
                if out2 is not None:
                    yield s2, None, out2
                    continue
                if base.term[0] == 'tuple' and idx.is_const() and isinstance(idx.const, int) and \
                        -len(base.term[1]) <= idx.const < len(base.term[1]):
                    x = base.term[1][idx.const]
                    yield s2, x if isinstance(x, AVal) else AVal(x), None
                else:
                    yield s2, AVal(('item', base.term, idx.term, s2.recv_epoch.get(base.term, 0)), None), None

    def _ex_Slice(self, e, st):
        parts = []
        cur = [(st, [])]
        for sub in (e.lower, e.upper, e.step):
            nxt = []
            for s, acc in cur:
                if sub is None:
                    nxt.append((s, acc + [('const', None)]))
                else:
                    for s2, v, out in self._eval(sub, s):
                        if out is not None:
                            yield s2, None, out
                        else:
                            nxt.append((s2, acc + [v.term]))
            cur = nxt
        for s, acc in cur:
            yield s, AVal(('slice',) + tuple(acc)), None

    def _ex_Tuple(self, e, st):
        cur = [(st, [])]
        for sub in e.elts:
            nxt = []
            for s, acc in cur:
                if isinstance(sub, ast.Starred):
                    sub = sub.value
                for s2, v, out in self._eval(sub, s):
                    if out is not None:
                        yield s2, None, out
                    else:
                        nxt.append((s2, acc + [v]))
            cur = nxt
        for s, acc in cur:
            yield s, AVal(('tuple', tuple(acc))), None

    def _ex_List(self, e, st):
        for s, v, out in self._ex_Tuple(e, st):
            if out is not None:
                yield s, None, out
            else:
                yield s, AVal(('list', v.term[1], next(self._site))), None

    _ex_Set = _ex_List

    def _ex_Dict(self, e, st):
        cur = [(st, [])]
        for k, val in zip(e.keys, e.values):
            nxt = []
            for s, acc in cur:
                if k is None:
                    kvs = [(s, AVal(('const', '**')), None)]
                else:
                    kvs = list(self._eval(k, s))
                for s2, kv, out in kvs:
                    if out is not None:
                        yield s2, None, out
                        continue
                    for s3, vv, out3 in self._eval(val, s2):
                        if out3 is not None:
                            yield s3, None, out3
                        else:
                            nxt.append((s3, acc + [(kv, vv)]))
            cur = nxt
        for s, acc in cur:
            yield s, AVal(('dict', tuple((k.term, v.term) for k, v in acc), next(self._site))), None

    def _ex_JoinedStr(self, e, st):
        yield st, AVal(('fstring', next(self._site))), None

    def _ex_FormattedValue(self, e, st):
        yield st, AVal(('fstring', next(self._site))), None

    def _ex_Lambda(self, e, st):
        yield st, AVal(('lambda', id(e), len(st.frames) - 1)), None

    def _opaque_comprehension(self, e, st):
        # calls inside a comprehension run zero or more times; record them as may-events
        for n in ast.walk(e):
            if isinstance(n, ast.Call):
                st.emit('call', n, name=_call_name(n), how='comprehension', recv=None, args=[], kwargs={},
                        targets=None, value=None, maybe=True)
            elif isinstance(n, ast.Await):
                st.emit('await', n, what='comprehension')
        yield st, AVal(('comp', id(e), st.epoch)), None

    _ex_ListComp = _opaque_comprehension
    _ex_SetComp = _opaque_comprehension
    _ex_DictComp = _opaque_comprehension
    _ex_GeneratorExp = _opaque_comprehension

    def _ex_Starred(self, e, st):
        for s, v, out in self._eval(e.value, st):
            yield s, (AVal(('star', v.term)) if out is None else None), out

    def _ex_NamedExpr(self, e, st):
        for s, v, out in self._eval(e.value, st):
            if out is None:
                self._store(e.target, v, s, e)
            yield s, v, out

    def _ex_IfExp(self, e, st):
        for s, t, out in self._cond(e.test, st):
            if out is not None:
                yield s, None, out
            elif t:
                yield from self._eval(e.body, s)
            else:
                yield from self._eval(e.orelse, s)

    def _ex_BoolOp(self, e, st):
        # value context: a or b / a and b
        yield from self._boolop_value(e, list(e.values), st)

    def _boolop_value(self, e, values, st):
        is_and = isinstance(e.op, ast.And)
        first, rest = values[0], values[1:]
        if not rest:
            yield from self._eval(first, st)
            return
        for s, v, out in self._eval(first, st):
            if out is not None:
                yield s, None, out
                continue
            for s2, t, out2 in self._decide_truth(first, v, s):
                if is_and != t:
                    yield s2, v, None
                else:
                    yield from self._boolop_value(e, rest, s2)

    def _ex_UnaryOp(self, e, st):
        if isinstance(e.op, ast.Not):
            for s, t, out in self._cond(e.operand, st):
                yield s, (const(not t) if out is None else None), out
            return
        for s, v, out in self._eval(e.operand, st):
            if out is not None:
                yield s, None, out
                continue
            if v.is_const():
                try:
                    r = {'USub': lambda x: -x, 'UAdd': lambda x: +x, 'Invert': lambda x: ~x}[type(e.op).__name__](v.const)
                    yield s, const(r), None
                    continue
                except Exception:
                    pass
            yield s, AVal(('unop', type(e.op).__name__, v.term)), None

    def _ex_BinOp(self, e, st):
        for s, a, out in self._eval(e.left, st):
            if out is not None:
                yield s, None, out
                continue
            for s2, b, out2 in self._eval(e.right, s):
                if out2 is not None:
                    yield s2, None, out2
                    continue
                yield s2, self._binop(type(e.op).__name__, a, b), None

    _BIN = {'Add': lambda a, b: a + b, 'Sub': lambda a, b: a - b, 'Mult': lambda a, b: a * b,
            'FloorDiv': lambda a, b: a // b, 'Div': lambda a, b: a / b, 'Mod': lambda a, b: a % b,
            'LShift': lambda a, b: a << b, 'RShift': lambda a, b: a >> b, 'BitOr': lambda a, b: a | b,
            'BitAnd': lambda a, b: a & b, 'BitXor': lambda a, b: a ^ b, 'Pow': lambda a, b: a ** b}

    def _binop(self, opn: str, a: AVal, b: AVal) -> AVal:
        if a.is_const() and b.is_const() and opn in self._BIN:
            try:
                r = self._BIN[opn](a.const, b.const)
                if not isinstance(r, (bytes, str)) or len(r) < 200:
                    return const(r)
            except Exception:
                pass
        return AVal(('op', opn, a.term, b.term))

    def _ex_Compare(self, e, st):
        if len(e.ops) == 1 and self.opt.symbolic_compare:
            for s, a, out in self._eval(e.left, st):
                if out is not None:
                    yield s, None, out
                    continue
                for s2, b, out2 in self._eval(e.comparators[0], s):
                    if out2 is not None:
                        yield s2, None, out2
                    elif a.is_const() and b.is_const():
                        yield from ((s3, const(t), o3) for s3, t, o3 in self._decide_compare(e, e.ops[0], a, b, s2))
                    else:
                        yield s2, AVal(('cmp', type(e.ops[0]).__name__, a.term, b.term)), None
            return
        if len(e.ops) == 1:
            for s, t, out in self._cond(e, st):
                yield s, (const(t) if out is None else None), out
            return
        yield st, AVal(('cmpchain', id(e), st.epoch)), None

    def _ex_Await(self, e, st):
        for s, v, out in self._eval(e.value, st, ) if not isinstance(e.value, ast.Call) else self._eval_call(
                e.value, st, awaited=True):
            if out is not None:
                yield s, None, out
                continue
            s.emit('await', e, what=v)
            s.epoch += 1
            if 'cancel' in self.opt.exc:
                sc = s.fork()
                exc = AVal(('exc', 'CancelledError'), None)
                sc.emit('raise', e, exc=exc, implicit='cancel')
                yield sc, None, (RAISE, exc)
            res = v
            if v.await_types:
                res = AVal(('awaited', v.term), v.await_types)
            elif v.term[0] == 'const':
                res = v
            elif isinstance(e.value, ast.Call) and self._last_call_async(s, e.value):
                res = v  # awaited call of an async function: v already is the coroutine's result
            else:
                res = AVal(('awaited', v.term), None)
            yield s, res, None

    @staticmethod
    def _last_call_async(s: State, call_node) -> bool:
        """Was the awaited call resolved to async repository functions (inlined or atomic)?"""
        for ev in reversed(s.events):
            if ev.node is call_node and ev.kind in ('exit', 'call'):
                if ev.kind == 'exit':
                    return bool(ev.data['callee'].is_async)
                t = ev.data.get('targets') or []
                return bool(t) and all(f.is_async for f in t)
        return False

    def _ex_Yield(self, e, st):
        if e.value is None:
            vals = [(st, const(None), None)]
        else:
            vals = self._eval(e.value, st)
        for s, v, out in vals:
            if out is not None:
                yield s, None, out
                continue
            s.emit('yield', e, value=v)
            s.epoch += 1
            cm = s.frame.cm
            if cm is None:
                yield s, AVal(('sent', next(self._site))), None
                continue
            n, item, rest = cm
            cm_frame = s.frames.pop()
            if item.optional_vars is not None:
                self._store(item.optional_vars, v, s, n)
            for s2, o2, v2 in self._with_items(n, rest, s):
                fr = cm_frame.fork()
                s2.frames.append(fr)
                if o2 == FALL:
                    yield s2, const(None), None
                elif o2 == RAISE:
                    yield s2, None, (RAISE, v2)  # thrown into the generator at the yield
                else:
                    # return/break/continue/cut in the with-body: the generator resumes normally and the
                    # with statement then delivers the outcome
                    fr.locals['$cm_pending'] = (o2, v2)
                    yield s2, const(None), None

    def _ex_YieldFrom(self, e, st):
        for s, v, out in self._eval(e.value, st):
            if out is None:
                s.emit('yield', e, value=v, delegating=True)
            yield s, AVal(('sent', next(self._site))), out

    # ------------------------------------------------------------------ calls
    def _ex_Call(self, e, st):
        yield from self._eval_call(e, st, awaited=False)

    def _eval_args(self, call: ast.Call, st: State):
        cur = [(st, [], {})]
        for a in call.args:
            nxt = []
            for s, pos, kw in cur:
                for s2, v, out in self._eval(a, s):
                    if out is not None:
                        yield s2, None, out
                    else:
                        nxt.append((s2, pos + [v], kw))
            cur = nxt
        for k in call.keywords:
            nxt = []
            for s, pos, kw in cur:
                for s2, v, out in self._eval(k.value, s):
                    if out is not None:
                        yield s2, None, out
                    else:
                        kw2 = dict(kw)
                        kw2[k.arg if k.arg is not None else '**'] = v
                        nxt.append((s2, pos, kw2))
            cur = nxt
        for s, pos, kw in cur:
            yield s, (pos, kw), None

    def _resolve_callee(self, call: ast.Call, st: State):
        """Yields (state, callee-description dict, abnormal).
        callee: kind in {'funcs','ctor','app','external','builtin','unknown','closure','lambda'}."""
        f = call.func
        if isinstance(f, ast.Name):
            v = self._lookup_name(f.id, st)
            if v is None:
                m = st.frame.func.module
                r = self.repo.resolve_name(m, f.id)
                v = self._static_val(r, m, f.id)
            yield st, self._callee_from_value(v, None, f.id, st), None
            return
        if isinstance(f, ast.Attribute):
            # super().m(...)
            if isinstance(f.value, ast.Call) and isinstance(f.value.func, ast.Name) and f.value.func.id == 'super':
                fr = st.frame
                selfv = fr.self_val
                if selfv is None and fr.closure_idx is not None:
                    selfv = st.frames[fr.closure_idx].self_val
                dcls = fr.defining_cls
                if selfv is None or dcls is None:
                    raise AnalysisError('super() outside a method at %s:%s' % (fr.func.file, call.lineno))
                funcs = []
                ext = False
                for c in (selfv.types or []):
                    if isinstance(c, ClassInfo):
                        t = c.lookup_after(dcls, f.attr)
                        if t is not None:
                            funcs.append(t)
                        else:
                            ext = True
                funcs = list(dict.fromkeys(funcs))
                if funcs:
                    yield st, {'kind': 'funcs', 'funcs': funcs, 'recv': selfv, 'name': f.attr, 'super': True}, None
                else:
                    yield st, {'kind': 'external', 'name': 'super().' + f.attr, 'recv': selfv}, None
                return
            for s, base, out in self._eval(f.value, st):
                if out is not None:
                    yield s, None, out
                    continue
                yield s, self._callee_from_method(base, f.attr, s, call), None
            return
        # call of a call result / subscript etc.
        for s, v, out in self._eval(f, st):
            if out is not None:
                yield s, None, out
            else:
                yield s, self._callee_from_value(v, None, ast.unparse(f)[:40], s), None

    def _callee_from_value(self, v: AVal, recv, label, st) -> dict:
        t = v.term
        if t[0] == 'class':
            return {'kind': 'ctor', 'cls': next(iter(v.types)), 'name': label}
        if t[0] == 'func':
            funcs = []
            for q in t[1]:
                funcs.extend(self._funcs_by_qual(q))
            funcs = list(dict.fromkeys(funcs))
            if len(funcs) > 1 and len({f.qualname for f in funcs}) == 1:
                # alternative definitions of one name: take the selected arm, default the last one defined
                sel = [f for f in funcs if self.opt.arm and f.arm == self.opt.arm]
                funcs = sel or funcs[-1:]
            return {'kind': 'funcs', 'funcs': funcs, 'recv': None, 'name': label}
        if t[0] == 'closure':
            return {'kind': 'funcs', 'funcs': [self._func_by_qual(t[1])], 'recv': None, 'name': label,
                    'closure': True}
        if t[0] == 'boundmethod':
            base = AVal(t[1], None)
            # re-evaluate types of receiver from heap terms is not possible here; treat by name
            return {'kind': 'unknown', 'name': t[2], 'recv': base, 'bound': True}
        if t[0] == 'external':
            return {'kind': 'external', 'name': t[1]}
        if t[0] == 'builtin':
            return {'kind': 'builtin', 'name': t[1]}
        if t[0] == 'lambda':
            return {'kind': 'lambda', 'name': '<lambda>', 'term': t}
        if t[0] == 'appcallable':
            return {'kind': 'app', 'name': label, 'recv': recv, 'value': v}
        if t[0] == 'attr' and not v.types and isinstance(t[2], str):
            # `f = obj.meth ... f(x)`: a method value of an object without repo type, called later - same as obj.meth(x)
            return {'kind': 'unknown', 'name': t[2], 'recv': AVal(t[1], None), 'bound': True, 'value': v}
        return {'kind': 'unknown', 'name': label, 'value': v}

    def _funcs_by_qual(self, q: str) -> List[FuncInfo]:
        self._func_by_qual(q)
        return list(self.repo._fq[q])

    def _func_by_qual(self, q: str) -> FuncInfo:
        cache = getattr(self.repo, '_fq', None)
        if cache is None:
            cache = self.repo._fq = {}
            for f in self.repo.all_functions():
                cache.setdefault(f.qualname, []).append(f)
        if q not in cache:
            raise AnalysisError('function vanished: %s' % q)
        return cache[q][-1]

    def _callee_from_method(self, base: AVal, name: str, st: State, call) -> dict:
        bt = base.term
        if (bt, name) in st.heap:
            hv = st.heap[(bt, name)]
            if hv.term[0] in ('func', 'closure', 'lambda', 'class', 'appcallable'):
                return self._callee_from_value(hv, None, name, st)
        if bt[0] == 'module':
            m = self.repo.modules[bt[1]]
            r = self.repo.resolve_name(m, name)
            return self._callee_from_value(self._static_val(r, m, name), None, name, st)
        if bt[0] == 'external':
            return {'kind': 'external', 'name': bt[1] + '.' + name, 'recv': base}
        if bt[0] == 'class':
            cls = next(iter(base.types))
            if name in cls.nested:
                return {'kind': 'ctor', 'cls': cls.nested[name], 'name': name}
            f = cls.lookup(name)
            if f is not None:
                is_cm = any(d in ('classmethod',) for d in f.decorators)
                return {'kind': 'funcs', 'funcs': [f], 'recv': base if is_cm else None, 'name': name,
                        'unbound': not is_cm and not self._is_static(f)}
            return {'kind': 'external', 'name': cls.name + '.' + name, 'recv': base}
        if name == '__class__' and base.types and base.exact and len(base.types) == 1 and \
                isinstance(next(iter(base.types)), ClassInfo):
            return {'kind': 'ctor', 'cls': next(iter(base.types)), 'name': '__class__'}
        # heap-stored callable attribute (e.g. self._on_cancel)
        if base.types:
            funcs = []
            app = False
            ext = False
            for c in base.types:
                if isinstance(c, External):
                    ext = True
                    continue
                if c.qualname in APP_INTERFACES and not base.exact:
                    app = True
                    # implementations that live in the repository (call graph edges; never inlined: the receiver
                    # may just as well be application code)
                    for k in [c] + self.repo.subclasses(c):
                        t = k.methods.get(name)
                        if t is not None and not any('abstractmethod' in d for d in t.decorators):
                            funcs.append(t)
                    continue
                cands = [c] if base.exact else [c] + self.repo.subclasses(c)
                found = False
                for k in cands:
                    t = k.lookup(name)
                    if t is not None:
                        found = True
                        if any('abstractmethod' in d for d in t.decorators):
                            continue
                        funcs.append(t)
                if not found:
                    if self.repo.attr_assignments(c, name):
                        app = True  # a callable stored in an instance attribute (application callback)
                    else:
                        ext = True  # inherited from an external base (asyncio.Queue.put_nowait ...)
            funcs = list(dict.fromkeys(funcs))
            if app:
                return {'kind': 'app', 'name': name, 'recv': base, 'funcs': funcs}
            if funcs:
                return {'kind': 'funcs', 'funcs': funcs, 'recv': base, 'name': name}
            if ext:
                return {'kind': 'external', 'name': name, 'recv': base}
        return {'kind': 'unknown', 'name': name, 'recv': base}

    def _eval_call(self, e: ast.Call, st: State, awaited: bool):
        # builtins with analysis meaning
        if isinstance(e.func, ast.Name) and self._lookup_name(e.func.id, st) is None:
            nm = e.func.id
            if nm == 'isinstance' and len(e.args) == 2:
                for s, t, out in self._cond(e, st):
                    yield s, (const(t) if out is None else None), out
                return
            if nm == 'cast' and len(e.args) == 2:
                yield from self._eval(e.args[1], st)
                return
            if nm == 'hasattr' and len(e.args) == 2:
                yield from self._hasattr(e, st)
                return
        for s, callee, out in self._resolve_callee(e, st):
            if out is not None:
                yield s, None, out
                continue
            for s2, av, out2 in self._eval_args(e, s):
                if out2 is not None:
                    yield s2, None, out2
                    continue
                yield from self._dispatch(e, callee, av, s2, awaited)

    def _hasattr(self, e, st):
        for s, v, out in self._eval(e.args[0], st):
            if out is not None:
                yield s, None, out
                continue
            name = e.args[1].value if isinstance(e.args[1], ast.Constant) else None
            if name and v.types and all(isinstance(c, ClassInfo) for c in v.types) and v.exact:
                res = []
                for c in v.types:
                    has = bool(self.repo.attr_assignments(c, name)) or c.lookup(name) is not None or any(
                        name in k.class_attrs for k in c.mro())
                    res.append(has)
                if all(res) or not any(res):
                    yield s, const(all(res)), None
                    continue
            yield s, AVal(('hasattr', v.term, name)), None

    def _dispatch(self, e: ast.Call, callee: dict, av, st: State, awaited: bool):
        pos, kw = av
        kind = callee['kind']
        name = callee.get('name')
        recv = callee.get('recv')
        depth = len(st.frames)

        def atomic(how, funcs=None, value=None, raises=False):
            if recv is not None and name in MUTATORS:
                st.recv_epoch[recv.term] = st.recv_epoch.get(recv.term, 0) + 1
            rterm = recv.term if recv is not None else None
            if value is None:
                if name in PURE_METHODS and how in ('external', 'unknown', 'app'):
                    value = AVal(('pure', name, rterm, tuple(a.term for a in pos),
                                  st.recv_epoch.get(rterm, 0), st.epoch if how != 'external' or True else 0), None)
                else:
                    rt, awt = self._return_types(funcs)
                    if rt is None and awt is None and how == 'external':
                        rt = [External('%s()' % name)]
                    extra = ()
                    if recv is not None and how in ('external', 'unknown') and recv.term[0] not in (
                            'external', 'module', 'self'):
                        extra = (('recv', recv.term),)
                    value = AVal(('call', name, tuple(a.term for a in pos) + tuple(
                        ('kw', k, v.term) for k, v in sorted(kw.items())) + extra, next(self._site)), rt, False, awt)
            ev = st.emit('call', e, name=name, how=how, recv=recv, args=pos, kwargs=kw, targets=funcs,
                         value=value, callee=callee, awaited=awaited,
                         recv_alias=st.alias.get(recv.term) if recv is not None else None)
            if name in ('add_done_callback', 'call_soon', 'call_later') and pos:
                ev.data['callback_paths'] = self._probe_callback(pos[-1] if name != 'call_later' else pos[1], e, st)
            self.stats[how if how in self.stats else 'unknown'] = self.stats.get(how, 0) + 1
            if how in ('app', 'atomic_repo'):
                st.epoch += 1
            if how in ('app', 'unknown'):
                # objects created on this path and handed to application code escape: the callee may call back
                # into them (publisher.subscribe(subscriber) -> subscriber.on_subscribe) - forget their fields
                escaped = [a.term for a in list(pos) + list(kw.values()) if a.term[0] == 'new']
                if escaped:
                    for hk in [hk for hk in st.heap if hk[0] in escaped]:
                        del st.heap[hk]
            if raises:
                sr = st.fork()
                exc = AVal(('exc', 'AppException'), None)
                sr.emit('raise', e, exc=exc, implicit='app', call=ev.seq)
                yield sr, None, (RAISE, exc)
            if 'protocol' in self.opt.exc and how in ('app', 'atomic_repo', 'unknown') and (
                    raises or (how == 'atomic_repo' and 'app' not in self.opt.exc and
                               self._summary_may_raise(funcs))):
                sr = st.fork()
                pcls = self.repo.cls('rsocket.exceptions:RSocketProtocolError')
                exc = AVal(('exc', 'RSocketProtocolError'), [pcls], exact=True)
                sr.emit('raise', e, exc=exc, implicit='protocol', call=ev.seq)
                yield sr, None, (RAISE, exc)
            if 'transport' in self.opt.exc and how in ('app', 'atomic_repo', 'unknown') and awaited:
                sr = st.fork()
                tcls = self.repo.cls('rsocket.exceptions:RSocketTransportError')
                exc = AVal(('exc', 'RSocketTransportError'), [tcls], exact=True)
                sr.emit('raise', e, exc=exc, implicit='transport', call=ev.seq)
                yield sr, None, (RAISE, exc)
            yield st, value, None

        if kind == 'ctor':
            cls: ClassInfo = callee['cls']
            if len(pos) == 1 and not kw and any(b.split('.')[-1] in ('Enum', 'IntEnum', 'IntFlag', 'Flag')
                                                 for b in cls.external_bases()):
                # Enum lookup by value: the member carries the value it was looked up with
                val = AVal(('enumof', cls.qualname, pos[0].term), [cls], exact=True)
                st.emit('call', e, name=cls.name, how='external', recv=None, args=pos, kwargs=kw, targets=None,
                        value=val, callee=callee, awaited=False)
                yield st, val, None
                return
            obj = AVal(('new', next(self._site), cls.name), [cls], exact=True)
            st.emit('new', e, cls=cls, value=obj, args=pos, kwargs=kw)
            init = cls.lookup('__init__')
            if init is None or not self._may_inline(init, st):
                yield st, obj, None
                return
            c2 = {'kind': 'funcs', 'funcs': [init], 'recv': obj, 'name': '__init__'}
            for s, v, out in self._inline(e, init, c2, pos, kw, st, awaited=False):
                yield s, (obj if out is None else None), out
            return
        if kind == 'funcs':
            funcs: List[FuncInfo] = callee['funcs']
            if callee.get('unbound') and pos:
                # Class.method(self, ...) explicit base call
                callee = dict(callee)
                callee['recv'] = pos[0]
                pos = pos[1:]
                recv = callee['recv']
            inl = [f for f in funcs if self._may_inline(f, st)]
            if len(funcs) == 1 and inl:
                f = funcs[0]
                if f.has_yield() and not f.is_contextmanager():
                    # generator object: body runs on iteration, not here
                    val = AVal(('gen', f.qualname, next(self._site)), None)
                    st.emit('call', e, name=name, how='generator', recv=recv, args=pos, kwargs=kw, targets=funcs,
                            value=val, callee=callee, awaited=awaited)
                    yield st, val, None
                    return
                if f.is_async and not awaited:
                    val = AVal(('coro', f.qualname, next(self._site)), None)
                    st.emit('call', e, name=name, how='coroutine', recv=recv, args=pos, kwargs=kw, targets=funcs,
                            value=val, callee=callee, awaited=False)
                    yield st, val, None
                    return
                yield from self._inline(e, f, callee, pos, kw, st, awaited)
                return
            if 1 < len(funcs) <= self.opt.follow_multi and len(inl) == len(funcs) and not any(
                    f.has_yield() or (f.is_async and not awaited) for f in funcs):
                for i, f in enumerate(funcs):
                    s = st.fork() if i < len(funcs) - 1 else st
                    s.emit('dispatch', e, target=f, among=funcs)
                    yield from self._inline(e, f, callee, pos, kw, s, awaited)
                return
            if all(f.module.name in LOGGING_MODULES for f in funcs):
                yield from atomic('external', funcs)
                return
            raises = 'app' in self.opt.exc and self._summary_may_raise(funcs)
            yield from atomic('atomic_repo', funcs, raises=raises)
            return
        if kind == 'app':
            yield from atomic('app', callee.get('funcs'), raises='app' in self.opt.exc)
            return
        if kind == 'lambda':
            yield from atomic('lambda', None)
            return
        if kind == 'external' or kind == 'builtin':
            val = None
            if kind == 'builtin' and name == 'len' and pos and pos[0].is_const():
                try:
                    val = const(len(pos[0].const))
                except Exception:
                    val = None
            if kind == 'builtin' and name in ('len', 'type', 'id', 'str', 'int', 'bool', 'bytes', 'repr', 'hash'):
                val = val or AVal(('pure', name, None, tuple(a.term for a in pos), 0, 0), None)
            yield from atomic('external', None, value=val)
            return
        # unknown receiver: by-name resolution when exactly one concrete repository method has that name
        cands = []
        if name and kind == 'unknown' and not callee.get('bound') or (name and callee.get('bound')):
            for c in self.repo.classes_defining(name):
                f = c.methods[name]
                if not any('abstractmethod' in d for d in f.decorators):
                    cands.append(f)
        if cands and name not in GENERIC_NAMES:
            if len(cands) == 1 and self._may_inline(cands[0], st) and not cands[0].has_yield() and (
                    awaited or not cands[0].is_async):
                c2 = dict(callee)
                c2.update(kind='funcs', funcs=cands, byname=True)
                if c2.get('recv') is not None and c2['recv'].types is None:
                    c2['recv'] = AVal(c2['recv'].term, [cands[0].cls], False)
                st.emit('byname', e, target=cands[0], name=name)
                yield from self._inline(e, cands[0], c2, pos, kw, st, awaited)
                return
            if len(cands) == 1:
                # unique by name but not inlined here (depth / generator / not awaited): an atomic repository call
                raises = 'app' in self.opt.exc and self._summary_may_raise(cands)
                yield from atomic('atomic_repo', cands, raises=raises)
                return
            self.stats['ambiguous'] += 1
            self.ambiguous_sites.append((st.frame.func.file, e.lineno, name, [f.qualname for f in cands]))
        is_app_like = recv is not None and recv.term[0] in ('param', 'attr', 'awaited', 'call', 'elem', 'unpack', 'item')
        yield from atomic('unknown', None, raises=('app' in self.opt.exc and is_app_like and name not in PURE_METHODS
                                                   and name not in ('append', 'put_nowait', 'get_nowait', 'set',
                                                                    'clear', 'debug', 'info', 'warning', 'error')))

    def _probe_callback(self, cb: AVal, call_node, st: State):
        """Deferred callbacks (add_done_callback / call_soon): interpret a lambda body in a forked state so that
        rules can see what the callback will do with the values captured here.  Returns event lists."""
        t = cb.term
        if t[0] != 'lambda':
            return None
        lam = None
        for a in ast.walk(call_node):
            if isinstance(a, ast.Lambda) and id(a) == t[1]:
                lam = a
        if lam is None:
            return None
        s = st.fork()
        mark = len(s.events)
        for x in lam.args.args:
            s.frame.locals[x.arg] = AVal(('cbarg', x.arg), None)
        out = []
        try:
            for s2, v, o in self._eval(lam.body, s):
                out.append(s2.events[mark:])
        except AnalysisError:
            return None
        return out

    def _return_types(self, funcs):
        """(classes of the call's value, classes of `await <value>` when the value is an awaitable)."""
        if not funcs:
            return None, None
        out = []
        aw = []
        for f in funcs:
            t = self.repo.annotation_types(f.module, f.node.returns, f.cls)
            for x in t or []:
                if isinstance(x, (ClassInfo, External)):
                    out.append(x)
                elif isinstance(x, tuple) and x[0] == 'awaitable':
                    aw.extend(x[1])
        return (out or None), (aw or None)

    def _summary_may_raise(self, funcs) -> bool:
        """May a call of one of these (un-inlined) repository functions raise when application call-outs may raise?
        Decided by interpreting the callee itself with exception edges; cached per function; conservative (True)
        on recursion or when the callee is too large to enumerate."""
        cache = self.repo.__dict__.setdefault('_may_raise_cache', {})
        busy = self.repo.__dict__.setdefault('_may_raise_busy', set())
        for f in funcs or []:
            if f.qualname in cache:
                if cache[f.qualname]:
                    return True
                continue
            if f.qualname in busy:
                return True
            busy.add(f.qualname)
            try:
                sub = Interp(self.repo, Options(exc=('app',), inline_depth=4, max_paths=400))
                cls = f.cls
                if cls is not None and self.repo.is_abstract(cls):
                    cs = self.repo.concrete_subclasses(cls)
                    cls = cs[0] if cs else cls
                try:
                    ps = sub.run(f, cls)
                    res = any(p.outcome == RAISE for p in ps)
                except AnalysisError:
                    res = True
            finally:
                busy.discard(f.qualname)
            cache[f.qualname] = res
            if res:
                return True
        return False

    def _may_inline(self, f: FuncInfo, st: State) -> bool:
        if len(st.frames) >= self.opt.inline_depth:
            return False
        if f.short in self.opt.no_inline or f.qualname in self.opt.no_inline or f.name in self.opt.no_inline:
            return False
        if any(fr.func is f for fr in st.frames):
            return False  # recursion
        if any('abstractmethod' in d for d in f.decorators):
            return False
        if f.module.name in LOGGING_MODULES:
            return False  # logging helpers: many type-case branches, no effect any rule looks at
        if self.opt.inline_filter is not None and not self.opt.inline_filter(f):
            return False
        return True

    def _make_frame(self, f: FuncInfo, callee: dict, argvals, st: State, call_node) -> Frame:
        pos, kw = argvals
        pos = list(pos)
        kw = dict(kw)
        locals_: Dict[str, AVal] = {}
        a = f.node.args
        params = [x for x in a.posonlyargs + a.args]
        self_val = None
        defining = f.cls
        if f.cls is not None and not self._is_static(f) and params:
            recv = callee.get('recv')
            if recv is None:
                recv = AVal(('unknown_self', next(self._site)), [f.cls])
            self_val = recv
            locals_[params[0].arg] = recv
            params = params[1:]
        closure = None
        if f.parent is not None:
            # closure frame: the innermost active frame of the parent function
            for i in range(len(st.frames) - 1, -1, -1):
                if st.frames[i].func is f.parent:
                    closure = i
                    break
            if closure is not None and self_val is None:
                self_val = st.frames[closure].self_val
                defining = st.frames[closure].defining_cls
        defaults = [None] * (len(a.posonlyargs + a.args) - len(a.defaults)) + list(a.defaults)
        if f.cls is not None and not self._is_static(f) and (a.posonlyargs + a.args):
            defaults = defaults[1:]
        star_extra = [v for v in pos if v.term[0] == 'star']
        pos = [v for v in pos if v.term[0] != 'star']
        for i, p in enumerate(params):
            if i < len(pos):
                locals_[p.arg] = pos[i]
            elif p.arg in kw:
                locals_[p.arg] = kw.pop(p.arg)
            elif defaults[i] is not None and not star_extra and '**' not in kw:
                locals_[p.arg] = self._static_expr(f, defaults[i], p.arg)
            else:
                locals_[p.arg] = AVal(('param', f.qualname, p.arg, next(self._site)),
                                      self._usable_types(self.repo.annotation_types(f.module, p.annotation, f.cls)))
        for p, d in zip(a.kwonlyargs, a.kw_defaults):
            if p.arg in kw:
                locals_[p.arg] = kw.pop(p.arg)
            elif d is not None:
                try:
                    locals_[p.arg] = const(self.repo.const(f.module, d))
                except (KeyError, TypeError, ValueError):
                    locals_[p.arg] = AVal(('default', f.qualname, p.arg))
            else:
                locals_[p.arg] = AVal(('param', f.qualname, p.arg, next(self._site)))
        if a.vararg:
            locals_[a.vararg.arg] = AVal(('tuple', tuple(pos[len(params):])))
        if a.kwarg:
            locals_[a.kwarg.arg] = AVal(('kwargs', tuple(sorted((k, v.term) for k, v in kw.items()))))
        # give un-typed arguments the declared parameter types (helps call resolution downstream)
        for p in params:
            v = locals_.get(p.arg)
            if v is not None and v.types is None and p.annotation is not None and v.term[0] not in ('const',):
                t = self._usable_types(self.repo.annotation_types(f.module, p.annotation, f.cls))
                if t:
                    locals_[p.arg] = AVal(v.term, t, False)
        return Frame(f, locals_, self_val, defining, len(st.frames) + 1, closure)

    def _static_expr(self, f: FuncInfo, expr: ast.expr, label: str) -> AVal:
        """Value of a default-argument expression (evaluated in module scope): enum members keep their identity."""
        if isinstance(expr, ast.Attribute):
            r = self.repo.resolve_expr(f.module, expr, f.cls)
            if isinstance(r, tuple) and r[0] == 'classattr':
                k = r[1]
                base = AVal(('class', k.qualname), [k], exact=True)
                st = State()
                return self._get_attr(base, r[2], st)
        try:
            return const(self.repo.const(f.module, expr))
        except (KeyError, TypeError, ValueError):
            r = self.repo.resolve_expr(f.module, expr, f.cls)
            if r is not None:
                return self._static_val(r, f.module, ast.unparse(expr))
            return AVal(('default', f.qualname, label))

    def _inline(self, e, f: FuncInfo, callee, pos, kw, st: State, awaited: bool):
        frame = self._make_frame(f, callee, (pos, kw), st, e)
        st.emit('enter', e, callee=f, recv=callee.get('recv'), args=pos, kwargs=kw)
        self.stats['inlined'] += 1
        st.frames.append(frame)
        base_depth = len(st.frames)
        for s, out, val in self._exec_block(f.node.body, st):
            if len(s.frames) != base_depth:
                raise AnalysisError('frame stack imbalance inlining %s' % f.qualname)
            s.frames.pop()
            s.emit('exit', e, callee=f, outcome=out)
            if out == FALL:
                yield s, const(None), None
            elif out == RETURN:
                if not f.is_async and val is not None and val.await_types is None and f.node.returns is not None:
                    _, awt = self._return_types([f])
                    if awt:
                        val = AVal(val.term, val.types, val.exact, awt)
                yield s, val, None
            elif out == RAISE:
                yield s, None, (RAISE, val)
            elif out == CUT:
                yield s, None, (CUT, val)
            else:
                raise AnalysisError('break/continue escaped %s' % f.qualname)


def _as_load(t):
    import copy
    n = copy.deepcopy(t)
    for x in ast.walk(n):
        if hasattr(x, 'ctx'):
            x.ctx = ast.Load()
    return n


def _slice_expr(e: ast.Subscript):
    return e.slice


def _call_name(n: ast.Call):
    f = n.func
    if isinstance(f, ast.Attribute):
        return f.attr
    if isinstance(f, ast.Name):
        return f.id
    return ast.unparse(f)[:30]
