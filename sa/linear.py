"""E6: linear forms over named atoms with rational coefficients (unit and size accounting)."""
from fractions import Fraction
from typing import Dict, Optional


class Lin:
    __slots__ = ('coef', 'const')

    def __init__(self, coef: Optional[Dict[str, Fraction]] = None, const=0):
        self.coef = {k: Fraction(v) for k, v in (coef or {}).items() if v != 0}
        self.const = Fraction(const)

    @staticmethod
    def atom(name: str) -> 'Lin':
        return Lin({name: 1})

    @staticmethod
    def k(v) -> 'Lin':
        return Lin({}, v)

    def is_const(self):
        return not self.coef

    def __add__(self, o):
        o = _lin(o)
        c = dict(self.coef)
        for k, v in o.coef.items():
            c[k] = c.get(k, 0) + v
        return Lin(c, self.const + o.const)

    __radd__ = __add__

    def __neg__(self):
        return Lin({k: -v for k, v in self.coef.items()}, -self.const)

    def __sub__(self, o):
        return self + (-_lin(o))

    def __rsub__(self, o):
        return _lin(o) - self

    def scale(self, f) -> 'Lin':
        f = Fraction(f)
        return Lin({k: v * f for k, v in self.coef.items()}, self.const * f)

    def __mul__(self, o):
        o = _lin(o)
        if o.is_const():
            return self.scale(o.const)
        if self.is_const():
            return o.scale(self.const)
        raise ValueError('non-linear product')

    __rmul__ = __mul__

    def __truediv__(self, o):
        o = _lin(o)
        if o.is_const() and o.const != 0:
            return self.scale(1 / o.const)
        # ratio of two proportional forms
        if not self.is_const() and not o.is_const() and self.const == 0 and o.const == 0:
            keys = set(self.coef) | set(o.coef)
            ratios = set()
            for k in keys:
                if k not in self.coef or k not in o.coef:
                    raise ValueError('non-linear quotient')
                ratios.add(self.coef[k] / o.coef[k])
            if len(ratios) == 1:
                return Lin({}, ratios.pop())
        raise ValueError('non-linear quotient')

    def __eq__(self, o):
        o = _lin(o)
        return self.coef == o.coef and self.const == o.const

    def __hash__(self):
        return hash((tuple(sorted(self.coef.items())), self.const))

    def __repr__(self):
        parts = ['%s*%s' % (v, k) for k, v in sorted(self.coef.items())]
        if self.const or not parts:
            parts.append(str(self.const))
        return ' + '.join(parts)

    def le(self, o) -> Optional[bool]:
        """self <= o for all non-negative atom values?  True / False / None (depends on the atoms)."""
        d = _lin(o) - self
        if all(v >= 0 for v in d.coef.values()) and d.const >= 0:
            return True
        if all(v <= 0 for v in d.coef.values()) and d.const < 0:
            return False
        return None


def _lin(x) -> Lin:
    if isinstance(x, Lin):
        return x
    return Lin({}, x)
