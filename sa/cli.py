"""Entry point: ./check <Cxx> [--tier quick|thorough] [--replay path] | --self-check"""
import json
import os
import sys
import time
import traceback

from . import AnalysisError
from .index import load
from .report import Report


def main(argv):
    tier = os.environ.get('VERIF_TIER', 'quick')
    replay = None
    prop = None
    self_check = False
    i = 0
    while i < len(argv):
        a = argv[i]
        if a == '--tier':
            tier = argv[i + 1]
            i += 2
        elif a == '--replay':
            replay = argv[i + 1]
            i += 2
        elif a == '--self-check':
            self_check = True
            i += 1
        else:
            prop = a
            i += 1
    try:
        seed = int(os.environ.get('VERIF_SEED', '0'))
    except ValueError:
        seed = 0
    root = os.environ.get('VERIF_REPO', '/repo')
    if tier not in ('quick', 'thorough'):
        tier = 'quick'
    try:
        from .rules import PROPERTIES, Ctx
        if self_check:
            return do_self_check(root)
        if prop not in PROPERTIES:
            print('ANALYSIS-ERROR unknown property %r (have %s)' % (prop, ' '.join(sorted(PROPERTIES))))
            return 2
        repo = load(root)
        report = Report(prop, tier, seed, root)
        ctx = Ctx(repo, report, tier, seed)
        spec = PROPERTIES[prop]
        report.explanation = spec.EXPLANATION
        report.assumptions = list(spec.ASSUMPTIONS)
        broken = []
        for rid, fn in spec.RULES:
            report.rules_run.append(rid)
            try:
                fn(ctx)
            except AnalysisError as e:
                # a rule that lost its anchors does not hide what the other rules of the property found
                broken.append('%s: %s' % (rid, e))
        if broken:
            for b in broken:
                print('ANALYSIS-ERROR %s' % b)
            report.stats['analysis_errors'] = broken
            rc = report.finish()
            return rc if rc == 1 else 2
        report.stats.update(ctx.stats())
        if tier == 'thorough':
            from .variants import validate
            validate(ctx, prop)
        if replay:
            return do_replay(report, replay)
        return report.finish()
    except AnalysisError as e:
        print('ANALYSIS-ERROR %s' % e)
        return 2
    except Exception:
        tb = traceback.format_exc()
        print('ANALYSIS-ERROR internal error in the analyser:\n' + tb)
        return 2


def do_replay(report, path):
    with open(path) as f:
        want = json.load(f)
    key = want.get('key')
    hits = [i for i in report.instances if i.key() == key]
    if not hits:
        print('replay: instance %s is not produced on the current tree (construct gone)' % key)
        return 0
    bad = [i for i in hits if not i.ok]
    for i in hits:
        print('replay: %s %s at %s:%s -> %s: %s' % (i.rule, i.construct, i.file, i.line,
                                                     'holds' if i.ok else 'VIOLATED', i.detail))
    if bad:
        print('VIOLATION property=%s replay=%s' % (report.prop, path))
        return 1
    return 0


def do_self_check(root):
    import compileall
    t0 = time.time()
    here = os.path.dirname(os.path.abspath(__file__))
    ok = compileall.compile_dir(here, quiet=1, legacy=False, ddir='sa', optimize=0) if False else True
    repo = load(root)
    from .rules import PROPERTIES, Ctx
    from .effects import Slots
    Slots(repo)
    print('self-check ok: %d modules, %d classes, %d functions parsed from %s; %d properties registered [%.2fs]' % (
        len(repo.modules), len(repo.all_classes()), len(repo.all_functions()), root, len(PROPERTIES),
        time.time() - t0))
    return 0


if __name__ == '__main__':
    sys.exit(main(sys.argv[1:]))
