"""Checker validation (thorough tier): break / twin variants applied to an in-memory overlay of the parsed tree.

A *break* variant is a small edit of the analysed source that violates one rule while the file still compiles;
the property's rules must report it (at least one violation whose rule id starts with the expected prefix and whose
construct contains the expected fragment).  A *twin* variant is a behaviour-preserving edit; the rules must stay
silent (no violation beyond those of the unmodified tree).  Variants are text substitutions that must match exactly
once; a variant whose anchor text is gone (the tree changed) is skipped and listed, never failed.  The exit code
of a check reflects the property on the current tree only; validation results go to the evidence."""
import multiprocessing
import os
import traceback
from typing import List, Dict, Optional

from . import AnalysisError

REGISTRY: List[dict] = []


def variant(vid, props, file, old, new, expect=None, kind='break', count=1, note=''):
    """expect: (rule prefix, construct fragment) for break variants; None for twins."""
    REGISTRY.append({'id': vid, 'props': props if isinstance(props, (list, tuple)) else [props], 'file': file,
                     'edits': [(file, old, new, count)], 'expect': expect, 'kind': kind, 'note': note})


def variant_multi(vid, props, edits, expect=None, kind='break', note=''):
    REGISTRY.append({'id': vid, 'props': props if isinstance(props, (list, tuple)) else [props],
                     'file': edits[0][0], 'edits': [(f, o, n, 1) for f, o, n in edits], 'expect': expect,
                     'kind': kind, 'note': note})


def _load_registry():
    if not REGISTRY:
        from . import variant_defs  # noqa: F401  (fills REGISTRY)
    return REGISTRY


def _apply(root, v) -> Optional[Dict[str, str]]:
    if v.get('overlay') is not None:
        return dict(v['overlay'])
    overlay = {}
    for file, old, new, count in v['edits']:
        path = os.path.join(root, file)
        if not os.path.exists(path):
            return None
        src = overlay.get(file)
        if src is None:
            with open(path, encoding='utf-8') as f:
                src = f.read()
        if src.count(old) != count:
            return None
        overlay[file] = src.replace(old, new)
    return overlay


def _run_one(args):
    root, prop, v, base_keys = args
    from .index import load
    from .report import Report
    from .rules import PROPERTIES, Ctx
    try:
        overlay = _apply(root, v)
        if overlay is None:
            return v['id'], 'skipped', 'anchor text not found exactly once', []
        for file, src in overlay.items():
            compile(src, file, 'exec')
        repo = load(root, overlay)
        rep = Report(prop, 'quick', 0, root)
        ctx = Ctx(repo, rep, 'quick', 0)
        broken = []
        for rid, fn in PROPERTIES[prop].RULES:
            try:
                fn(ctx)
            except AnalysisError as e:
                broken.append(str(e))
        viol = sorted({i.key() for i in rep.instances if not i.ok})
        new = [k for k in viol if k not in base_keys]
        if broken and not new:
            return v['id'], 'analysis-error', '; '.join(broken), []
        return v['id'], 'ran' if not broken else 'ran+analysis-error', '; '.join(broken), new
    except AnalysisError as e:
        return v['id'], 'analysis-error', str(e), []
    except SyntaxError as e:
        return v['id'], 'skipped', 'variant does not compile: %s' % e, []
    except Exception:
        return v['id'], 'analysis-error', traceback.format_exc()[-400:], []


def _generic_twins(root):
    """Whole-tree behaviour-preserving transformations (sa/twins.py) as twin variants."""
    from .twins import TRANSFORMS
    from .index import PACKAGES
    out = []
    srcs = {}
    for pkg in PACKAGES:
        for dp, dn, fn in os.walk(os.path.join(root, pkg)):
            for f in fn:
                if f.endswith('.py'):
                    full = os.path.join(dp, f)
                    rel = os.path.relpath(full, root)
                    if rel.startswith('rsocket/cli'):
                        continue
                    with open(full, encoding='utf-8') as fh:
                        srcs[rel] = fh.read()
    for name, fn in TRANSFORMS.items():
        overlay = {}
        for rel, src in srcs.items():
            try:
                overlay[rel] = fn(src)
            except Exception:
                pass
        out.append({'id': 'g-' + name, 'props': [], 'file': '*', 'edits': [], 'overlay': overlay, 'expect': None,
                    'kind': 'twin', 'note': 'generic transformation of every file'})
    return out


def validate(ctx, prop):
    rep = ctx.report
    reg = [v for v in _load_registry() if prop in v['props']] + _generic_twins(ctx.repo.root)
    base_keys = {i.key() for i in rep.instances if not i.ok}
    jobs = [(ctx.repo.root, prop, v, base_keys) for v in reg]
    results = {}
    if jobs:
        n = min(16, len(jobs), os.cpu_count() or 1)
        try:
            with multiprocessing.get_context('fork').Pool(n) as pool:
                for vid, status, msg, new in pool.imap_unordered(_run_one, jobs):
                    results[vid] = (status, msg, new)
        except Exception:
            for j in jobs:
                vid, status, msg, new = _run_one(j)
                results[vid] = (status, msg, new)
    summary = {'break_total': 0, 'break_detected': 0, 'twin_total': 0, 'twin_silent': 0, 'skipped': [],
               'missed': [], 'noisy_twins': [], 'analysis_errors': []}
    details = []
    for v in reg:
        status, msg, new = results.get(v['id'], ('skipped', 'not run', []))
        if status == 'skipped':
            summary['skipped'].append('%s: %s' % (v['id'], msg))
            continue
        if v['kind'] == 'break':
            summary['break_total'] += 1
            hit = False
            if status == 'analysis-error':
                # fail-closed on a broken tree counts as "not silently passed" but is listed separately
                summary['analysis_errors'].append('%s: %s' % (v['id'], msg[:200]))
            else:
                exp = v['expect']
                for k in new:
                    rule, _, construct = k.partition('|')
                    if exp is None or (rule.startswith(exp[0]) and exp[1] in construct):
                        hit = True
            if hit:
                summary['break_detected'] += 1
            elif status != 'analysis-error':
                summary['missed'].append('%s (expected %s, new violations: %s)' % (v['id'], v['expect'], new[:3]))
            details.append({'variant': v['id'], 'kind': 'break', 'detected': hit, 'reported': new[:4]})
        else:
            summary['twin_total'] += 1
            if status == 'ran' and not new:  # (a twin that breaks a rule's anchors is noisy too)
                summary['twin_silent'] += 1
            else:
                summary['noisy_twins'].append('%s: %s %s' % (v['id'], status, (new or [msg])[:2]))
            details.append({'variant': v['id'], 'kind': 'twin', 'silent': status == 'ran' and not new})
    rep.stats['checker_validation'] = summary
    rep.stats['checker_validation_details'] = details[:80]
    rep.note('checker validation for %s: %d/%d break variants detected, %d/%d twin variants silent, %d skipped' % (
        prop, summary['break_detected'], summary['break_total'], summary['twin_silent'], summary['twin_total'],
        len(summary['skipped'])))
    print('%s thorough: checker validation: %d/%d break variants detected, %d/%d twins silent, %d skipped, '
          '%d analysis-errors' % (prop, summary['break_detected'], summary['break_total'], summary['twin_silent'],
                                  summary['twin_total'], len(summary['skipped']), len(summary['analysis_errors'])))
    for m in summary['missed']:
        print('  MISSED-VARIANT %s' % m)
    for m in summary['noisy_twins']:
        print('  NOISY-TWIN %s' % m)
    for m in summary['analysis_errors']:
        print('  VARIANT-ANALYSIS-ERROR %s' % m)
