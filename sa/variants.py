"""Checker validation (thorough tier): break / twin variants applied to an in-memory overlay."""


def validate(ctx, prop):
    ctx.report.note('variant validation not yet registered for %s' % prop)
