"""E8: codec layout extraction by lowering provenance terms to wire positions.

Reader side: a value stored to a frame attribute by parse() is lowered to the wire bits it was read from
(struct / cbitstruct format strings, slices, masks, shifts).  Writer side: the byte string assembled by
serialize_frame_prefix()/serialize() is lowered to a list of emitted items with the attribute (and bit) each wire
bit comes from.  Both native and cbitstruct idioms lower to the same representation, which is what makes the two
backends comparable.  An idiom outside the table raises LayoutError (-> ANALYSIS-ERROR, never a verdict)."""
import re
import struct
from typing import List, Optional, Tuple

from . import AnalysisError
from .effects import strip_epoch
from .interp import fmt_term
from .linear import Lin


class LayoutError(AnalysisError):
    pass


# ------------------------------------------------------------------------------------------ formats

def struct_fields(fmt: str) -> List[Tuple[int, int, bool]]:
    """[(byte offset, byte width, signed)] of a big-endian/native-size struct format without padding."""
    order = ''
    body = fmt
    if fmt and fmt[0] in '<>!=@':
        order, body = fmt[0], fmt[1:]
    if order in ('<',):
        raise LayoutError('little-endian struct format %r' % fmt)
    out = []
    off = 0
    for cnt, ch in re.findall(r'(\d*)([a-zA-Z?])', body):
        n = int(cnt) if cnt else 1
        if ch in 'sp':
            out.append((off, n, False))
            off += n
            continue
        w = struct.calcsize('>' + ch)
        for _ in range(n):
            out.append((off, w, ch in 'bhilq'))
            off += w
    if off != struct.calcsize(('>' if not order or order == '@' else order) + body):
        raise LayoutError('struct format %r has padding' % fmt)
    return out


def cbit_fields(fmt: str) -> List[Tuple[int, int, str]]:
    """[(bit offset, bit width, kind)] of a cbitstruct/bitstruct format (kinds u, s, b, p)."""
    out = []
    off = 0
    pos = 0
    for m in re.finditer(r'([usbptfr])(\d+)', fmt):
        if m.start() != pos:
            raise LayoutError('cbitstruct format %r not understood' % fmt)
        pos = m.end()
        kind, w = m.group(1), int(m.group(2))
        out.append((off, w, kind))
        off += w
    if pos != len(fmt):
        raise LayoutError('cbitstruct format %r not understood' % fmt)
    return out


# ------------------------------------------------------------------------------------------ positions

class Atoms:
    """Names for opaque terms used as atoms of position forms (stable within one extraction)."""

    def __init__(self):
        self.names = {}
        self.terms = {}

    def name(self, t) -> str:
        t = strip_epoch(t)
        if t not in self.names:
            n = 'a%d' % len(self.names)
            self.names[t] = n
            self.terms[n] = t
        return self.names[t]


def to_lin(t, atoms: Atoms, len_of=None) -> Lin:
    """Position / length arithmetic as a linear form; opaque sub-terms become atoms."""
    t = strip_epoch(t)
    k = t[0]
    if k == 'const':
        if isinstance(t[1], bool) or not isinstance(t[1], int):
            if isinstance(t[1], (bytes, bytearray)):
                raise LayoutError('bytes constant in a position')
            raise LayoutError('non-integer constant %r in a position' % (t[1],))
        return Lin.k(t[1])
    if k == 'op' and t[1] in ('Add', 'Sub', 'Mult'):
        a, b = to_lin(t[2], atoms, len_of), to_lin(t[3], atoms, len_of)
        try:
            if t[1] == 'Add':
                return a + b
            if t[1] == 'Sub':
                return a - b
            return a * b
        except ValueError:
            return Lin.atom(atoms.name(t))
    if k == 'pure' and t[1] == 'len' and len_of is not None:
        r = len_of(t[3][0] if t[3] else None)
        if r is not None:
            return r
    return Lin.atom(atoms.name(t))


# ------------------------------------------------------------------------------------------ reader lowering

class Read:
    """A value read from the wire: integer field (bits) or byte slice."""

    def __init__(self, kind, pos: Lin, nbytes, bits=None, width: Optional[Lin] = None):
        self.kind = kind  # 'int' | 'bytes'
        self.pos = pos  # byte position (Lin)
        self.nbytes = nbytes  # int for 'int'
        self.bits = bits  # list (LSB first) of wire bit offsets relative to pos*8 (MSB-first numbering), or None
        self.width = width  # Lin for 'bytes'

    def value_bits(self):
        return len([b for b in self.bits if b is not None]) if self.bits is not None else None

    def __repr__(self):
        if self.kind == 'int':
            return 'INT(%d bytes, %s value bits @%r)' % (self.nbytes, self.value_bits(), self.pos)
        return 'BYTES(@%r, width %r)' % (self.pos, self.width)


def _call_parts(t):
    """('call', name, args..., site) -> (name, positional args, kwargs)"""
    name = t[1]
    pos = [a for a in t[2] if not (isinstance(a, tuple) and a and a[0] in ('kw', 'recv'))]
    kw = {a[1]: a[2] for a in t[2] if isinstance(a, tuple) and a and a[0] == 'kw'}
    return str(name), pos, kw


def _slice_of(t, atoms, buffer_ok):
    """term of buffer[lo:hi] -> (lo Lin, hi Lin or None), also accepts b'\\x00..' + buffer[lo:hi] (prefix zero bytes)"""
    t = strip_epoch(t)
    pad = 0
    if t[0] == 'op' and t[1] == 'Add' and t[2][0] == 'const' and isinstance(t[2][1], (bytes, bytearray)) and \
            set(t[2][1]) <= {0}:
        pad = len(t[2][1])
        t = t[3]
    if buffer_ok(t):
        return Lin.k(0), None, pad
    if t[0] == 'item' and t[2][0] == 'slice':
        if not buffer_ok(t[1]):
            raise LayoutError('slice of something that is not the input buffer: %s' % fmt_term(t[1]))
        lo, hi, step = t[2][1], t[2][2], t[2][3]
        if step != ('const', None):
            raise LayoutError('stepped slice')
        lo_l = Lin.k(0) if lo == ('const', None) else to_lin(lo, atoms)
        hi_l = None if hi == ('const', None) else to_lin(hi, atoms)
        return lo_l, hi_l, pad
    raise LayoutError('not a buffer slice: %s' % fmt_term(t))


def lower_read(term, atoms: Atoms, buffer_ok) -> Optional[Read]:
    """Lower a stored value to the wire read it denotes; None if the value does not come from the wire."""
    t = strip_epoch(term)
    k = t[0]
    if k in ('unpack', 'item') and isinstance(t[1], tuple) and t[1] and t[1][0] == 'call':
        idx = t[2]
        if k == 'item':
            if idx[0] != 'const' or not isinstance(idx[1], int):
                # a slice of the result, e.g. struct.unpack(...)[0]
                raise LayoutError('non-constant index into an unpack result')
            idx = idx[1]
        name, pos, kw = _call_parts(t[1])
        base = name.split('.')[-1]
        if name.endswith('struct.unpack_from') and 'cbitstruct' not in name:
            fmt, buf, off = pos[0], pos[1], pos[2] if len(pos) > 2 else ('const', 0)
            if fmt[0] != 'const' or not buffer_ok(buf):
                raise LayoutError('unpack_from with non-literal format or foreign buffer')
            fo, w, signed = struct_fields(fmt[1])[idx]
            p = to_lin(off, atoms) + fo
            return Read('int', p, w, [8 * w - 1 - j for j in range(8 * w)])
        if name.endswith('struct.unpack') and 'cbitstruct' not in name:
            fmt, data = pos[0], pos[1]
            if fmt[0] != 'const':
                raise LayoutError('unpack with non-literal format')
            lo, hi, pad = _slice_of(data, atoms, buffer_ok)
            fo, w, signed = struct_fields(fmt[1])[idx]
            # struct.unpack needs exactly calcsize(fmt) bytes: remember what the slice supplies
            need = sum(f[1] for f in struct_fields(fmt[1]))
            supplied = None if hi is None else (hi - lo) + pad
            note = None
            if supplied is None:
                note = ('open', need)
            elif supplied.is_const() and supplied.const != need:
                note = ('size', need, supplied.const)
            if fo < pad:
                if fo != 0 or len(struct_fields(fmt[1])) != 1:
                    raise LayoutError('padded unpack of several fields')
                # value is w bytes of which the first `pad` are zero: the low (w-pad) bytes come from the wire
                n = w - pad
                bits = [8 * n - 1 - j for j in range(8 * n)] + [None] * (8 * pad)
                r = Read('int', lo, n, bits)
                r.exact_unpack = note
                return r
            r = Read('int', lo + (fo - pad), w, [8 * w - 1 - j for j in range(8 * w)])
            r.exact_unpack = note
            return r
        if 'cbitstruct' in name or 'bitstruct' in name:
            fmt = pos[0]
            if fmt[0] != 'const':
                raise LayoutError('cbitstruct with non-literal format')
            fields = cbit_fields(fmt[1])
            total = sum(f[1] for f in fields)
            if base == 'unpack_from':
                buf, off = pos[1], pos[2] if len(pos) > 2 else ('const', 0)
                if not buffer_ok(buf):
                    raise LayoutError('cbitstruct.unpack_from on a foreign buffer')
                p = to_lin(off, atoms)
            elif base == 'unpack':
                lo, hi, pad = _slice_of(pos[1], atoms, buffer_ok)
                if pad:
                    raise LayoutError('padded cbitstruct.unpack')
                p = lo
            else:
                raise LayoutError('cbitstruct.%s in a reader' % base)
            values = [f for f in fields if f[2] != 'p']
            bo, w, kind = values[idx]
            nbytes = (total + 7) // 8
            bits = [bo + w - 1 - j for j in range(w)]
            r = Read('int', p, nbytes, bits)
            r.kind = 'bool' if kind == 'b' and w == 1 else 'int'
            return r
        raise LayoutError('unpack result of %s' % name)
    if k in ('pure', 'call') and t[1] in ('bytes', 'bytearray', 'memoryview'):
        # a copy / view of wire bytes is those bytes
        args = t[3] if k == 'pure' else t[2]
        if isinstance(args, tuple) and len(args) == 1:
            return lower_read(args[0], atoms, buffer_ok)
    if k == 'item' and t[2][0] != 'slice' and buffer_ok(t[1]):
        # indexing a bytes object: one unsigned byte at that position
        return Read('int', to_lin(t[2], atoms), 1, [7 - j for j in range(8)])
    if k == 'item' and t[2][0] == 'slice':
        lo, hi, pad = _slice_of(t, atoms, buffer_ok)
        if pad:
            raise LayoutError('padded slice stored')
        return Read('bytes', lo, None, None, (hi - lo) if hi is not None else None)
    if k == 'op' and t[1] in ('BitAnd', 'RShift', 'LShift', 'BitOr'):
        a = lower_read(t[2], atoms, buffer_ok) if t[2][0] != 'const' else None
        b = lower_read(t[3], atoms, buffer_ok) if t[3][0] != 'const' else None
        if t[1] == 'BitAnd':
            for x, c in ((a, t[3]), (b, t[2])):
                if x is not None and c[0] == 'const' and isinstance(c[1], int):
                    bits = [bit if (c[1] >> j) & 1 else None for j, bit in enumerate(x.bits)]
                    r = Read(x.kind, x.pos, x.nbytes, bits)
                    r.exact_unpack = getattr(x, 'exact_unpack', None)
                    return r
        if t[1] == 'RShift' and a is not None and t[3][0] == 'const':
            r = Read(a.kind, a.pos, a.nbytes, a.bits[t[3][1]:] + [None] * t[3][1])
            r.exact_unpack = getattr(a, 'exact_unpack', None)
            return r
        if t[1] == 'LShift' and a is not None and t[3][0] == 'const':
            r = Read(a.kind, a.pos, a.nbytes, [None] * t[3][1] + a.bits)
            r.exact_unpack = getattr(a, 'exact_unpack', None)
            return r
        if t[1] == 'BitOr' and a is not None and b is not None and (b.pos - a.pos).is_const():
            d = int((b.pos - a.pos).const) * 8
            n = max(len(a.bits), len(b.bits))
            ab = a.bits + [None] * (n - len(a.bits))
            bb = [None if x is None else x + d for x in b.bits] + [None] * (n - len(b.bits))
            # bit offsets of both reads are expressed relative to the byte position of the first one
            bits = []
            for x, y in zip(ab, bb):
                if x is not None and y is not None:
                    raise LayoutError('overlapping bit sources in an or')
                bits.append(x if x is not None else y)
            return Read('int', a.pos, max(a.nbytes, b.nbytes), bits)
        return None
    if k == 'enumof':
        return lower_read(t[2], atoms, buffer_ok)
    if k == 'cmp' and t[1] in ('NotEq', 'Eq') and (t[3] == ('const', 0) or t[2] == ('const', 0)):
        x = lower_read(t[2] if t[3] == ('const', 0) else t[3], atoms, buffer_ok)
        if x is None:
            return None
        src = [b for b in x.bits if b is not None]
        if len(src) != 1:
            return None
        r = Read('bool', x.pos, x.nbytes, src)
        r.negated = t[1] == 'Eq'
        return r
    if k == 'cmp' and t[1] == 'Eq' and t[3] == ('const', 1):
        x = lower_read(t[2], atoms, buffer_ok)
        if x is not None:
            src = [b for b in x.bits if b is not None]
            if len(src) == 1:
                return Read('bool', x.pos, x.nbytes, src)
    return None


def rebase_bits(r: Read, origin_bytes: int = 0):
    """Absolute wire bit numbers (MSB-first within the frame) when the position is a constant."""
    if not r.pos.is_const():
        return None
    base = int(r.pos.const) * 8
    return [None if b is None else base + b for b in r.bits]


# ------------------------------------------------------------------------------------------ writer lowering

class Emit:
    """An item emitted by a writer: integer of nbytes (value bits from a source term) or raw bytes of a field."""

    def __init__(self, kind, nbytes, src, bits=None):
        self.kind = kind  # 'int' | 'bytes'
        self.nbytes = nbytes
        self.src = src  # provenance term of the value written
        self.bits = bits  # for 'int': list (LSB first of the emitted integer) of (src term, src bit) | 0 | 1 | None

    def __repr__(self):
        return '%s(%s, %s)' % (self.kind.upper(), self.nbytes, fmt_term(self.src)[:60])


def lower_value_bits(t, nbits):
    """Bits (LSB first) of an integer-valued term as (atom term, bit index) / 0 / 1."""
    t = strip_epoch(t)
    k = t[0]
    if k == 'const' and isinstance(t[1], int):
        return [(t[1] >> j) & 1 for j in range(nbits)]
    if k == 'enum':
        return [(t[3] >> j) & 1 for j in range(nbits)]
    if k == 'op':
        op = t[1]
        if op in ('BitAnd', 'BitOr'):
            a, b = lower_value_bits(t[2], nbits), lower_value_bits(t[3], nbits)
            out = []
            for x, y in zip(a, b):
                if op == 'BitAnd':
                    out.append(0 if x == 0 or y == 0 else (y if x == 1 else (x if y == 1 else ('and', x, y))))
                else:
                    out.append(1 if x == 1 or y == 1 else (y if x == 0 else (x if y == 0 else ('or', x, y))))
            return out
        if op == 'LShift' and t[3][0] == 'const':
            a = lower_value_bits(t[2], nbits)
            return ([0] * t[3][1] + a)[:nbits]
        if op == 'RShift' and t[3][0] == 'const':
            a = lower_value_bits(t[2], nbits + t[3][1])
            return a[t[3][1]:t[3][1] + nbits]
    return [(t, j) for j in range(nbits)]


def lower_bytes_expr(t, out: List[Emit], atoms: Atoms, opaque_calls=False):
    """Lower a bytes-valued term (concatenation of packs / fields) to emitted items, appended to out."""
    t = strip_epoch(t)
    k = t[0]
    if k == 'const' and isinstance(t[1], (bytes, bytearray)):
        for byte in t[1]:
            out.append(Emit('int', 1, ('const', byte), lower_value_bits(('const', byte), 8)))
        return
    if k == 'op' and t[1] == 'Add':
        lower_bytes_expr(t[2], out, atoms, opaque_calls)
        lower_bytes_expr(t[3], out, atoms, opaque_calls)
        return
    if k == 'item' and t[2][0] == 'slice':
        lo, hi, step = t[2][1], t[2][2], t[2][3]
        inner = []
        lower_bytes_expr(t[1], inner, atoms, opaque_calls)
        if lo == ('const', None) and hi == ('const', None):
            out.extend(inner)
            return
        # x[k:] of a single packed integer: drop the k most significant bytes
        if len(inner) == 1 and inner[0].kind == 'int' and hi == ('const', None) and lo[0] == 'const':
            e = inner[0]
            n = e.nbytes - lo[1]
            out.append(Emit('int', n, e.src, e.bits[:8 * n]))
            return
        # x[:k] of a single packed integer: keep the k most significant bytes
        if len(inner) == 1 and inner[0].kind == 'int' and lo == ('const', None) and hi[0] == 'const' and \
                isinstance(hi[1], int) and 0 < hi[1] <= inner[0].nbytes:
            e = inner[0]
            n = hi[1]
            out.append(Emit('int', n, e.src, e.bits[8 * (e.nbytes - n):]))
            return
        raise LayoutError('slice of a packed value: %s' % fmt_term(t))
    if k == 'call':
        name, pos, kw = _call_parts(t)
        base = name.split('.')[-1]
        if name.endswith('struct.pack') and 'cbitstruct' not in name:
            fmt = pos[0]
            if fmt[0] != 'const':
                raise LayoutError('pack with non-literal format')
            fields = struct_fields(fmt[1])
            if len(fields) != len(pos) - 1:
                raise LayoutError('pack %r with %d values' % (fmt[1], len(pos) - 1))
            for (fo, w, signed), v in zip(fields, pos[1:]):
                out.append(Emit('int', w, v, lower_value_bits(v, 8 * w)))
            return
        if 'cbitstruct' in name and base == 'pack':
            fmt = pos[0]
            fields = cbit_fields(fmt[1])
            total = sum(f[1] for f in fields)
            if total % 8:
                raise LayoutError('cbitstruct.pack of %d bits' % total)
            vals = [f for f in fields if f[2] != 'p']
            if len(vals) != len(pos) - 1:
                raise LayoutError('cbitstruct.pack %r with %d values' % (fmt[1], len(pos) - 1))
            bits = [0] * total  # index: LSB first of the whole integer
            it = iter(pos[1:])
            for bo, w, kind in fields:
                if kind == 'p':
                    continue
                v = next(it)
                vb = lower_value_bits(v, w)
                for j in range(w):
                    bits[total - 1 - (bo + w - 1 - j)] = vb[j]
            src = [p for p in pos[1:] if p[0] != 'const']
            out.append(Emit('int', total // 8, src[-1] if src else pos[-1], bits))
            return
        if base == 'to_bytes':
            recv = [a[1] for a in t[2] if isinstance(a, tuple) and a and a[0] == 'recv']
            order = kw.get('byteorder', pos[1] if len(pos) > 1 else ('const', 'big'))
            n = kw.get('length', pos[0] if pos else None)
            if not recv or n is None or n[0] != 'const' or order != ('const', 'big'):
                raise LayoutError('int.to_bytes with non-literal length / byte order')
            out.append(Emit('int', n[1], recv[0], lower_value_bits(recv[0], 8 * n[1])))
            return
        if base in ('bytes', 'bytearray') and len(pos) == 1:
            lower_bytes_expr(pos[0], out, atoms, opaque_calls)
            return
        if base in ('bytes', 'bytearray') and not pos and not kw:
            return  # an empty buffer to accumulate into
        if opaque_calls:
            out.append(Emit('bytes', None, t))
            return
    if k in ('attr', 'param', 'awaited', 'free', 'elem'):
        out.append(Emit('bytes', None, t))
        return
    if k == 'pure' and t[1] in ('encode',):
        out.append(Emit('bytes', None, t[2]))
        return
    if k == 'pure' and t[1] in ('bytes', 'bytearray') and t[2] is None and len(t[3]) == 1:
        lower_bytes_expr(t[3][0], out, atoms, opaque_calls)  # a copy of the accumulated buffer
        return
    raise LayoutError('bytes expression outside the idiom table: %s' % fmt_term(t))


def accumulated_emits(path, atoms: 'Atoms', opaque_calls=True):
    """Items written by a function that builds its result in an accumulator, in order, for both styles:
    `acc = b''; acc += x; ...; return acc` and `acc = bytearray(); acc.append(i); acc += x; acc.extend(y); return
    bytes(acc)`.  Returns None when the returned value is not such an accumulation."""
    if path.value is None:
        return None
    t = strip_epoch(path.value.term)
    if t[0] in ('pure', 'call') and str(t[1]).split('.')[-1] in ('bytes', 'bytearray') and (t[3] if t[0] == 'pure'
                                                                                           else t[2]):
        t = strip_epoch((t[3] if t[0] == 'pure' else t[2])[0])

    def base_of(x):
        x = strip_epoch(x)
        while x[0] == 'op' and x[1] == 'Add':
            x = strip_epoch(x[2])
        return x

    base = base_of(t)
    is_acc = (base[0] == 'const' and base[1] in (b'', bytearray())) or \
        (base[0] == 'call' and str(base[1]).split('.')[-1] in ('bytearray', 'bytes') and not base[2])
    if not is_acc:
        return None
    out: List[Emit] = []
    for e in path.events:
        if e.kind == 'store' and e.data['target'][0] == 'local' and e.data.get('aug') == 'Add':
            v = strip_epoch(e.data['value'].term)
            if v[0] == 'op' and v[1] == 'Add' and base_of(v) == base:
                lower_bytes_expr(v[3], out, atoms, opaque_calls)
        elif e.kind == 'call' and e.data.get('recv') is not None and base_of(e.data['recv'].term) == base and \
                e.data.get('args'):
            if e.data.get('name') == 'append':
                a = e.data['args'][0].term
                out.append(Emit('int', 1, a, lower_value_bits(a, 8)))
            elif e.data.get('name') == 'extend':
                lower_bytes_expr(e.data['args'][0].term, out, atoms, opaque_calls)
    return out
