"""E3: primitive effects.  Slots are discovered from primitives (which attribute the sender peeks,
which dict register_stream stores into ...) so that renaming or extracting a helper does not move a rule."""
import ast
from typing import List, Optional, Dict, Set

from . import AnalysisError
from .index import Repo, ClassInfo, FuncInfo, walk_local
from .interp import Event, Path, AVal

SIGNALS = {'on_next': 'next', 'on_complete': 'complete', 'on_error': 'error', 'on_subscribe': 'subscribe',
           'on_completed': 'complete'}


def _self_attr(node, selfname='self') -> Optional[str]:
    if isinstance(node, ast.Attribute) and isinstance(node.value, ast.Name) and node.value.id == selfname:
        return node.attr
    return None


class Slots:
    """Repository-specific anchors, discovered structurally and checked for presence (fail closed)."""

    def __init__(self, repo: Repo):
        self.repo = repo
        self.Frame = repo.cls('rsocket.frame:Frame')
        self.frame_classes: Dict[str, ClassInfo] = {c.name: c for c in repo.subclasses(self.Frame)}
        self.StreamControl = repo.cls('rsocket.stream_control:StreamControl')
        self.FragmentCache = repo.cls('rsocket.frame_fragment_cache:FrameFragmentCache')
        self.RSocketBase = repo.cls('rsocket.rsocket_base:RSocketBase')
        self.RSocketClient = repo.cls('rsocket.rsocket_client:RSocketClient')
        self.RSocketServer = repo.cls('rsocket.rsocket_server:RSocketServer')
        self.StreamHandler = repo.cls('rsocket.streams.stream_handler:StreamHandler')
        self.Requester = repo.cls('rsocket.handlers.interfaces:Requester')
        self.Disposable = repo.cls('rsocket.disposable:Disposable')
        self.Subscriber = repo.cls('reactivestreams.subscriber:Subscriber')
        self.Subscription = repo.cls('reactivestreams.subscription:Subscription')
        self.Publisher = repo.cls('reactivestreams.publisher:Publisher')
        self.Transport = repo.cls('rsocket.transports.transport:Transport')
        self.stream_table_attr = self._discover_table(self.StreamControl)
        self.cache_table_attr = self._discover_table(self.FragmentCache)
        self.send_queue_attr = self._discover_send_queue()
        self.request_queue_attr = self._discover_request_queue()
        self.handler_classes = self._discover_handlers()

    def _discover_table(self, cls: ClassInfo) -> str:
        """The dict attribute of cls that is written by subscript store (self.X[k] = v)."""
        found = set()
        for f in cls.methods.values():
            for n in walk_local(f.node):
                if isinstance(n, ast.Assign):
                    for t in n.targets:
                        if isinstance(t, ast.Subscript):
                            a = _self_attr(t.value)
                            if a:
                                found.add(a)
        if len(found) != 1:
            raise AnalysisError('cannot identify the table attribute of %s (candidates %s)' % (cls.name, sorted(found)))
        return found.pop()

    def _discover_send_queue(self) -> str:
        """The attribute of RSocketBase on which peek() is called (what the sender drains)."""
        found = set()
        for f in self.RSocketBase.methods.values():
            for n in walk_local(f.node):
                if isinstance(n, ast.Call) and isinstance(n.func, ast.Attribute) and n.func.attr in ('peek',
                                                                                                      'peek_nowait'):
                    a = _self_attr(n.func.value)
                    if a:
                        found.add(a)
        if len(found) != 1:
            raise AnalysisError('cannot identify the send queue of RSocketBase (candidates %s)' % sorted(found))
        return found.pop()

    def _discover_request_queue(self) -> str:
        """The other queue attribute of RSocketBase that receives put_nowait (lease hold queue)."""
        found = set()
        for f in self.RSocketBase.methods.values():
            for n in walk_local(f.node):
                if isinstance(n, ast.Call) and isinstance(n.func, ast.Attribute) and n.func.attr == 'put_nowait':
                    a = _self_attr(n.func.value)
                    if a and a != self.send_queue_attr:
                        found.add(a)
        if len(found) != 1:
            raise AnalysisError('cannot identify the lease hold queue of RSocketBase (candidates %s)' % sorted(found))
        return found.pop()

    def _discover_handlers(self) -> List[ClassInfo]:
        """Concrete StreamHandler subclasses that are instantiated somewhere in the repository."""
        inst = set()
        cands = {c.name: c for c in self.repo.subclasses(self.StreamHandler)}
        for f in self.repo.all_functions():
            for n in walk_local(f.node):
                if isinstance(n, ast.Call):
                    r = self.repo.resolve_expr(f.module, n.func, f.cls) if isinstance(n.func, (ast.Name, ast.Attribute)) \
                        else None
                    if isinstance(r, ClassInfo) and r.name in cands and cands[r.name] is r:
                        inst.add(r)
        out = sorted(inst, key=lambda c: c.qualname)
        if len(out) < 6:
            raise AnalysisError('expected at least 6 instantiated stream handler classes, found %d' % len(out))
        return out

    def is_frame_class(self, c) -> bool:
        return isinstance(c, ClassInfo) and (c is self.Frame or c.is_subclass_of(self.Frame))


# --------------------------------------------------------------------------- event classification

def recv_attr(ev: Event) -> Optional[str]:
    """Attribute name of the receiver of a call event (x.<attr>.m(...))."""
    r = ev.data.get('recv')
    if r is None:
        return None
    t = r.term
    if t[0] == 'attr':
        return t[2]
    if t[0] == 'new':
        return ev.data.get('recv_alias')  # object created on this path and stored to that attribute
    return None


def is_finish(ev: Event, slots: Slots) -> bool:
    """Removal of an entry from the stream table: pop/del on StreamControl's table attribute."""
    if ev.kind == 'call' and ev.data.get('name') in ('pop', '__delitem__', 'clear') and \
            recv_attr(ev) == slots.stream_table_attr and ev.func is not None and ev.func.cls is not None and \
            ev.func.cls.is_subclass_of(slots.StreamControl):
        return True
    return False


def is_absent(ev: Event, slots: Slots) -> bool:
    """The path established that the stream-table entry is not there (`sid in table` evaluated False)."""
    if ev.kind == 'cond' and ev.data.get('value') is False:
        k = ev.data['key']
        if k and k[0] == 'in' and isinstance(k[2], tuple) and len(k[2]) > 2 and k[2][0] == 'attr' and \
                k[2][2] == slots.stream_table_attr:
            return True
    return False


def is_gone(ev: Event, slots: Slots) -> bool:
    return is_finish(ev, slots) or is_absent(ev, slots)


def gone_key(ev: Event, slots: Slots):
    """Term of the table key that is removed / known absent at this event (None when not such an event)."""
    if is_finish(ev, slots):
        return ev.data['args'][0].term if ev.data.get('args') else ('?',)
    if is_absent(ev, slots):
        return ev.data['key'][1]
    return None


def is_cache_remove(ev: Event, slots: Slots) -> bool:
    if ev.kind == 'call' and ev.data.get('name') in ('pop', '__delitem__') and \
            recv_attr(ev) == slots.cache_table_attr and ev.func is not None and ev.func.cls is not None and \
            ev.func.cls.is_subclass_of(slots.FragmentCache):
        return True
    return False


def is_register(ev: Event, slots: Slots) -> bool:
    if ev.kind == 'store' and ev.data.get('target', (None,))[0] == 'item':
        t = ev.data['target'][1]
        if t[0] == 'attr' and t[2] == slots.stream_table_attr and ev.func.cls is not None and \
                ev.func.cls.is_subclass_of(slots.StreamControl):
            return True
    return False


def is_enq_send(ev: Event, slots: Slots) -> bool:
    return ev.kind == 'call' and ev.data.get('name') in ('put_nowait', 'put') and \
        recv_attr(ev) == slots.send_queue_attr


def is_enq_lease(ev: Event, slots: Slots) -> bool:
    return ev.kind == 'call' and ev.data.get('name') in ('put_nowait', 'put') and \
        recv_attr(ev) == slots.request_queue_attr


def is_deq_send(ev: Event, slots: Slots) -> bool:
    return ev.kind == 'call' and ev.data.get('name') in ('get_nowait', 'get') and \
        recv_attr(ev) == slots.send_queue_attr


def build_class(ev: Event, slots: Slots) -> Optional[ClassInfo]:
    if ev.kind == 'new' and slots.is_frame_class(ev.data['cls']):
        return ev.data['cls']
    return None


def signal_kind(ev: Event) -> Optional[str]:
    """'next' | 'complete' | 'error' | 'subscribe' for a call-out to a subscriber (application code)."""
    if ev.kind == 'call' and ev.data.get('name') in SIGNALS and ev.data.get('how') in ('app', 'unknown'):
        return SIGNALS[ev.data['name']]
    return None


def is_app_call(ev: Event) -> bool:
    return ev.kind == 'call' and ev.data.get('how') == 'app'


def is_resolve(ev: Event) -> Optional[str]:
    if ev.kind == 'call' and ev.data.get('name') in ('set_result', 'set_exception') and ev.data.get('how') in (
            'external', 'unknown', 'app'):
        return ev.data['name']
    return None


def is_cancel_call(ev: Event) -> bool:
    return ev.kind == 'call' and ev.data.get('name') == 'cancel' and ev.data.get('how') in ('app', 'unknown',
                                                                                           'external')


def is_spawn(ev: Event) -> bool:
    return ev.kind == 'call' and ev.data.get('name', '').split('.')[-1] in ('create_task', 'ensure_future')


def effects_of_path(p: Path, slots: Slots) -> List[tuple]:
    """Ordered list of (effect, event) for the effect kinds the rules use."""
    out = []
    for e in p.events:
        if is_finish(e, slots):
            out.append(('FINISH', e))
        elif is_cache_remove(e, slots):
            out.append(('CACHE_REMOVE', e))
        elif is_register(e, slots):
            out.append(('REGISTER', e))
        elif is_enq_send(e, slots):
            out.append(('ENQ', e))
        elif is_enq_lease(e, slots):
            out.append(('ENQ_LEASE', e))
        elif build_class(e, slots) is not None:
            out.append(('BUILD:' + build_class(e, slots).name, e))
        elif signal_kind(e):
            out.append(('SIGNAL:' + signal_kind(e), e))
        elif is_resolve(e):
            out.append(('RESOLVE', e))
        elif is_cancel_call(e):
            out.append(('CANCEL', e))
        elif is_spawn(e):
            out.append(('SPAWN', e))
        elif e.kind == 'await':
            out.append(('AWAIT', e))
        elif e.kind == 'raise':
            out.append(('RAISE', e))
    return out


def path_has(p: Path, pred) -> bool:
    return any(pred(e) for e in p.events)


def term_root(t):
    """Strip attribute/await wrappers to the root of a provenance term."""
    while isinstance(t, tuple) and t and t[0] in ('attr', 'awaited'):
        t = t[1]
    return t


def strip_epoch(t):
    """Provenance comparison ignores the epoch tag of mutable attribute reads."""
    if isinstance(t, tuple):
        if t and t[0] == 'attr' and len(t) == 4:
            return ('attr', strip_epoch(t[1]), t[2])
        return tuple(strip_epoch(x) for x in t)
    if isinstance(t, AVal):
        return strip_epoch(t.term)
    return t
