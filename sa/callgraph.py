"""E2: resolved call graph.  Every function of the analysed packages is interpreted without inlining
(receiver types from the index: self is 'this class or a subclass'), and the resolved targets of its call
sites become edges.  Constructor calls give an edge to __init__; calls resolved by unique name are edges too."""
from typing import Dict, Set, List

from . import AnalysisError
from .index import FuncInfo
from .interp import Interp, Options

SKIP_MODULES = ('rsocket.cli', 'rsocket.frame_logger')


class CallGraph:
    def __init__(self, repo):
        self.repo = repo
        self.edges: Dict[FuncInfo, Set[FuncInfo]] = {}
        self.sites: Dict[FuncInfo, List[tuple]] = {}  # callee -> [(caller, call node)]
        self.unresolved = 0
        self.resolved = 0
        self.external = 0
        self.failed: List[str] = []
        self._build()

    def _build(self):
        for f in self.repo.all_functions():
            if f.module.name.startswith(SKIP_MODULES):
                continue
            it = Interp(self.repo, Options(inline_depth=1, max_paths=4000))
            try:
                paths = it.run(f, f.cls, self_exact=False)
            except AnalysisError as e:
                self.failed.append('%s: %s' % (f.qualname, e))
                continue
            out = self.edges.setdefault(f, set())
            seen_nodes = set()
            for p in paths:
                for e in p.events:
                    targets = []
                    if e.kind == 'call':
                        how = e.data.get('how')
                        targets = list(e.data.get('targets') or [])
                        key = (id(e.node), how)
                        if key not in seen_nodes:
                            seen_nodes.add(key)
                            if targets:
                                self.resolved += 1
                            elif how == 'external':
                                self.external += 1
                            else:
                                self.unresolved += 1
                    elif e.kind == 'new':
                        init = e.data['cls'].lookup('__init__')
                        if init is not None:
                            targets = [init]
                    elif e.kind == 'byname':
                        targets = [e.data['target']]
                    for t in targets:
                        out.add(t)
                        self.sites.setdefault(t, [])
                        if (f, e.node) not in self.sites[t]:
                            self.sites[t].append((f, e.node))

    def callers(self, g: FuncInfo) -> List[tuple]:
        return list(self.sites.get(g, []))

    def callees(self, f: FuncInfo) -> Set[FuncInfo]:
        return self.edges.get(f, set())

    def reachable_from(self, f: FuncInfo, limit=500) -> Set[FuncInfo]:
        seen = set()
        work = [f]
        while work and len(seen) < limit:
            g = work.pop()
            if g in seen:
                continue
            seen.add(g)
            work.extend(self.callees(g))
        return seen

    def reaching(self, g: FuncInfo, limit=500) -> Set[FuncInfo]:
        seen = set()
        work = [g]
        while work and len(seen) < limit:
            x = work.pop()
            if x in seen:
                continue
            seen.add(x)
            work.extend(c for c, _ in self.callers(x))
        return seen


def callgraph(ctx) -> CallGraph:
    if 'callgraph' not in ctx.cache:
        ctx.cache['callgraph'] = CallGraph(ctx.repo)
    return ctx.cache['callgraph']
