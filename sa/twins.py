"""Generic behaviour-preserving source transformations (twin generators) used to test that no rule depends on
incidental text: local names, statement formatting, if/else orientation, presence of logging, temporaries."""
import ast
import builtins
from typing import Dict, Set


def _locals_of(fn) -> Set[str]:
    """Names bound by assignment / for / with / except / comprehension inside fn (not parameters, not nested defs'
    own locals), excluding names declared global/nonlocal."""
    bound = set()
    skip = set()

    def visit(node, top=True):
        for ch in ast.iter_child_nodes(node):
            if isinstance(ch, (ast.FunctionDef, ast.AsyncFunctionDef, ast.ClassDef)):
                bound.discard(ch.name)
                skip.add(ch.name)  # nested def names are kept (rules may anchor on them)
                continue
            if isinstance(ch, ast.Lambda):
                visit(ch, False)
                continue
            if isinstance(ch, (ast.Global, ast.Nonlocal)):
                skip.update(ch.names)
            if isinstance(ch, ast.Name) and isinstance(ch.ctx, ast.Store):
                bound.add(ch.id)
            if isinstance(ch, ast.ExceptHandler) and ch.name:
                bound.add(ch.name)
            visit(ch, False)

    visit(fn)
    a = fn.args
    params = {x.arg for x in a.posonlyargs + a.args + a.kwonlyargs}
    if a.vararg:
        params.add(a.vararg.arg)
    if a.kwarg:
        params.add(a.kwarg.arg)
    return {n for n in bound if n not in params and n not in skip and not n.startswith('__')}


class _Renamer(ast.NodeTransformer):
    def __init__(self, mapping: Dict[str, str]):
        self.mapping = mapping

    def visit_Name(self, node):
        if node.id in self.mapping:
            return ast.copy_location(ast.Name(id=self.mapping[node.id], ctx=node.ctx), node)
        return node

    def visit_ExceptHandler(self, node):
        self.generic_visit(node)
        if node.name in self.mapping:
            node.name = self.mapping[node.name]
        return node

    def _nested(self, node):
        # a nested function that rebinds a name as its own parameter/local shadows it: do not rename inside
        a = node.args
        own = {x.arg for x in a.posonlyargs + a.args + a.kwonlyargs}
        if a.vararg:
            own.add(a.vararg.arg)
        if a.kwarg:
            own.add(a.kwarg.arg)
        if not isinstance(node, ast.Lambda):
            own |= _locals_of(node)
        sub = {k: v for k, v in self.mapping.items() if k not in own}
        if isinstance(node, ast.Lambda):
            node.body = _Renamer(sub).visit(node.body)
        else:
            node.body = [_Renamer(sub).visit(s) for s in node.body]
        return node

    def visit_FunctionDef(self, node):
        return self._nested(node)

    visit_AsyncFunctionDef = visit_FunctionDef
    visit_Lambda = _nested


def rename_locals(src: str) -> str:
    tree = ast.parse(src)
    taken = set(dir(builtins))
    for n in ast.walk(tree):
        if isinstance(n, ast.Name):
            taken.add(n.id)

    def do_fn(fn):
        names = _locals_of(fn)
        mapping = {}
        for n in sorted(names):
            new = n + '_rn'
            while new in taken:
                new += '_'
            mapping[n] = new
        if mapping:
            fn.body = [_Renamer(mapping).visit(s) for s in fn.body]
        # nested functions get their own renaming
        for sub in ast.walk(fn):
            if sub is not fn and isinstance(sub, (ast.FunctionDef, ast.AsyncFunctionDef)):
                pass

    fns = [n for n in ast.walk(tree) if isinstance(n, (ast.FunctionDef, ast.AsyncFunctionDef))]
    # outermost first so that closures are renamed consistently, then inner functions' own locals
    for fn in fns:
        do_fn(fn)
    ast.fix_missing_locations(tree)
    return ast.unparse(tree) + '\n'


def reformat(src: str) -> str:
    return ast.unparse(ast.parse(src)) + '\n'


class _IfInverter(ast.NodeTransformer):
    def visit_If(self, node):
        self.generic_visit(node)
        if node.orelse and not (len(node.orelse) == 1 and isinstance(node.orelse[0], ast.If)):
            # plain if/else: swap the arms under the negated test
            test = node.test
            if isinstance(test, ast.UnaryOp) and isinstance(test.op, ast.Not):
                new_test = test.operand
            else:
                new_test = ast.UnaryOp(op=ast.Not(), operand=test)
            return ast.copy_location(ast.If(test=new_test, body=node.orelse, orelse=node.body), node)
        return node


def invert_ifs(src: str) -> str:
    tree = _IfInverter().visit(ast.parse(src))
    ast.fix_missing_locations(tree)
    return ast.unparse(tree) + '\n'


class _LogInserter(ast.NodeTransformer):
    def __init__(self, has_logger):
        self.has_logger = has_logger

    def _do(self, node):
        self.generic_visit(node)
        if any(isinstance(n, (ast.Yield, ast.YieldFrom)) for n in ast.walk(node)) and False:
            return node
        stmt = ast.parse("logger().debug('trace %s', %r)" % ('%s', node.name)).body[0] if self.has_logger else \
            ast.parse("len(%r)" % node.name).body[0]
        body = list(node.body)
        i = 0
        if body and isinstance(body[0], ast.Expr) and isinstance(body[0].value, ast.Constant) and \
                isinstance(body[0].value.value, str):
            i = 1
        node.body = body[:i] + [stmt] + body[i:]
        return node

    visit_FunctionDef = _do
    visit_AsyncFunctionDef = _do


def insert_logging(src: str) -> str:
    tree = ast.parse(src)
    has = any(isinstance(n, ast.ImportFrom) and any(a.name == 'logger' for a in n.names) for n in tree.body)
    tree = _LogInserter(has).visit(tree)
    ast.fix_missing_locations(tree)
    return ast.unparse(tree) + '\n'


class _ReturnTemp(ast.NodeTransformer):
    def __init__(self):
        self.n = 0

    def visit_FunctionDef(self, node):
        self.generic_visit(node)
        node.body = self._block(node.body)
        return node

    visit_AsyncFunctionDef = visit_FunctionDef

    def _block(self, stmts):
        out = []
        for s in stmts:
            for field in ('body', 'orelse', 'finalbody'):
                if hasattr(s, field) and isinstance(getattr(s, field), list) and not isinstance(
                        s, (ast.FunctionDef, ast.AsyncFunctionDef, ast.ClassDef)):
                    setattr(s, field, self._block(getattr(s, field)))
            if hasattr(s, 'handlers'):
                for h in s.handlers:
                    h.body = self._block(h.body)
            if isinstance(s, ast.Return) and s.value is not None and not isinstance(s.value, (ast.Name, ast.Constant)):
                self.n += 1
                name = '_ret_tmp'
                out.append(ast.copy_location(ast.Assign(targets=[ast.Name(id=name, ctx=ast.Store())], value=s.value),
                                             s))
                out.append(ast.copy_location(ast.Return(value=ast.Name(id=name, ctx=ast.Load())), s))
            else:
                out.append(s)
        return out


def return_temporaries(src: str) -> str:
    tree = _ReturnTemp().visit(ast.parse(src))
    ast.fix_missing_locations(tree)
    return ast.unparse(tree) + '\n'


class _SplitConjunctions(ast.NodeTransformer):
    """`if a and b: X` (no else)  ->  `if a:` `if b: X`"""

    def visit_If(self, node):
        self.generic_visit(node)
        if not node.orelse and isinstance(node.test, ast.BoolOp) and isinstance(node.test.op, ast.And) and \
                len(node.test.values) == 2:
            inner = ast.If(test=node.test.values[1], body=node.body, orelse=[])
            return ast.copy_location(ast.If(test=node.test.values[0], body=[inner], orelse=[]), node)
        return node


def split_conjunctions(src: str) -> str:
    tree = _SplitConjunctions().visit(ast.parse(src))
    ast.fix_missing_locations(tree)
    return ast.unparse(tree) + '\n'


class _WhileTrue(ast.NodeTransformer):
    """`while c: B` (no else, c not a constant)  ->  `while True:` `if not c: break` B"""

    def visit_While(self, node):
        self.generic_visit(node)
        if node.orelse or isinstance(node.test, ast.Constant):
            return node
        guard = ast.If(test=ast.UnaryOp(op=ast.Not(), operand=node.test), body=[ast.Break()], orelse=[])
        return ast.copy_location(ast.While(test=ast.Constant(value=True), body=[guard] + node.body, orelse=[]), node)


def while_true(src: str) -> str:
    tree = _WhileTrue().visit(ast.parse(src))
    ast.fix_missing_locations(tree)
    return ast.unparse(tree) + '\n'


class _ExpandAugAssign(ast.NodeTransformer):
    """`x += <int literal>` / `x -= <int literal>` on a plain local name  ->  `x = x + k`"""

    def visit_AugAssign(self, node):
        if isinstance(node.target, ast.Name) and isinstance(node.op, (ast.Add, ast.Sub)) and \
                isinstance(node.value, ast.Constant) and isinstance(node.value.value, int) and \
                not isinstance(node.value.value, bool):
            return ast.copy_location(ast.Assign(
                targets=[ast.Name(id=node.target.id, ctx=ast.Store())],
                value=ast.BinOp(left=ast.Name(id=node.target.id, ctx=ast.Load()), op=node.op, right=node.value)), node)
        return node


def expand_augassign(src: str) -> str:
    tree = _ExpandAugAssign().visit(ast.parse(src))
    ast.fix_missing_locations(tree)
    return ast.unparse(tree) + '\n'


class _HoistFirstArgument(ast.NodeTransformer):
    """`f(g(x), ...)` as a statement / assignment value / return value, g(x) the first argument and itself a call
    ->  `_arg_N = g(x)` `f(_arg_N, ...)`.  The callee expression of f is a name or an attribute chain (no side
    effects), so the evaluation order is unchanged."""

    def __init__(self):
        self.n = 0

    def _simple_callee(self, f):
        while isinstance(f, ast.Attribute):
            f = f.value
        return isinstance(f, ast.Name)

    def _hoist(self, call):
        if isinstance(call, ast.Call) and self._simple_callee(call.func) and call.args and \
                isinstance(call.args[0], ast.Call) and not isinstance(call.args[0].func, ast.Lambda):
            inner = call.args[0]
            if any(isinstance(x, (ast.Await, ast.Yield, ast.YieldFrom, ast.NamedExpr)) for x in ast.walk(inner)):
                return None
            if isinstance(call.func, ast.Name) and call.func.id in ('super', 'isinstance', 'len'):
                return None
            self.n += 1
            name = '_arg_%d' % self.n
            pre = ast.Assign(targets=[ast.Name(id=name, ctx=ast.Store())], value=inner)
            call.args[0] = ast.Name(id=name, ctx=ast.Load())
            return pre
        return None

    def _block(self, stmts):
        out = []
        for st in stmts:
            for field in ('body', 'orelse', 'finalbody'):
                if hasattr(st, field) and isinstance(getattr(st, field), list) and not isinstance(
                        st, (ast.FunctionDef, ast.AsyncFunctionDef, ast.ClassDef)):
                    setattr(st, field, self._block(getattr(st, field)))
            if isinstance(st, ast.Try):
                for h in st.handlers:
                    h.body = self._block(h.body)
            pre = None
            if isinstance(st, ast.Expr):
                pre = self._hoist(st.value)
            elif isinstance(st, ast.Assign) and len(st.targets) == 1:
                pre = self._hoist(st.value)
            elif isinstance(st, ast.Return) and st.value is not None:
                pre = self._hoist(st.value)
            if pre is not None:
                out.append(ast.copy_location(pre, st))
            out.append(st)
        return out

    def visit_FunctionDef(self, node):
        self.generic_visit(node)
        node.body = self._block(node.body)
        return node

    visit_AsyncFunctionDef = visit_FunctionDef


def hoist_first_argument(src: str) -> str:
    tree = _HoistFirstArgument().visit(ast.parse(src))
    ast.fix_missing_locations(tree)
    return ast.unparse(tree) + '\n'


class _GuardClause(ast.NodeTransformer):
    """a function whose last statement is `if c: BODY` (no else) and that returns nothing  ->  `if not c: return` BODY"""

    def visit_FunctionDef(self, node):
        self.generic_visit(node)
        if any(isinstance(n, (ast.Yield, ast.YieldFrom)) for n in ast.walk(node)):
            return node
        last = node.body[-1] if node.body else None
        if isinstance(last, ast.If) and not last.orelse and len(node.body) > 1 and \
                not any(isinstance(n, ast.Return) and n.value is not None for n in ast.walk(node)):
            guard = ast.If(test=ast.UnaryOp(op=ast.Not(), operand=last.test), body=[ast.Return(value=None)], orelse=[])
            node.body = node.body[:-1] + [ast.copy_location(guard, last)] + last.body
        return node

    visit_AsyncFunctionDef = visit_FunctionDef


def guard_clauses(src: str) -> str:
    tree = _GuardClause().visit(ast.parse(src))
    ast.fix_missing_locations(tree)
    return ast.unparse(tree) + '\n'



class _LoopContinue(ast.NodeTransformer):
    """a loop body that ends in `if c: BODY` (no else)  ->  `if not c: continue` BODY"""

    def _do(self, node):
        self.generic_visit(node)
        last = node.body[-1] if node.body else None
        if isinstance(last, ast.If) and not last.orelse and not node.orelse:
            guard = ast.If(test=ast.UnaryOp(op=ast.Not(), operand=last.test), body=[ast.Continue()], orelse=[])
            node.body = node.body[:-1] + [ast.copy_location(guard, last)] + last.body
        return node

    visit_For = _do
    visit_AsyncFor = _do
    visit_While = _do


def loop_continue(src: str) -> str:
    tree = _LoopContinue().visit(ast.parse(src))
    ast.fix_missing_locations(tree)
    return ast.unparse(tree) + '\n'


class _ElseAfterReturn(ast.NodeTransformer):
    """`if c: ...; return/raise/continue/break` `else: REST`  ->  the if without else, followed by REST"""

    def _block(self, stmts):
        out = []
        for st in stmts:
            for field in ('body', 'orelse', 'finalbody'):
                if hasattr(st, field) and isinstance(getattr(st, field), list) and not isinstance(
                        st, (ast.FunctionDef, ast.AsyncFunctionDef, ast.ClassDef)):
                    setattr(st, field, self._block(getattr(st, field)))
            if isinstance(st, ast.Try):
                for h in st.handlers:
                    h.body = self._block(h.body)
            if isinstance(st, ast.If) and st.orelse and st.body and isinstance(
                    st.body[-1], (ast.Return, ast.Raise, ast.Continue, ast.Break)):
                rest = st.orelse
                st.orelse = []
                out.append(st)
                out.extend(rest)
            else:
                out.append(st)
        return out

    def visit_FunctionDef(self, node):
        self.generic_visit(node)
        node.body = self._block(node.body)
        return node

    visit_AsyncFunctionDef = visit_FunctionDef


def else_after_return(src: str) -> str:
    tree = _ElseAfterReturn().visit(ast.parse(src))
    ast.fix_missing_locations(tree)
    return ast.unparse(tree) + '\n'


# not in the default set: the path interpreter unrolls a loop once and decides the exit at the loop head, so a loop
# rewritten as `while True: if not c: break` puts the exit beyond its horizon; the rules that read loop tests answer
# with an analysis error (exit 2) on such a tree, not with a verdict.  Kept for `twin_sweep.py --transforms while-true`.
OPTIONAL_TRANSFORMS = {'while-true': while_true}


TRANSFORMS = {
    'reformat': reformat,
    'rename-locals': rename_locals,
    'invert-ifs': invert_ifs,
    'insert-logging': insert_logging,
    'return-temporaries': return_temporaries,
    'split-conjunctions': split_conjunctions,
    'expand-augassign': expand_augassign,
    'hoist-first-argument': hoist_first_argument,
    'guard-clauses': guard_clauses,
    'loop-continue': loop_continue,
    'else-after-return': else_after_return,
}
