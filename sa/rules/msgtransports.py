"""The message transports tell the receiver when their connection ends.

`AbstractMessagingTransport.next_frame_generator` blocks on the incoming queue: unlike the byte-stream transport, which
sees EOF in its own read, a message transport's receiver learns that the connection is gone only if the code that
feeds the queue puts an exception into it when it stops feeding.  Without that item the endpoint never runs its close
sequence: pending requests hang, publishers keep running, on_close is never delivered (C11).

For every concrete subclass of AbstractMessagingTransport the feeder - the function that puts decoded frames into the
incoming queue - is located, and a small exit analysis decides, for each way out of it (fall-through / return, an
exception from the network read or the decoder, cancellation of the task that runs it), whether an exception item was
put into the queue on the way.  Cancellation is exempt only when the feeder is a task the transport itself owns and
cancels from its own close().

This decides the shape of the feeders; that the websocket library really ends its iteration (or raises) when the peer
goes away is the libraries' contract."""
import ast

from .. import AnalysisError
from ..index import walk_local, ClassInfo

NORMAL, ERROR, CANCEL = 'normal end', 'exception', 'cancellation'


def _is_incoming_queue(e):
    return isinstance(e, ast.Attribute) and e.attr == '_incoming_frame_queue'


def _exception_classes(repo):
    out = set()
    for k in repo.all_classes():
        names = [b for c in k.mro() for b in c.external_bases()]
        if any(n.split('.')[-1] in ('Exception', 'BaseException') or n.endswith('Error') for n in names):
            out.add(k.name)
    return out


class _Exits:
    """Abstract execution of a statement list: state = 'an exception item has been put into the incoming queue'.
    Returns {(kind, signalled)} for the ways control can leave the list; kind 'fall' = falls through."""

    def __init__(self, exc_names, exception_vars):
        self.exc_names = exc_names
        self.exception_vars = exception_vars

    def is_signal(self, st):
        for n in ast.walk(st):
            if isinstance(n, ast.Call) and isinstance(n.func, ast.Attribute) and n.func.attr in ('put_nowait', 'put') \
                    and _is_incoming_queue(n.func.value) and n.args:
                a = n.args[0]
                if isinstance(a, ast.Call):
                    f = a.func
                    name = f.id if isinstance(f, ast.Name) else (f.attr if isinstance(f, ast.Attribute) else '')
                    if name in self.exc_names or name in ('Exception', 'ConnectionError', 'EOFError'):
                        return True
                if isinstance(a, ast.Name) and a.id in self.exception_vars:
                    return True
        return False

    @staticmethod
    def _cancel_only(n):
        """awaits on asyncio primitives (Event.wait, Queue.get, sleep) end by cancellation or normally, never by
        another exception"""
        return isinstance(n, ast.Await) and isinstance(n.value, ast.Call) and \
            isinstance(n.value.func, ast.Attribute) and n.value.func.attr in ('wait', 'get', 'sleep', 'join') and \
            not n.value.args

    @classmethod
    def may_raise(cls, st):
        """does executing this statement involve the network or the decoder (an await or an async iteration; plain
        calls - logging, put_nowait on the unbounded queue, set_result - are taken not to raise)"""
        for n in ast.walk(st):
            if isinstance(n, (ast.AsyncFor, ast.AsyncWith, ast.Raise)):
                return True
            if isinstance(n, ast.Await) and not cls._cancel_only(n):
                return True
        return False

    @staticmethod
    def may_suspend(st):
        for n in ast.walk(st):
            if isinstance(n, (ast.Await, ast.AsyncFor, ast.AsyncWith)):
                return True
        return False

    def block(self, stmts, sig):
        """-> set of (kind, signalled); kind in fall/return/break/continue/ERROR/CANCEL"""
        out = set()
        states = {sig}
        for st in stmts:
            nxt = set()
            for s in states:
                for kind, s2 in self.stmt(st, s):
                    if kind == 'fall':
                        nxt.add(s2)
                    else:
                        out.add((kind, s2))
            states = nxt
            if not states:
                break
        for s in states:
            out.add(('fall', s))
        return out

    def simple(self, st, sig):
        out = set()
        if self.may_raise(st):
            out.add((ERROR, sig))
        if self.may_suspend(st):
            out.add((CANCEL, sig))
        out.add(('fall', (sig[0] or self.is_signal(st), sig[1])))
        return out

    def stmt(self, st, sig):
        if isinstance(st, ast.Return):
            r = set()
            if st.value is not None and self.may_raise(st.value):
                r.add((ERROR, sig))
            r.add(('return', sig))
            return r
        if isinstance(st, ast.Break):
            return {('break', sig)}
        if isinstance(st, ast.Continue):
            return {('continue', sig)}
        if isinstance(st, ast.Raise):
            return {(ERROR, sig)}
        if isinstance(st, ast.If):
            out = set()
            if self.may_raise(st.test):
                out.add((ERROR, sig))
            out |= self.block(st.body, sig)
            out |= self.block(st.orelse, sig) if st.orelse else {('fall', sig)}
            return out
        if isinstance(st, (ast.While, ast.For, ast.AsyncFor)):
            out = set()
            header = st.test if isinstance(st, ast.While) else st.iter
            if self.may_raise(header) or isinstance(st, ast.AsyncFor):
                out.add((ERROR, sig))
            if isinstance(st, ast.AsyncFor) or self.may_suspend(header):
                out.add((CANCEL, sig))
            infinite = isinstance(st, ast.While) and isinstance(st.test, ast.Constant) and st.test.value is True
            body = self.block(st.body, sig)
            sigs_after_body = {s for k, s in body if k in ('fall', 'continue')}
            # second round with the states the body can leave behind
            for s in sigs_after_body - {sig}:
                body |= self.block(st.body, s)
            for k, s in body:
                if k == 'break':
                    out.add(('fall', s))
                elif k in ('fall', 'continue'):
                    if not infinite:
                        out.add(('fall', s))
                else:
                    out.add((k, s))
            if not infinite:
                out.add(('fall', sig))
            if st.orelse:
                res = set()
                for k, s in out:
                    if k == 'fall':
                        res |= self.block(st.orelse, s)
                    else:
                        res.add((k, s))
                out = res
            return out
        if isinstance(st, (ast.With, ast.AsyncWith)):
            out = self.block(st.body, sig)
            out.add((ERROR, sig))
            if isinstance(st, ast.AsyncWith):
                out.add((CANCEL, sig))
            return out
        if isinstance(st, ast.Try):
            body = self.block(st.body, sig)
            after = set()
            for k, s in body:
                if k in (ERROR, CANCEL):
                    caught = False
                    for h in st.handlers:
                        t = ast.unparse(h.type) if h.type is not None else 'BaseException'
                        names = [x.strip().split('.')[-1] for x in t.strip('()').split(',')]
                        catches_cancel = any(n in ('BaseException', 'CancelledError') for n in names)
                        catches_error = any(n in ('BaseException', 'Exception') for n in names)
                        specific = not catches_cancel and not catches_error
                        if k == CANCEL and catches_cancel or k == ERROR and catches_error:
                            after |= self.block(h.body, (s[0], s[1] or k))
                            caught = True
                            break
                        if k == ERROR and specific:
                            # a handler for one exception class: some errors go this way, the rest go on
                            after |= self.block(h.body, (s[0], s[1] or k))
                    if not caught:
                        after.add((k, s))
                elif k == 'fall' and st.orelse:
                    after |= self.block(st.orelse, s)
                else:
                    after.add((k, s))
            if st.finalbody:
                res = set()
                for k, s in after:
                    for k2, s2 in self.block(st.finalbody, s):
                        if k2 == 'fall':
                            res.add((k, s2))
                        else:
                            res.add((k2, s2))
                after = res
            return after
        if isinstance(st, (ast.FunctionDef, ast.AsyncFunctionDef, ast.ClassDef)):
            return {('fall', sig)}
        return self.simple(st, sig)


def _exception_locals(fn, exc_names):
    """local names that are only ever assigned a freshly constructed exception"""
    vals = {}
    for n in ast.walk(fn.node):
        if isinstance(n, ast.Assign) and len(n.targets) == 1 and isinstance(n.targets[0], ast.Name):
            v = n.value
            good = isinstance(v, ast.Call) and (
                (isinstance(v.func, ast.Name) and v.func.id in exc_names) or
                (isinstance(v.func, ast.Attribute) and v.func.attr in exc_names))
            vals.setdefault(n.targets[0].id, []).append(good)
    return {k for k, v in vals.items() if v and all(v)}


def feeder_exits(fn, exc_names):
    """{exit kind: all signalled?} for a feeder function"""
    exception_vars = set()
    for n in ast.walk(fn.node):
        if isinstance(n, ast.Call) and isinstance(n.func, ast.Name) and n.func.id == 'isinstance' and len(n.args) == 2 \
                and isinstance(n.args[0], ast.Name) and 'Exception' in ast.unparse(n.args[1]):
            exception_vars.add(n.args[0].id)
        if isinstance(n, ast.ExceptHandler) and n.name:
            exception_vars.add(n.name)
    exception_vars |= _exception_locals(fn, exc_names)
    ex = _Exits(exc_names, exception_vars)
    res = ex.block(fn.node.body, (False, None))
    out = {}
    for k, (s, cause) in res:
        if k in ('break', 'continue'):
            continue
        kind = (cause or NORMAL) if k in ('fall', 'return') else k
        out[kind] = out.get(kind, True) and s
    return out


def escaping_exits(fn, exc_names=frozenset()):
    """kinds of exit (ERROR / CANCEL) that can leave the function uncaught, from awaits and async iteration in it"""
    ex = _Exits(set(exc_names), set())
    res = ex.block(fn.node.body, (False, None))
    return sorted({k for k, _ in res if k in (ERROR, CANCEL)})


def _feeders(repo, cls):
    """functions of the transport's module that put decoded frames (the items of receive_data) into the queue"""
    out = []
    mod = cls.module
    for fn in repo.all_functions():
        if fn.module is not mod:
            continue
        for n in walk_local(fn.node):
            if isinstance(n, (ast.AsyncFor, ast.For)) and 'receive_data' in ast.unparse(n.iter) and \
                    isinstance(n.target, ast.Name):
                for c in ast.walk(n):
                    if isinstance(c, ast.Call) and isinstance(c.func, ast.Attribute) and \
                            c.func.attr in ('put_nowait', 'put') and _is_incoming_queue(c.func.value) and c.args and \
                            isinstance(c.args[0], ast.Name) and c.args[0].id == n.target.id:
                        if fn not in out:
                            out.append(fn)
    return out


def _owned_task(repo, cls, fn):
    """the feeder runs only as a task the transport creates for itself and cancels from close() alone"""
    if fn.cls is None:
        return False
    name = fn.node.name
    attr = None
    refs = 0
    for k in [fn.cls]:
        for m in k.methods.values():
            for n in walk_local(m.node):
                if isinstance(n, ast.Attribute) and n.attr == name and isinstance(n.value, ast.Name) and \
                        n.value.id == 'self':
                    refs += 1
                if isinstance(n, ast.Assign) and isinstance(n.value, ast.Call) and \
                        'create_task' in ast.unparse(n.value.func) and isinstance(n.targets[0], ast.Attribute):
                    from ..astutil import resolve_temp
                    what = ' '.join(ast.unparse(resolve_temp(m.node, a)) for a in n.value.args)
                    if name in what:
                        attr = n.targets[0].attr
    if attr is None or refs != 1:
        return False
    # referenced from outside the class (a handler awaiting it) -> not owned
    for g in repo.all_functions():
        if g.module is fn.module and g.cls is not fn.cls:
            built = {}
            for n in ast.walk(g.node):
                if isinstance(n, ast.Assign) and len(n.targets) == 1 and isinstance(n.targets[0], ast.Name) and \
                        isinstance(n.value, ast.Call) and isinstance(n.value.func, ast.Name):
                    built[n.targets[0].id] = n.value.func.id
            for n in ast.walk(g.node):
                if isinstance(n, ast.Attribute) and n.attr == name:
                    recv_cls = built.get(n.value.id) if isinstance(n.value, ast.Name) else None
                    if recv_cls is None or recv_cls == fn.cls.name:
                        return False
    cancellers = [m.node.name for m in fn.cls.methods.values() for n in walk_local(m.node)
                  if isinstance(n, ast.Call) and attr in ast.unparse(n) and 'cancel' in ast.unparse(n.func)]
    return bool(cancellers) and set(cancellers) <= {'close'}


def rule_connection_end_signalled(ctx, rule='C11.k'):
    rep = ctx.report
    repo = ctx.repo
    base = repo.cls('rsocket.transports.abstract_messaging:AbstractMessagingTransport')
    impls = repo.concrete_subclasses(base, include_self=False)
    if len(impls) < 7:
        raise AnalysisError('%s: %d message transports found, 8 confirmed by hand' % (rule, len(impls)))
    exc_names = _exception_classes(repo)
    if 'RSocketTransportError' not in exc_names:
        raise AnalysisError('%s: RSocketTransportError is not recognised as an exception class' % rule)
    n_feeders = 0
    seen = set()
    for k in sorted(impls, key=lambda c: c.qualname):
        feeders = _feeders(repo, k)
        if not feeders:
            raise AnalysisError('%s: no function feeds the incoming queue of %s' % (rule, k.name))
        for fn in feeders:
            if fn.qualname in seen:
                continue
            seen.add(fn.qualname)
            n_feeders += 1
            loops = [n for n in walk_local(fn.node) if isinstance(n, (ast.While, ast.AsyncFor)) and
                     any(isinstance(c, ast.AsyncFor) and 'receive_data' in ast.unparse(c.iter) for c in ast.walk(n))
                     and not (isinstance(n, ast.AsyncFor) and 'receive_data' in ast.unparse(n.iter))]
            if not loops:
                # call-back style (the framework calls the feeder once per message): the end of the connection is
                # another call-back of the same class, which must signal
                owner = fn.cls
                enders = [m for m in (owner.methods.values() if owner is not None else ())
                          if m.node.name in ('disconnect', 'connection_lost', 'websocket_disconnect', 'on_close')]
                ok = False
                for m in enders:
                    ex = _Exits(exc_names, _exception_locals(m, exc_names))
                    if any(ex.is_signal(st) for st in m.node.body):
                        ok = True
                rep.add(rule, '%s / end of the connection reaches the receiver' % fn.short, fn, ok,
                        'the disconnect call-back puts an exception into the incoming queue' if ok else
                        'frames are fed from a per-message call-back (%s) and the disconnect call-back (%s) puts '
                        'nothing into the incoming queue: after the peer leaves, the receiver waits for ever - no '
                        'close sequence, pending requests hang' % (
                            fn.node.name, ', '.join(m.node.name for m in enders) or 'none found'))
                continue
            exits = feeder_exits(fn, exc_names)
            owned = _owned_task(repo, k, fn)
            for kind in (NORMAL, ERROR, CANCEL):
                if kind not in exits:
                    continue
                if kind == CANCEL and owned:
                    rep.add(rule, '%s / %s reaches the receiver' % (fn.short, kind), fn, True,
                            'the feeder is a task the transport creates and cancels only from its own close()',
                            nontrivial=False)
                    continue
                ok = exits[kind]
                rep.add(rule, '%s / %s reaches the receiver' % (fn.short, kind), fn, ok,
                        'an exception item is put into the incoming queue on every such exit' if ok else
                        'the feeder can stop by %s without putting an exception into the incoming queue: the '
                        'receiver keeps waiting, the close sequence never runs (pending requests hang, no on_close)'
                        % kind)
    rep.require(rule, 'feeders of message transports', n_feeders, 7)


# ------------------------------------------------------------------------------------------ only bytes reach the parser
BYTES_ONLY_CALLS = ('receive_bytes', 'recv_bytes', 'read', 'readexactly')


def _bytes_evidence(fn, loop_for, expr):
    """Why the expression handed to receive_data can only be bytes, or None.  Accepted evidence (enumerated from the
    transports of this repository): a dominating test of the message type against a ...BINARY constant, a dominating
    isinstance test naming bytes / a Bytes* event class / a *DataReceived event class, a dominating truth test of a
    parameter called bytes_data, or a value produced by an API that returns bytes only (receive_bytes)."""
    names = {x.id for x in ast.walk(expr) if isinstance(x, ast.Name)}
    parents = {}
    for a in ast.walk(fn.node):
        for b in ast.iter_child_nodes(a):
            parents[b] = a
    # value from a bytes-only API, through single assignments
    defs = {}
    for n in walk_local(fn.node):
        if isinstance(n, ast.Assign) and len(n.targets) == 1 and isinstance(n.targets[0], ast.Name):
            defs.setdefault(n.targets[0].id, []).append(n.value)
    for nm in names:
        for v in defs.get(nm, []):
            for c in ast.walk(v):
                if isinstance(c, ast.Call) and isinstance(c.func, ast.Attribute) and c.func.attr in BYTES_ONLY_CALLS:
                    return 'the value comes from %s()' % c.func.attr
    def positive(t):
        """the test holds only for a bytes message"""
        text = ast.unparse(t)
        tn = {y.id for y in ast.walk(t) if isinstance(y, ast.Name)}
        if isinstance(t, ast.Compare) and len(t.ops) == 1 and isinstance(t.ops[0], (ast.Eq, ast.Is)) and \
                'BINARY' in text and tn & names:
            return text
        if isinstance(t, ast.Call) and isinstance(t.func, ast.Name) and t.func.id == 'isinstance' and \
                len(t.args) == 2 and tn & names:
            if any(k in ast.unparse(t.args[1]) for k in ('bytes', 'Bytes', 'DataReceived', 'bytearray', 'memoryview')):
                return text
        if isinstance(t, ast.Name) and t.id in names and 'bytes' in t.id:
            return 'the truth of %s' % t.id
        return None

    def negative(t):
        """the test holds for everything that is not a bytes message"""
        if isinstance(t, ast.UnaryOp) and isinstance(t.op, ast.Not):
            return positive(t.operand)
        if isinstance(t, ast.Compare) and len(t.ops) == 1 and isinstance(t.ops[0], (ast.NotEq, ast.IsNot)) and \
                'BINARY' in ast.unparse(t) and {y.id for y in ast.walk(t) if isinstance(y, ast.Name)} & names:
            return ast.unparse(t)
        return None

    # dominating tests: If statements whose body contains the loop; and early exits for everything else before the
    # hand-off in an enclosing block
    x = loop_for
    while x in parents:
        par = parents[x]
        if isinstance(par, ast.If) and x in par.body:
            why = positive(par.test)
            if why:
                return 'guarded by %s' % why
        if isinstance(par, ast.If) and x in par.orelse:
            why = negative(par.test)
            if why:
                return 'in the else branch of %s' % why
        body = getattr(par, 'body', None)
        if isinstance(body, list) and x in body:
            for st in body[:body.index(x)]:
                if isinstance(st, ast.If) and st.body and not st.orelse and \
                        isinstance(st.body[-1], (ast.Continue, ast.Return, ast.Raise)):
                    why = negative(st.test)
                    if why:
                        return 'everything that is not bytes is skipped first (%s)' % why
        if isinstance(par, (ast.FunctionDef, ast.AsyncFunctionDef)):
            break
        x = par
    # a generator in the same class that yields only under such a guard (aiohttp server: _message_generator)
    return None


def rule_only_bytes_reach_the_parser(ctx, rule='C12.h'):
    """A websocket peer can send TEXT messages; the frame parser extends a bytearray with what it is handed and raises
    on a str.  Each message transport must therefore hand the parser bytes only: the hand-off is guarded by a test of
    the message type, or the value comes from an API that returns bytes only."""
    rep = ctx.report
    repo = ctx.repo
    base = repo.cls('rsocket.transports.abstract_messaging:AbstractMessagingTransport')
    impls = repo.concrete_subclasses(base, include_self=False)
    seen = set()
    n = 0
    for k in sorted(impls, key=lambda c: c.qualname):
        for fn in _feeders(repo, k):
            if fn.qualname in seen:
                continue
            seen.add(fn.qualname)
            for loop in [x for x in walk_local(fn.node) if isinstance(x, (ast.AsyncFor, ast.For)) and
                         'receive_data' in ast.unparse(x.iter)]:
                call = [c for c in ast.walk(loop.iter) if isinstance(c, ast.Call) and
                        isinstance(c.func, ast.Attribute) and c.func.attr == 'receive_data'][0]
                if not call.args:
                    raise AnalysisError('%s: receive_data without a message argument in %s' % (rule, fn.short))
                # message framing (prefix size 0) is what websocket-style transports use; a transport that parses a
                # byte stream (QUIC stream data) has no text messages
                size = call.args[1] if len(call.args) > 1 else next(
                    (kw.value for kw in call.keywords if kw.arg == 'header_length'), None)
                if not (isinstance(size, ast.Constant) and size.value == 0):
                    continue
                n += 1
                msg = call.args[0]
                why = _bytes_evidence(fn, loop, msg)
                if why is None and isinstance(msg, ast.Name):
                    # the message variable of an enclosing loop over a generator of this class that filters
                    outer = [x for x in walk_local(fn.node) if isinstance(x, (ast.AsyncFor, ast.For)) and
                             isinstance(x.target, ast.Name) and x.target.id == msg.id and loop in list(ast.walk(x))]
                    for o in outer:
                        if isinstance(o.iter, ast.Call) and isinstance(o.iter.func, ast.Attribute) and \
                                isinstance(o.iter.func.value, ast.Name) and o.iter.func.value.id == 'self' and \
                                fn.cls is not None and fn.cls.lookup(o.iter.func.attr) is not None:
                            gen = fn.cls.lookup(o.iter.func.attr)
                            ys = [y for y in walk_local(gen.node) if isinstance(y, ast.Yield) and y.value is not None]
                            whys = []
                            for y in ys:
                                par_stmt = None
                                for st in ast.walk(gen.node):
                                    if isinstance(st, ast.Expr) and st.value is y:
                                        par_stmt = st
                                whys.append(_bytes_evidence(gen, par_stmt, y.value) if par_stmt is not None else None)
                            if ys and all(whys):
                                why = 'iterates %s(), which yields only when %s' % (gen.node.name, whys[0])
                rep.add(rule, '%s / only bytes are handed to the frame parser' % fn.short, fn, why is not None,
                        why or 'whatever the websocket delivers - a TEXT message is a str - goes to receive_data(), '
                               'which raises on it: one text frame from the peer takes the connection down')
    rep.require(rule, 'hand-offs to the frame parser in message transports', n, 7)


# ------------------------------------------------------------------------------------------ send_frame really sends
def _mentions(term, needle):
    if term == needle:
        return True
    if isinstance(term, tuple):
        return any(_mentions(x, needle) for x in term)
    return False


def rule_send_frame_sends(ctx, rule='C01.i'):
    """Every transport's send_frame hands the frame - itself or its serialisation - to the connection on every
    normally returning path: to an awaited send / write of the connection object, to one of the transport's own
    methods that does so, or to an outgoing queue that a drain loop of the same class empties into an awaited send of
    `<item>.serialize()`.  A transport that drops what it is given loses every payload silently."""
    from ..effects import strip_epoch
    rep = ctx.report
    repo = ctx.repo
    tr = repo.cls('rsocket.transports.transport:Transport')
    impls = sorted(repo.concrete_subclasses(tr, include_self=False), key=lambda c: c.qualname)
    if len(impls) < 9:
        raise AnalysisError('%s: %d transports found, 9 confirmed by hand' % (rule, len(impls)))
    for k in impls:
        f = k.lookup('send_frame')
        if f is None or f.cls is tr:
            raise AnalysisError('%s: %s has no send_frame' % (rule, k.name))
        fp = ('param', f.qualname, f.params()[1])
        ps = [p for p in ctx.paths(f, k, inline_depth=1) if p.outcome == 'return']
        ok, detail = bool(ps), ''
        how = set()
        for p in ps:
            if any(e.kind == 'except' for e in p.events):
                continue  # a handled failure of the connection
            sent = None
            for e in p.events:
                if e.kind != 'call' or not e.data.get('awaited'):
                    continue
                args = [strip_epoch(a.term) for a in e.data.get('args', [])]
                if not any(_mentions(a, fp) or (a[0] == 'call' and a[1] in ('serialize',)) for a in args):
                    continue
                name = e.data.get('name')
                if name == 'put' or name == 'put_nowait':
                    # an outgoing queue: somebody must drain it into the connection
                    recv = e.data.get('recv')
                    qattr = strip_epoch(recv.term)[2] if recv is not None and strip_epoch(recv.term)[0] == 'attr' \
                        else None
                    drained = False
                    for m in k.methods.values():
                        gets = [n for n in walk_local(m.node) if isinstance(n, ast.Call) and
                                isinstance(n.func, ast.Attribute) and n.func.attr in ('get', 'get_nowait') and
                                isinstance(n.func.value, ast.Attribute) and n.func.value.attr == qattr]
                        sends = [n for n in walk_local(m.node) if isinstance(n, ast.Await) and
                                 isinstance(n.value, ast.Call) and 'serialize()' in ast.unparse(n.value)]
                        loops = [n for n in walk_local(m.node) if isinstance(n, ast.While)]
                        if gets and sends and loops:
                            drained = True
                    if drained:
                        sent = 'queued for the drain loop'
                elif k.lookup(str(name)) is not None and strip_epoch(e.data['recv'].term)[0] == 'self' \
                        if e.data.get('recv') is not None else False:
                    g = k.lookup(str(name))
                    if g is not None:
                        gp = g.params()[1] if len(g.params()) > 1 else None
                        uses = [n for n in walk_local(g.node) if isinstance(n, ast.Call) and gp and any(
                            isinstance(x, ast.Name) and x.id == gp for a in list(n.args) + [n.func] for x in ast.walk(a))]
                        if uses:
                            sent = 'handed to %s' % name
                else:
                    sent = 'awaited %s(...)' % name
            if sent is None:
                ok, detail = False, 'a normally returning path hands the frame to nothing that sends it'
            else:
                how.add(sent)
        rep.add(rule, '%s.send_frame / the frame reaches the connection' % k.name, f, ok,
                detail or '; '.join(sorted(how)) + ' (%d paths)' % len(ps))


def rule_feeders_started(ctx, rule='C01.i'):
    """The function that feeds a message transport's incoming queue is started: called from the transport's own
    connect() / constructor (as a task), awaited by the helper that creates the server for a connection, or a
    call-back of a framework class (which the framework calls).  A feeder nobody starts receives nothing."""
    rep = ctx.report
    repo = ctx.repo
    base = repo.cls('rsocket.transports.abstract_messaging:AbstractMessagingTransport')
    seen = set()
    n = 0
    for k in sorted(repo.concrete_subclasses(base, include_self=False), key=lambda c: c.qualname):
        for fn in _feeders(repo, k):
            if fn.qualname in seen:
                continue
            seen.add(fn.qualname)
            n += 1
            name = fn.node.name
            framework = fn.cls is not None and fn.cls is not k and not fn.cls.is_subclass_of(base) and \
                bool(fn.cls.external_bases())
            callers = []
            for g in repo.all_functions():
                if g.module is not fn.module or g is fn:
                    continue
                built = {}
                for c in ast.walk(g.node):
                    if isinstance(c, ast.Assign) and len(c.targets) == 1 and isinstance(c.targets[0], ast.Name) and \
                            isinstance(c.value, ast.Call) and isinstance(c.value.func, ast.Name):
                        built[c.targets[0].id] = c.value.func.id
                for c in walk_local(g.node):
                    if isinstance(c, ast.Call) and isinstance(c.func, ast.Attribute) and c.func.attr == name:
                        r = c.func.value
                        if isinstance(r, ast.Name) and r.id == 'self':
                            if g.cls is not None and fn.cls is not None and (
                                    g.cls is fn.cls or g.cls.is_subclass_of(fn.cls)):
                                callers.append(g)
                        elif isinstance(r, ast.Name) and r.id in built:
                            if fn.cls is not None and built[r.id] == fn.cls.name:
                                callers.append(g)
                        else:
                            callers.append(g)
            ok = framework or bool(callers)
            rep.add(rule, '%s / the feeder is started' % fn.short, fn, ok,
                    'a call-back of %s, which the framework calls' % fn.cls.name if framework else
                    'started from %s' % ', '.join(sorted({g.short for g in callers})) if ok else
                    'nothing in the module calls %s: the incoming queue is never fed' % name)
    rep.require(rule, 'feeders of message transports', n, 7)


def rule_marker_queues_read_item_by_item(ctx, rule='C04.j'):
    """A queue that carries the end-of-connection marker next to data is read one item at a time and every item is
    asked whether it is the marker before anything else is done with it.  Marker queues are the queue attributes into
    which some function of the transports puts an exception object (`put_nowait(RSocketTransportError())`, an
    `except ... as e` name); attribute aliases (`self._incoming_bytes_queue = quic_protocol.frame_queue`) are
    followed.  Every `get()` / `get_nowait()` on such a queue is the whole right-hand side of an assignment to a plain
    local, and the next statement (logging aside) is an `if` that tests that local with isinstance(..., <exception
    class>).  Batching (`data += queue.get_nowait()`) concatenates a marker into the bytes - a TypeError that the
    listener's catch-all turns into a transport error, losing the chunks already taken from the queue."""
    rep = ctx.report
    repo = ctx.repo
    exc_names = _exception_classes(repo) | {'Exception', 'BaseException'}
    funcs = [f for f in repo.all_functions() if f.module.name.startswith('rsocket.transports')]
    # marker queues, by attribute name
    marker = set()
    for f in funcs:
        handlers = {h.name for n in walk_local(f.node) if isinstance(n, ast.Try) for h in n.handlers if h.name}
        for n in walk_local(f.node):
            if isinstance(n, ast.Call) and isinstance(n.func, ast.Attribute) and n.func.attr in ('put', 'put_nowait') \
                    and n.args and isinstance(n.func.value, ast.Attribute):
                a = n.args[0]
                if isinstance(a, ast.Name) and a.id not in handlers:
                    # a temporary holding the marker
                    assigned = [x.value for x in walk_local(f.node) if isinstance(x, ast.Assign) and
                                any(isinstance(t, ast.Name) and t.id == a.id for t in x.targets)]
                    if len(assigned) == 1:
                        a = assigned[0]
                is_exc = isinstance(a, ast.Call) and isinstance(a.func, ast.Name) and a.func.id in exc_names or \
                    isinstance(a, ast.Name) and a.id in handlers
                if is_exc:
                    marker.add(n.func.value.attr)
    for _ in range(3):
        for f in funcs:
            for n in walk_local(f.node):
                if isinstance(n, ast.Assign) and len(n.targets) == 1 and isinstance(n.targets[0], ast.Attribute) and \
                        isinstance(n.value, ast.Attribute) and n.value.attr in marker:
                    marker.add(n.targets[0].attr)
    rep.require(rule, 'queues that carry an end-of-connection marker', len(marker), 2)
    n_sites = 0
    for f in funcs:
        for block in _blocks(f.node):
            for i, st in enumerate(block):
                gets = [c for c in ast.walk(st) if isinstance(c, ast.Call) and isinstance(c.func, ast.Attribute) and
                        c.func.attr in ('get', 'get_nowait') and isinstance(c.func.value, ast.Attribute) and
                        c.func.value.attr in marker and not c.args]
                # only the statement that directly contains the call (not an enclosing compound statement)
                gets = [c for c in gets if not any(
                    isinstance(s, ast.stmt) and s is not st and any(x is c for x in ast.walk(s))
                    for s in ast.walk(st))]
                for c in gets:
                    n_sites += 1
                    value = st.value if isinstance(st, ast.Assign) else None
                    if isinstance(value, ast.Await):
                        value = value.value
                    ok = isinstance(st, ast.Assign) and value is c and len(st.targets) == 1 and \
                        isinstance(st.targets[0], ast.Name)
                    detail = ''
                    if not ok:
                        detail = ('`%s`: the dequeued item is used before it is asked whether it is the '
                                  'end-of-connection marker' % ast.unparse(st).split('\n')[0])
                    else:
                        var = st.targets[0].id
                        rest = [s for s in block[i + 1:] if not (isinstance(s, ast.Expr) and 'logger' in ast.unparse(s))]
                        nxt = rest[0] if rest else None
                        tested = isinstance(nxt, ast.If) and any(
                            isinstance(x, ast.Call) and isinstance(x.func, ast.Name) and x.func.id == 'isinstance' and
                            len(x.args) == 2 and isinstance(x.args[0], ast.Name) and x.args[0].id == var
                            for x in ast.walk(nxt.test))
                        if not tested:
                            ok = False
                            detail = ('the statement after `%s` is not the isinstance test of %s: %s' % (
                                ast.unparse(st), var, ast.unparse(nxt).split('\n')[0] if nxt is not None else 'nothing'))
                    rep.add(rule, '%s / item of %s tested before use' % (f.qualname.split(':')[-1],
                                                                        c.func.value.attr), f, ok,
                            detail or '%s = <item>; if isinstance(%s, ...)' % (st.targets[0].id, st.targets[0].id))
    rep.require(rule, 'reads of marker queues', n_sites, 2)
    # the test tells data from marker only if no data item is an exception: what the parser yields - frames and the
    # invalid-frame marker - must not be exception classes
    frame_base = repo.cls('rsocket.frame:Frame')
    invalid = repo.cls('rsocket.frame:InvalidFrame')
    if frame_base is None or invalid is None:
        raise AnalysisError('%s: Frame / InvalidFrame vanished' % rule)
    excs = _exception_classes(repo)
    items = [k for k in repo.all_classes() if k is invalid or k.is_subclass_of(frame_base)]
    bad = [k for k in items if k.name in excs]
    rep.add(rule, 'parser output / no frame class and no invalid-frame marker is an exception', invalid, not bad,
            '%d classes, none derives from an exception class' % len(items) if not bad else
            '%s is an exception class: in a queue read with isinstance(item, Exception) it is taken for the '
            'end-of-connection marker and raised - one undecodable message ends the receive loop' %
            ', '.join(k.name for k in bad))


def _blocks(node):
    """Every statement list of a function body, nested ones included (nested function definitions excluded)."""
    out = []

    def visit(stmts):
        out.append(stmts)
        for s in stmts:
            if isinstance(s, (ast.FunctionDef, ast.AsyncFunctionDef, ast.ClassDef)):
                continue
            for field in ('body', 'orelse', 'finalbody'):
                sub = getattr(s, field, None)
                if isinstance(sub, list) and sub and isinstance(sub[0], ast.stmt):
                    visit(sub)
            for h in getattr(s, 'handlers', []) or []:
                visit(h.body)
    visit(node.body)
    return out


def rule_empty_message_is_not_the_end(ctx, rule='C12.m'):
    """On a message transport every message is one frame and a zero-length message is a legal - if useless - message,
    not the end of the connection (that is what the websocket CLOSE / the exception of the receive call says).  In
    every feeder that hands messages to the parser with prefix size 0, no `break` / `return` is control-dependent on
    the emptiness of the received message (`not data`, `len(data) == 0`, `data == b''`); skipping it with `continue`
    is fine.  The byte-stream transports, where an empty read is EOF, are not concerned."""
    rep = ctx.report
    repo = ctx.repo
    base = repo.cls('rsocket.transports.abstract_messaging:AbstractMessagingTransport')
    impls = repo.concrete_subclasses(base, include_self=False)
    seen = set()
    n = 0
    for k in sorted(impls, key=lambda c: c.qualname):
        for fn in _feeders(repo, k):
            if fn.qualname in seen:
                continue
            seen.add(fn.qualname)
            for loop in [x for x in walk_local(fn.node) if isinstance(x, (ast.AsyncFor, ast.For)) and
                         'receive_data' in ast.unparse(x.iter)]:
                call = [c for c in ast.walk(loop.iter) if isinstance(c, ast.Call) and
                        isinstance(c.func, ast.Attribute) and c.func.attr == 'receive_data'][0]
                size = call.args[1] if len(call.args) > 1 else next(
                    (kw.value for kw in call.keywords if kw.arg == 'header_length'), None)
                if not (isinstance(size, ast.Constant) and size.value == 0) or not call.args:
                    continue
                n += 1
                # names the message goes by: the argument and what it was derived from (msg.data <- msg)
                names = {x.id for x in ast.walk(call.args[0]) if isinstance(x, ast.Name)}
                for _ in range(2):
                    for a in walk_local(fn.node):
                        if isinstance(a, ast.Assign) and any(isinstance(t, ast.Name) and t.id in names
                                                             for t in a.targets):
                            names |= {x.id for x in ast.walk(a.value) if isinstance(x, ast.Name)} - {'self'}
                names -= {'self', 'websocket', 'bytes', 'len'}

                def emptiness(test):
                    """Does the test ask whether a message is empty?"""
                    for t in ast.walk(test):
                        if isinstance(t, ast.UnaryOp) and isinstance(t.op, ast.Not):
                            o = t.operand
                            if isinstance(o, ast.Name) and o.id in names or isinstance(o, ast.Attribute) and \
                                    isinstance(o.value, ast.Name) and o.value.id in names and o.attr in ('data',):
                                return ast.unparse(t)
                        if isinstance(t, ast.Compare) and len(t.ops) == 1:
                            sides = [t.left, t.comparators[0]]
                            texts = [ast.unparse(x) for x in sides]
                            about = any(any(isinstance(y, ast.Name) and y.id in names for y in ast.walk(x))
                                        for x in sides)
                            if about and (any(x in ("b''", "''", '0', 'bytes()') for x in texts)) and \
                                    isinstance(t.ops[0], (ast.Eq, ast.LtE, ast.Lt, ast.Is)):
                                return ast.unparse(t)
                    return None

                bad = None

                def visit(stmts, guards):
                    nonlocal bad
                    for s in stmts:
                        if isinstance(s, (ast.Break, ast.Return)) and guards:
                            bad = bad or (s, guards[-1])
                        elif isinstance(s, ast.If):
                            g = emptiness(s.test)
                            visit(s.body, guards + [g] if g else guards)
                            visit(s.orelse, guards)
                        elif isinstance(s, (ast.FunctionDef, ast.AsyncFunctionDef, ast.ClassDef)):
                            continue
                        else:
                            for field in ('body', 'orelse', 'finalbody'):
                                sub = getattr(s, field, None)
                                if isinstance(sub, list) and sub and isinstance(sub[0], ast.stmt):
                                    visit(sub, guards)
                            for h in getattr(s, 'handlers', []) or []:
                                visit(h.body, guards)
                # the loop that receives the messages: the innermost loop around the hand-off.  A feeder that is called
                # once per message (a consumer call-back) has none, and leaving it is leaving that message only.
                outer = [x for x in walk_local(fn.node) if isinstance(x, (ast.While, ast.AsyncFor, ast.For)) and
                         x is not loop and any(y is loop for y in ast.walk(x))]
                if outer:
                    message_loop = min(outer, key=lambda x: len(list(ast.walk(x))))
                    visit(message_loop.body, [])
                rep.add(rule, '%s / an empty message does not end the connection' % fn.short, fn, bad is None,
                        'no break / return depends on the emptiness of a message' if bad is None else
                        '`%s` under `if %s`: a zero-length message from the peer ends the feeder, the receiver is told '
                        'the connection is over and every stream is torn down' % (
                            ast.unparse(bad[0]), bad[1]))
    rep.require(rule, 'feeders of message transports', n, 7)


def rule_termination_event_signalled(ctx, rule='C11.k'):
    """The QUIC protocol object learns about the end of the connection as an event (`ConnectionTerminated`) and is the
    only one who can tell the transport's listener: the branch that recognises the event puts the end-of-connection
    marker into its queue unconditionally - whatever the error code or reason, an orderly close included - as a direct
    statement of that branch."""
    rep = ctx.report
    repo = ctx.repo
    exc_names = _exception_classes(repo) | {'Exception', 'BaseException'}
    n = 0
    for f in repo.all_functions():
        if not f.module.name.startswith('rsocket.transports'):
            continue
        for node in walk_local(f.node):
            if not (isinstance(node, ast.If) and isinstance(node.test, ast.Call) and
                    isinstance(node.test.func, ast.Name) and node.test.func.id == 'isinstance' and
                    'ConnectionTerminated' in ast.unparse(node.test)):
                continue
            n += 1
            temps = {t.id for s in node.body if isinstance(s, ast.Assign) and isinstance(s.value, ast.Call) and
                     isinstance(s.value.func, ast.Name) and s.value.func.id in exc_names
                     for t in s.targets if isinstance(t, ast.Name)}
            direct = [s for s in node.body if isinstance(s, ast.Expr) and isinstance(s.value, ast.Call) and
                      isinstance(s.value.func, ast.Attribute) and s.value.func.attr in ('put_nowait', 'put') and
                      s.value.args and (
                          isinstance(s.value.args[0], ast.Call) and isinstance(s.value.args[0].func, ast.Name) and
                          s.value.args[0].func.id in exc_names or
                          isinstance(s.value.args[0], ast.Name) and s.value.args[0].id in temps)]
            rep.add(rule, '%s / every termination of the connection is signalled to the listener' % f.short, f,
                    bool(direct), 'the ConnectionTerminated branch queues the marker unconditionally' if direct else
                    'the ConnectionTerminated branch does not queue the end-of-connection marker on every path: a close '
                    'that takes the other path leaves the receiver waiting, the close sequence never runs')
    rep.require(rule, 'ConnectionTerminated branches in the transports', n, 1)


# ------------------------------------------------------------------ what enters the incoming queue of a transport
def rule_queue_items_come_from_the_parser(ctx, rule='C04.m'):
    """What a message transport queues for the receive loop is what the frame parser yielded for the message, or the
    end-of-connection marker.  FrameParser.receive_data is where a message becomes 'exactly the frame it contains':
    it drops the frames that are to be ignored (parse_or_ignore returns None for them), turns decoder failures into
    the invalid-frame marker and an empty message into nothing.  A feeder that decodes by itself and queues the
    result hands the receive loop a None for every ignorable frame - which kills the receiver task.  Every put /
    put_nowait on an `_incoming_frame_queue` passes (a) the variable of a loop over `<parser>.receive_data(...)`,
    (b) a freshly constructed exception, or (c) a value the statement is guarded for by isinstance(<it>, Exception)."""
    rep = ctx.report
    repo = ctx.repo
    exc_names = _exception_classes(repo) | {'Exception', 'RSocketTransportError'}
    n = 0
    bad = []
    for fn in repo.all_functions():
        if not fn.module.name.startswith('rsocket.transports'):
            continue
        parents = {}
        for x in ast.walk(fn.node):
            for c in ast.iter_child_nodes(x):
                parents[c] = x
        for c in walk_local(fn.node):
            if not (isinstance(c, ast.Call) and isinstance(c.func, ast.Attribute) and
                    c.func.attr in ('put_nowait', 'put') and _is_incoming_queue(c.func.value) and c.args):
                continue
            n += 1
            a = c.args[0]
            ok = False
            if isinstance(a, ast.Name):
                # a temporary bound once to the expression
                defs = [x.value for x in walk_local(fn.node) if isinstance(x, ast.Assign) and len(x.targets) == 1 and
                        isinstance(x.targets[0], ast.Name) and x.targets[0].id == a.id]
                stores = [x for x in walk_local(fn.node) if isinstance(x, ast.Name) and x.id == a.id and
                          isinstance(x.ctx, ast.Store)]
                if len(defs) == 1 and len(stores) == 1 and isinstance(defs[0], ast.Call):
                    name = defs[0].func.id if isinstance(defs[0].func, ast.Name) else getattr(defs[0].func, 'attr', '')
                    ok = name in exc_names
            if isinstance(a, ast.Call):
                name = a.func.id if isinstance(a.func, ast.Name) else getattr(a.func, 'attr', '')
                ok = name in exc_names
            elif isinstance(a, ast.Name) and not ok:
                x = c
                while x in parents and not ok:
                    p = parents[x]
                    if isinstance(p, (ast.AsyncFor, ast.For)) and x in p.body and isinstance(p.target, ast.Name) and \
                            p.target.id == a.id and isinstance(p.iter, ast.Call) and \
                            isinstance(p.iter.func, ast.Attribute) and p.iter.func.attr == 'receive_data':
                        ok = True
                    if isinstance(p, ast.If):
                        t, positive = p.test, x in p.body
                        while isinstance(t, ast.UnaryOp) and isinstance(t.op, ast.Not):
                            t, positive = t.operand, not positive
                        if positive and isinstance(t, ast.Call) and \
                                isinstance(t.func, ast.Name) and t.func.id == 'isinstance' and \
                                len(t.args) == 2 and isinstance(t.args[0], ast.Name) and \
                                t.args[0].id == a.id and 'Exception' in ast.unparse(t.args[1]):
                            ok = True
                    x = p
            if not ok:
                bad.append((fn, c))
    for fn, c in bad:
        rep.bad(rule, '%s / queues %s' % (fn.short, ast.unparse(c.args[0])), fn,
                'line %d: what is queued for the receive loop is neither an item of FrameParser.receive_data() nor an '
                'exception marker: a frame that must be ignored arrives there as None and ends the receiver task'
                % c.lineno)
    rep.require(rule, 'items put into incoming frame queues', n, 20)
    if not bad:
        rep.ok(rule, 'message transports / what is queued comes from the frame parser',
               repo.cls('rsocket.transports.abstract_messaging:AbstractMessagingTransport'), '%d put sites' % n)


# --------------------------------------------------------- close() cancels its feeder task and waits for it
def rule_close_contains_its_own_cancellation(ctx, rule='C17.j'):
    """A transport's close() that cancels the task it started and then awaits it must not let that cancellation out:
    `await task` re-raises the task's CancelledError in close(), _close_transport catches Exception only, and the
    CancelledError lands in whoever closes the old transport - on a reconnect that is the reconnect listener, which
    takes it for its own shutdown and ends without connecting the next transport.  For every `await <x>` in a close()
    of a transport class that follows `<x>.cancel()`: the await sits in a `try` that catches CancelledError, or the
    coroutine the task runs (the method handed to create_task for that attribute) catches CancelledError around its
    whole loop without re-raising."""
    rep = ctx.report
    repo = ctx.repo
    base = repo.cls('rsocket.transports.transport:Transport')
    n = 0
    for k in sorted(repo.concrete_subclasses(base, include_self=False), key=lambda c: c.qualname):
        f = k.lookup('close')
        if f is None or not f.module.name.startswith('rsocket.transports'):
            continue
        cancelled = {ast.unparse(c.func.value) for c in walk_local(f.node)
                     if isinstance(c, ast.Call) and isinstance(c.func, ast.Attribute) and c.func.attr == 'cancel'}
        parents = {}
        for x in ast.walk(f.node):
            for ch in ast.iter_child_nodes(x):
                parents[ch] = x
        for a in walk_local(f.node):
            if not (isinstance(a, ast.Await) and ast.unparse(a.value) in cancelled):
                continue
            n += 1
            what = ast.unparse(a.value)
            ok, why = False, ''
            x = a
            while x in parents and not ok:
                p = parents[x]
                if isinstance(p, ast.Try) and any(x is b or x in list(ast.walk(b)) for b in p.body):
                    for h in p.handlers:
                        names = ast.unparse(h.type) if h.type is not None else 'BaseException'
                        if ('CancelledError' in names or 'BaseException' in names) and \
                                not any(isinstance(y, ast.Raise) for y in ast.walk(ast.Module(body=h.body,
                                                                                              type_ignores=[]))):
                            ok, why = True, 'the await is inside try/except CancelledError'
                x = p
            if not ok and isinstance(a.value, ast.Attribute) and isinstance(a.value.value, ast.Name) and \
                    a.value.value.id == 'self':
                # the coroutine behind the attribute
                coros = []
                for kk in k.mro():
                    for g in getattr(kk, 'methods', {}).values():
                        for st in walk_local(g.node):
                            if isinstance(st, ast.Assign) and any(ast.unparse(t) == what for t in st.targets) and \
                                    isinstance(st.value, ast.Call) and 'create_task' in ast.unparse(st.value.func) and \
                                    st.value.args:
                                arg = st.value.args[0]
                                if isinstance(arg, ast.Name):  # a temporary bound once to the coroutine
                                    defs = [y.value for y in walk_local(g.node) if isinstance(y, ast.Assign) and
                                            len(y.targets) == 1 and isinstance(y.targets[0], ast.Name) and
                                            y.targets[0].id == arg.id]
                                    arg = defs[0] if len(defs) == 1 else arg
                                if isinstance(arg, ast.Call) and isinstance(arg.func, ast.Attribute):
                                    c = k.lookup(arg.func.attr)
                                    if c is not None:
                                        coros.append(c)
                if coros:
                    good = True
                    for c in coros:
                        tries = [t for t in c.node.body if isinstance(t, ast.Try)]
                        swallow = False
                        for t in tries:
                            for h in t.handlers:
                                names = ast.unparse(h.type) if h.type is not None else 'BaseException'
                                if 'CancelledError' in names and not any(
                                        isinstance(y, ast.Raise)
                                        for y in ast.walk(ast.Module(body=h.body, type_ignores=[]))):
                                    swallow = True
                        # every awaiting statement of the coroutine is inside such a try (or before it, on a path that
                        # cannot be cancelled yet is not decidable here: require the try to be the last statement and
                        # everything before it free of awaits other than waiting for readiness)
                        if not swallow:
                            good = False
                            why = ('%s() - the task behind %s - lets its CancelledError out (no handler that ends '
                                   'normally)' % (c.node.name, what))
                    if good:
                        ok, why = True, 'the task\'s coroutine (%s) ends normally when cancelled' % ', '.join(
                            c.node.name for c in coros)
            rep.add(rule, '%s.close / awaiting the task it cancelled does not raise' % k.name, f, ok,
                    why or 'await %s after %s.cancel(): the CancelledError of the task is re-raised in close()' % (
                        what, what))
    rep.require(rule, 'close() methods that cancel and await a task', n, 3)
