"""C18 Extension metadata codecs round-trip within format limits."""
import ast
import re

from .. import AnalysisError
from ..effects import strip_epoch
from ..index import walk_local, ClassInfo
from ..interp import fmt_term, const, AVal
from ..layout import Atoms, to_lin, lower_read, lower_bytes_expr, LayoutError, struct_fields, accumulated_emits
from ..linear import Lin
from . import COMMON_ASSUMPTIONS
from .parserlib import path_facts

TECHNIQUE = 'table bijection checks on the enum literals; codec layout lowering of the extension readers/writers; ' \
            'guard-dominates-narrowing with capacities computed from masks and struct formats'

EXPLANATION = (
    'Decides: (a) the well-known MIME and authentication tables are bijections (unique names, unique ids, encodable '
    'ids within 0..127) and the lookup maps used by the writer (name -> id) and by the reader (id -> name) are built '
    'over the intended columns; (b) the one-byte type header: the writer puts the well-known flag in the top bit and '
    'the id, or the name length minus one, in the low seven bits, and both reader backends restore the flag from the '
    'same bit, the value from the same seven bits and add the one back; (c) wherever a length is narrowed into a '
    'fixed-width field (7-bit mask, one-byte pack) a rejecting comparison of that same length dominates the narrowing '
    'and its threshold does not exceed the capacity computed from the mask / format; (d) the composite-metadata '
    'writer emits header, 24-bit length, content per item and the reader consumes the same three parts at contiguous '
    'positions, advancing by the content length; (e) the item and authentication factories are keyed by the name the '
    'registered class hard-wires; (f) tag lists, simple authentication and bearer tokens are read at the positions '
    'and widths at which they are written. Not decided: value round trips.')
EXPLANATION_ADDED = ("(g) every composite entry becomes one item of the class registered for its encoding, told that encoding, given exactly the content slice, appended once; (h) data-MIME / accept-MIME items and the authentication item are written as encoded headers (plus the authentication's own bytes) and read back through the header parser with the cursor advanced by what it consumed; lookup functions index their table with the argument unchanged; length guards are exact on both sides; writers in accumulator style are lowered as well. (i) the three extension parsers read their input to the end: the loop test is cursor < len(input) as linear forms; indexing a bytes object and bytes()/bytearray() copies are lowered like the struct reads they replace. (j) an item whose content is derived from its fields (the tag list) encodes the fields on every serialize().")
EXPLANATION = EXPLANATION.replace(' Not decided', ' ' + EXPLANATION_ADDED + ' Not decided', 1) \
    if ' Not decided' in EXPLANATION else EXPLANATION + ' ' + EXPLANATION_ADDED
ASSUMPTIONS = COMMON_ASSUMPTIONS


def _enum_rows(ctx, cls: ClassInfo):
    rows = []
    for name, v in cls.class_attrs.items():
        if isinstance(v, ast.Call) and len(v.args) == 2:
            n = ctx.repo.try_const(cls.module, v.args[0])
            i = ctx.repo.try_const(cls.module, v.args[1])
            if isinstance(n, (bytes, str)) and isinstance(i, int):
                rows.append((name, n, i, v.lineno))
    return rows


def rule_a(ctx):
    rep = ctx.report
    tables_ = [('rsocket.extensions.mimetypes:WellKnownMimeTypes', 40),
               ('rsocket.extensions.authentication_types:WellKnownAuthenticationTypes', 2)]
    for spec, at_least in tables_:
        cls = ctx.repo.cls(spec)
        rows = _enum_rows(ctx, cls)
        rep.require('C18.a', 'rows of %s' % cls.name, len(rows), at_least)
        names = {}
        ids = {}
        problems = []
        for member, n, i, line in rows:
            if n in names:
                problems.append('name %r is given to both %s and %s' % (n, names[n], member))
            names.setdefault(n, member)
            if i in ids:
                problems.append('id %d is given to both %s and %s: decode(encode(%s)) yields %s' % (
                    i, ids[i], member, member, ids[i]))
            ids.setdefault(i, member)
            if i > 127:
                problems.append('id %d of %s does not fit the 7-bit field' % (i, member))
            if i < 0 and 'DO_NOT_USE' not in str(n):
                problems.append('negative id %d for the usable entry %s' % (i, member))
        rep.add('C18.a', '%s / names and ids are one-to-one' % cls.name, cls, not problems,
                problems[0] if problems else '%d entries, names unique, ids unique and within 0..127' % len(rows))
        # lookup maps: the function used by the reader maps id -> name, the one used by the writer name -> id
        m = cls.module
        for meth, keycol, valcol in (('require_by_id', 'id', 'name'), ('get_by_name', 'name', 'id')):
            f = cls.methods.get(meth)
            if f is None:
                raise AnalysisError('C18.a: %s.%s vanished' % (cls.name, meth))
            var = None
            for n in walk_local(f.node):
                if isinstance(n, ast.Subscript) and isinstance(n.value, ast.Name):
                    var = n.value.id
                if isinstance(n, ast.Call) and isinstance(n.func, ast.Attribute) and n.func.attr == 'get' and \
                        isinstance(n.func.value, ast.Name):
                    var = n.func.value.id
            if var is None or var not in m.assigns:
                raise AnalysisError('C18.a: cannot find the lookup table used by %s.%s' % (cls.name, meth))
            builder = m.assigns[var][-1]
            ok = False
            detail = 'the table %s is not built by a map_* helper' % var
            if isinstance(builder, ast.Call) and isinstance(builder.func, ast.Name):
                r = ctx.repo.resolve_name(m, builder.func.id)
                if isinstance(r, list):
                    h = r[-1]
                    comp = [n for n in walk_local(h.node) if isinstance(n, ast.DictComp)]
                    arg_ok = builder.args and ast.unparse(builder.args[0]) == cls.name
                    if comp and arg_ok:
                        k = ast.unparse(comp[0].key)
                        v = ast.unparse(comp[0].value)
                        ok = k.endswith('.value.' + keycol) and v.endswith('.value.' + valcol)
                        detail = '%s maps %s to %s' % (var, k.split('.')[-1], v.split('.')[-1])
                    elif not arg_ok:
                        detail = '%s is built over %s, not over %s' % (var, ast.unparse(builder.args[0]) if
                                                                       builder.args else '?', cls.name)
            rep.add('C18.a', '%s.%s / lookup table keyed by %s' % (cls.name, meth, keycol), f, ok,
                    detail if ok else detail + ' (expected %s -> %s)' % (keycol, valcol))
            # the key looked up is the argument itself (no case folding, stripping, arithmetic) and what is found is
            # what is returned
            from ..astutil import resolve_temp, returned_exprs
            param = f.params()[1] if len(f.params()) > 1 else None
            keys = []
            lookups = []
            for n in walk_local(f.node):
                if isinstance(n, ast.Subscript) and isinstance(n.value, ast.Name) and n.value.id == var:
                    keys.append(resolve_temp(f.node, n.slice))
                    lookups.append(n)
                if isinstance(n, ast.Call) and isinstance(n.func, ast.Attribute) and n.func.attr == 'get' and \
                        isinstance(n.func.value, ast.Name) and n.func.value.id == var and n.args:
                    keys.append(resolve_temp(f.node, n.args[0]))
                    lookups.append(n)
            okk = bool(keys) and all(isinstance(k, ast.Name) and k.id == param for k in keys)
            rets = returned_exprs(f.node)
            okr = bool(rets) and all(any(r is l or ast.dump(r) == ast.dump(l) for l in lookups) for r in rets)
            rep.add('C18.a', '%s.%s / looks up its argument unchanged and returns what it finds' % (cls.name, meth), f,
                    okk and okr, 'table[%s] returned' % param if okk and okr else
                    ('the key looked up is %s, not the argument %s' % (
                        ast.unparse(keys[0]) if keys else None, param) if not okk else
                     'the value returned is not the table entry'))


def _writer_header(ctx):
    f = ctx.repo.func('rsocket.helpers:serialize_well_known_encoding')
    ps = [p for p in ctx.paths(f, None, symbolic_compare=True, stable_attrs=True) if p.outcome == 'return']
    out = []
    for p in ps:
        atoms = Atoms()
        ems = []
        lower_bytes_expr(p.value.term, ems, atoms)
        known = any(e.kind == 'cond' and e.data['key'][0] == 'isnone' and e.data['value'] is False for e in p.events)
        out.append((known, ems, p))
    return f, out


def rule_b(ctx):
    rep = ctx.report
    f, forms = _writer_header(ctx)
    if not forms:
        raise AnalysisError('C18.b: serialize_well_known_encoding has no returning path')
    ok = True
    detail = ''
    for known, ems, p in forms:
        if not ems or ems[0].kind != 'int' or ems[0].nbytes != 1:
            ok, detail = False, 'the type header is not a single byte'
            continue
        bits = ems[0].bits  # LSB first
        if bits[7] != (1 if known else 0):
            ok, detail = False, 'the well-known flag (top bit) is %s for a %s type' % (
                bits[7], 'well-known' if known else 'custom')
        low = bits[:7]
        if any(b in (0, 1) for b in low) and not all(b in (0, 1) for b in low):
            ok, detail = False, 'the low seven bits do not carry one value'
        if not known:
            # value = len(encoding) - 1, followed by the name itself
            src = strip_epoch(low[0][0]) if isinstance(low[0], tuple) else None
            good = src is not None and src[0] == 'op' and src[1] == 'Sub' and src[3] == ('const', 1) and \
                src[2][0] == 'pure' and src[2][1] == 'len'
            if not good:
                ok, detail = False, 'a custom type is announced with %s, not with len(name) - 1' % (
                    fmt_term(src) if src else low[0])
            if len(ems) != 2 or ems[1].kind != 'bytes':
                ok, detail = False, 'the custom name does not follow its length byte'
        else:
            if len(ems) != 1:
                ok, detail = False, 'a well-known type writes more than its id byte'
    rep.add('C18.b', 'serialize_well_known_encoding / one-byte header', f, ok,
            detail or 'flag in the top bit; id, or name length minus one, in the low seven bits')
    # the id (0 is a legal id) is never tested for truth, only for None; a type object's id is its .id
    ok = True
    detail = ''
    n_obj = 0
    ep = ('param', f.qualname, f.params()[0])
    for p in ctx.paths(f, None, stable_attrs=True, no_inline={'serialize_128max_value'}):
        if p.outcome != 'return':
            continue
        for c in p.events:
            if c.kind == 'cond' and c.data['key'][0] == 'truth':
                t = strip_epoch(c.data['key'][1])
                txt = repr(t)
                if (t[0] == 'attr' and t[2] == 'id') or ('getattr' in txt and "'id'" in txt) or \
                        (t[0] in ('call', 'pure') and 'encoding_parser' in str(t[1])):
                    ok = False
                    detail = ('the id of the type (%s) is tested for truth at line %s: id 0 is a legal id and is '
                              'treated as "no id"' % (fmt_term(t)[:60], c.line))
        isb = [c for c in p.events if c.kind == 'cond' and c.data['key'][0] == 'isinstance' and
               strip_epoch(c.data['key'][1]) == ep]
        idnone = [c for c in p.events if c.kind == 'cond' and c.data['key'][0] == 'isnone' and
                  strip_epoch(c.data['key'][1]) == ('attr', ep, 'id')]
        if isb and isb[-1].data['value'] is False and idnone and idnone[-1].data['value'] is False:
            n_obj += 1
            ems = []
            try:
                lower_bytes_expr(p.value.term, ems, Atoms(), opaque_calls=True)
            except LayoutError:
                ems = []
            src = [b[0] for b in (ems[0].bits[:7] if ems and ems[0].kind == 'int' else []) if isinstance(b, tuple)]
            if not src or strip_epoch(src[0]) != ('attr', ep, 'id'):
                ok, detail = False, 'a type object is not announced with its own .id'
    rep.add('C18.b', 'serialize_well_known_encoding / a type object is written with its id, whatever its value', f,
            ok and n_obj > 0, detail or 'known_type = encoding.id, compared with None only')
    # readers, both backends
    g = ctx.repo.func('rsocket.helpers:parse_well_known_encoding')
    buf = ('param', g.qualname, 'buffer')
    for arm in ('try', 'except'):
        ps = [p for p in ctx.paths(g, None, symbolic_compare=True, stable_attrs=True, arm=arm) if
              p.outcome == 'return']
        ok = len(ps) == 2
        detail = '' if ok else 'expected a well-known and a custom path'
        for p in ps:
            atoms = Atoms()

            def buffer_ok(t):
                return strip_epoch(t) == buf
            conds = [e for e in p.events if e.kind == 'cond' and not e.data.get('static')]
            flag = None
            for c in conds:
                k = strip_epoch(c.data['key'])
                if k[0] == 'truth':
                    try:
                        r = lower_read(k[1], atoms, buffer_ok)
                    except LayoutError:
                        r = None
                    if r is not None:
                        src = [b for b in r.bits if b is not None]
                        if r.pos == Lin.k(0) and src == [0]:
                            flag = c.data['value'] != getattr(r, 'negated', False)
            if flag is None:
                ok, detail = False, 'the reader (%s backend) does not take the well-known flag from the top bit of ' \
                                    'the first byte' % arm
                continue
            t = p.value.term
            if t[0] != 'tuple':
                ok, detail = False, 'the reader does not return (value, consumed)'
                continue
            val, consumed = t[1][0], t[1][1]
            cterm = strip_epoch(consumed.term if isinstance(consumed, AVal) else consumed)
            vterm = strip_epoch(val.term if isinstance(val, AVal) else val)
            # an immutable copy of the result (bytes(<value>)) is the value
            while vterm[0] == 'pure' and vterm[1] == 'bytes' and len(vterm[3]) == 1 and isinstance(vterm[3][0], tuple):
                vterm = strip_epoch(vterm[3][0])
            if flag:
                # id from the low seven bits, one byte consumed
                if cterm != ('const', 1):
                    ok, detail = False, 'a well-known type consumes %s bytes' % fmt_term(cterm)
                args = [a for a in vterm[2] if not (isinstance(a, tuple) and a and a[0] in ('kw', 'recv'))] \
                    if vterm[0] == 'call' else []
                r = lower_read(args[0], atoms, buffer_ok) if args else None
                if r is None or [b for b in r.bits if b is not None] != [7, 6, 5, 4, 3, 2, 1]:
                    ok, detail = False, 'the id is not taken from the low seven bits of the first byte (%s backend)' % arm
            else:
                # name = buffer[1:1+n+1]; consumed = 1 + n + 1
                lin = to_lin(cterm, atoms)
                if lin.const != 2 or len(lin.coef) != 1 or list(lin.coef.values())[0] != 1:
                    ok, detail = False, 'a custom type consumes %r bytes, expected 1 + (length field + 1)' % lin
                else:
                    a = list(lin.coef)[0]
                    r = lower_read(atoms.terms[a], atoms, buffer_ok)
                    if r is None or [b for b in r.bits if b is not None] != [7, 6, 5, 4, 3, 2, 1]:
                        ok, detail = False, 'the custom length is not taken from the low seven bits (%s backend)' % arm
        rep.add('C18.b', 'parse_well_known_encoding / header bits (%s backend)' % (
            'cbitstruct' if arm == 'try' else 'native'), g, ok,
            detail or 'flag from the top bit, value from the low seven bits, custom length = value + 1')


def _capacity_checks(ctx, f, cls, narrow_pred, label):
    """For every narrowing of a length term found by narrow_pred on the returning paths of f: a dominating rejecting
    comparison of that term with threshold <= capacity."""
    ok = True
    detail = ''
    n = 0
    for p in ctx.paths(f, cls, symbolic_compare=False, stable_attrs=True):
        for ev, term, capacity in narrow_pred(p):
            n += 1
            t = strip_epoch(term)
            guard = None
            for c in p.events:
                if c.seq >= ev.seq:
                    break
                if c.kind == 'cond':
                    k = strip_epoch(c.data['key'])
                    if k[0] == 'lt' and k[1][0] == 'const' and k[2] == t and c.data['value'] is False:
                        guard = k[1][1]
                    if k[0] == 'lt' and k[2][0] == 'const' and k[1] == t and c.data['value'] is True:
                        guard = k[2][1] - 1
            if guard is None:
                ok, detail = False, '%s is narrowed to a field of capacity %d without a rejecting bound on the path' % (
                    fmt_term(t)[:80], capacity)
            elif guard > capacity:
                ok, detail = False, 'values up to %d pass the guard but the field holds at most %d: the excess is ' \
                                    'silently truncated' % (guard, capacity)
            elif guard < capacity:
                ok, detail = False, 'the field holds values up to %d but the guard rejects everything above %d: a ' \
                                    'legal %s is refused' % (capacity, guard, label)
    return n, ok, detail


def rule_c(ctx):
    rep = ctx.report
    f = ctx.repo.func('rsocket.frame_helpers:serialize_128max_value')

    def masks(p):
        if p.outcome != 'return':
            return
        ems = []
        try:
            lower_bytes_expr(p.value.term, ems, Atoms())
        except LayoutError:
            return
        if ems and ems[0].kind == 'int':
            src = [b[0] for b in ems[0].bits if isinstance(b, tuple)]
            nbits = len([b for b in ems[0].bits if isinstance(b, tuple)])
            if src:
                ret = [e for e in p.events if e.kind == 'return']
                yield ret[-1], src[0], (1 << nbits) - 1

    n, ok, detail = _capacity_checks(ctx, f, None, masks, 'mime length')
    if n == 0:
        raise AnalysisError('C18.c: no narrowing found in serialize_128max_value')
    rep.add('C18.c', 'serialize_128max_value / length bounded before it is masked', f, ok,
            detail or 'the rejecting bound does not exceed the capacity of the masked field')
    tg = ctx.repo.cls('rsocket.extensions.tagging:TaggingMetadata')
    g = tg.lookup('_serialize_tags')
    if g is None:
        raise AnalysisError('C18.c: TaggingMetadata._serialize_tags vanished')

    def packs(p):
        for e in p.events:
            if e.kind == 'call' and str(e.data.get('name')).endswith('struct.pack') and e.data.get('args'):
                fmt = e.data['args'][0]
                if fmt.is_const():
                    fs = struct_fields(fmt.const)
                    for (fo, w, signed), a in zip(fs, e.data['args'][1:]):
                        if not a.is_const():
                            yield e, a.term, (1 << (8 * w - (1 if signed else 0))) - 1
            # bytearray.append(n) narrows n to one byte as well
            if e.kind == 'call' and e.data.get('name') == 'append' and e.data.get('args') and \
                    e.data.get('recv') is not None and 'bytearray' in repr(e.data['recv'].term) and \
                    not e.data['args'][0].is_const():
                yield e, e.data['args'][0].term, 255

    n, ok, detail = _capacity_checks(ctx, g, tg, packs, 'tag length')
    if n == 0:
        raise AnalysisError('C18.c: no length pack found in _serialize_tags')
    rep.add('C18.c', 'TaggingMetadata._serialize_tags / tag length bounded before it is packed', g, ok,
            detail or 'the rejecting bound does not exceed the capacity of the one-byte length')


def rule_d(ctx):
    rep = ctx.report
    cm = ctx.repo.cls('rsocket.extensions.composite_metadata:CompositeMetadata')
    ser = cm.lookup('serialize')
    par = cm.lookup('parse')
    # writer: per item header, 24-bit length of the content, content
    ok = True
    detail = ''
    n = 0
    for p in ctx.paths(ser, cm, symbolic_compare=True, stable_attrs=True, arm='except',
                       no_inline={'serialize_well_known_encoding'}):
        its = [e for e in p.events if e.kind == 'loop' and e.data.get('phase') == 'back']
        if not its or p.outcome != 'return':
            continue
        n += 1
        ems = []
        try:
            lower_bytes_expr(p.value.term, ems, Atoms(), opaque_calls=True)
        except LayoutError as ex:
            raise AnalysisError('C18.d: composite writer: %s' % ex)
        kinds = [(e.kind, e.nbytes, fmt_term(strip_epoch(e.src))[:40]) for e in ems]
        body = [e for e in ems if not (e.kind == 'int' and e.nbytes == 0)]
        if len(body) != 3:
            ok, detail = False, 'one item is written as %s, expected header, 24-bit length, content' % (kinds,)
            continue
        hdr, ln, content = body
        if hdr.kind != 'bytes' or 'serialize_well_known_encoding' not in repr(hdr.src):
            ok, detail = False, 'the item does not start with its encoded type header'
        elif ln.kind != 'int' or ln.nbytes != 3:
            ok, detail = False, 'the content length is written as %s bytes, expected 3' % ln.nbytes
        else:
            lsrc = strip_epoch(ln.src)
            if not (lsrc[0] == 'pure' and lsrc[1] == 'len' and strip_epoch(lsrc[3][0]) == strip_epoch(content.src)):
                ok, detail = False, 'the 24-bit field does not carry the length of the content that follows'
    if n == 0:
        raise AnalysisError('C18.d: the composite writer has no item path')
    rep.add('C18.d', 'CompositeMetadata.serialize / header, 24-bit length, content per item', ser, ok,
            detail or 'each item is type header + 24-bit length of the content + content (%d paths)' % n)
    # reader: same three parts at contiguous positions
    buf = ('param', par.qualname, 'metadata')
    ok = True
    detail = ''
    n = 0
    for arm in ('try', 'except'):
        for p in ctx.paths(par, cm, symbolic_compare=True, stable_attrs=True, arm=arm,
                           no_inline={'require_by_id'}, inline_filter=lambda g: g.name != 'parse' or g is par):
            back = [e for e in p.events if e.kind == 'loop' and e.data.get('phase') == 'back']
            if not back:
                continue
            n += 1
            atoms = Atoms()

            def buffer_ok(t):
                return strip_epoch(t) == buf
            # header call argument: metadata[offset:], length read, content slice
            hdr_pos = None
            len_read = None
            content = None
            for e in p.events:
                if e.seq > back[0].seq:
                    break
                if e.kind == 'enter' and e.data['callee'].name == 'parse_well_known_encoding':
                    a = strip_epoch(e.data['args'][0].term)
                    if a[0] == 'item' and a[2][0] == 'slice' and buffer_ok(a[1]):
                        hdr_pos = to_lin(a[2][1], atoms) if a[2][1] != ('const', None) else Lin.k(0)
                        if a[2][2] != ('const', None):
                            hdr_width = to_lin(a[2][2], atoms) - hdr_pos
                            # the longest legal header: one length byte + a 128-byte custom name
                            if not (hdr_width.is_const() and hdr_width.const >= 129):
                                ok = False
                                detail = 'the header parser is handed only %r bytes; a custom MIME name of the legal ' \
                                         'maximum (1 + 128 bytes) is truncated' % hdr_width
                if e.kind == 'store' and e.data['target'][0] == 'local':
                    t = e.data['value'].term
                    try:
                        r = lower_read(t, atoms, buffer_ok)
                    except LayoutError:
                        r = None
                    if r is not None and r.kind == 'int' and r.nbytes == 3 and len_read is None and \
                            e.func is par:
                        len_read = (r, t)
                    if r is not None and r.kind == 'bytes' and e.func is par and len_read is not None and \
                            r.width is not None and r.width == to_lin(len_read[1], atoms):
                        content = r  # the slice whose width is the length just read
            wl = [n_ for n_ in walk_local(par.node) if isinstance(n_, ast.While)]
            cursor = None
            if wl and isinstance(wl[0].test, ast.Compare) and isinstance(wl[0].test.left, ast.Name):
                cursor = wl[0].test.left.id
            offs = [e for e in p.events if e.kind == 'store' and e.data['target'] == ('local', cursor) and
                    e.func is par and e.seq < back[0].seq]
            if hdr_pos is None or len_read is None or content is None or not offs:
                ok, detail = False, 'an iteration does not read header, 24-bit length and a content slice of that ' \
                                    'length from the buffer'
                continue
            start = hdr_pos
            final = to_lin(offs[-1].data['value'].term, atoms)
            lpos = len_read[0].pos
            consumed_hdr = lpos - start  # must be what the header parser reported as consumed
            reported = None
            depth0 = None
            for e in p.events:
                if e.seq > back[0].seq:
                    break
                if e.kind == 'enter' and e.data['callee'].name == 'parse_well_known_encoding':
                    depth0 = e.depth
                if e.kind == 'return' and depth0 is not None and e.depth == depth0 + 1 and reported is None:
                    rv = strip_epoch(e.data['value'].term) if e.data.get('value') is not None else None
                    if rv is not None and rv[0] == 'tuple' and len(rv[1]) == 2:
                        try:
                            reported = to_lin(rv[1][1], atoms)
                        except LayoutError:
                            reported = None
            if reported is None or consumed_hdr != reported:
                ok, detail = False, ('the 24-bit length is read %r bytes after the header started, the header parser '
                                     'consumed %r' % (consumed_hdr, reported))
                continue
            if content.pos != lpos + 3:
                ok, detail = False, 'the content is read at %r, the 24-bit length ended at %r' % (content.pos, lpos + 3)
                continue
            latom = to_lin(len_read[1], atoms)
            if content.width != latom:
                ok, detail = False, 'the content slice is %r bytes wide, the length field says %r' % (
                    content.width, latom)
                continue
            # the cursor ends after the content (its real, possibly clamped, length)
            adv = final - content.pos
            names = [fmt_term(atoms.terms[a]) for a in adv.coef]
            if not (adv.const == 0 and len(adv.coef) == 1 and 'len' in names[0] or adv == latom):
                ok, detail = False, 'after the content the cursor is at content start + %r' % adv
    if n == 0:
        raise AnalysisError('C18.d: the composite reader has no iteration path')
    rep.add('C18.d', 'CompositeMetadata.parse / header, 24-bit length, content at contiguous positions', par, ok,
            detail or 'header at the cursor, length right after it, content right after the length, cursor advanced '
                      'by the content (%d iteration paths)' % n)


def rule_entries(ctx):
    """What the composite reader does with each entry: an item of the class registered for the entry's encoding is
    created, told its encoding, given exactly the content slice to parse, and appended to the result once; `append` /
    `extend` really add to the list the writer iterates."""
    rep = ctx.report
    cm = ctx.repo.cls('rsocket.extensions.composite_metadata:CompositeMetadata')
    par = cm.lookup('parse')
    ok = True
    why = ''
    n = 0
    for p in ctx.paths(par, cm, stable_attrs=True,
                       no_inline={'parse_well_known_encoding', 'metadata_item_factory', 'append', 'unpack_24bit'},
                       inline_filter=lambda g: g.name != 'parse' or g is par):
        back = [e for e in p.events if e.kind == 'loop' and e.data.get('phase') == 'back']
        if not back:
            continue
        n += 1
        it = [e for e in p.events if e.seq < back[0].seq]
        hdr = [e for e in it if e.kind == 'call' and e.data.get('name') == 'parse_well_known_encoding']
        fac = [e for e in it if e.kind == 'call' and e.data.get('name') == 'metadata_item_factory']
        prs = [e for e in it if e.kind == 'call' and e.data.get('name') == 'parse' and e.data.get('recv') is not None]
        app = [e for e in it if e.kind == 'call' and e.data.get('name') in ('append', 'extend') and
               e.data.get('recv') is not None and strip_epoch(e.data['recv'].term) == ('self',)]
        lens = [e for e in it if e.kind == 'call' and e.data.get('name') == 'unpack_24bit']
        if len(hdr) != 1 or len(fac) != 1 or len(prs) != 1 or len(app) != 1 or len(lens) != 1:
            ok, why = False, ('an entry is not turned into exactly one item (header %d, factory %d, item.parse %d, '
                              'append %d)' % (len(hdr), len(fac), len(prs), len(app)))
            continue
        enc = ('unpack', strip_epoch(hdr[0].data['value'].term), 0)
        if [strip_epoch(a.term) for a in fac[0].data['args']] != [enc]:
            ok, why = False, 'the item class is not chosen by the encoding read from the entry header'
        item = strip_epoch(prs[0].data['recv'].term)
        made = [strip_epoch(e.data['value'].term) for e in it if e.kind == 'call' and
                e.data['callee'].get('value') is not None and
                strip_epoch(e.data['callee']['value'].term) == strip_epoch(fac[0].data['value'].term)]
        if item not in made and strip_epoch(fac[0].data['value'].term) not in _flat18(item):
            ok, why = False, 'the object that parses the content is not the item created for this entry'
        st = [e for e in it if e.kind == 'store' and e.data['target'][0] == 'attr' and
              e.data['target'][2] == 'encoding' and strip_epoch(e.data['target'][1]) == item]
        if not st or strip_epoch(st[-1].data['value'].term) != enc:
            ok, why = False, 'the item is not told the encoding of its entry'
        content = strip_epoch(prs[0].data['args'][0].term) if prs[0].data.get('args') else None
        ln = strip_epoch(lens[0].data['value'].term)
        if not (content and content[0] == 'item' and content[2][0] == 'slice' and ln in _flat18(content[2][2])):
            ok, why = False, 'the item does not parse the slice delimited by the 24-bit length'
        if [strip_epoch(a.term) for a in app[0].data['args']] != [item]:
            ok, why = False, 'what is appended to the result is not the item parsed from the entry'
    rep.add('C18.g', 'CompositeMetadata.parse / every entry becomes one item of its encoding, appended once', par,
            ok and n > 0, why or 'factory(encoding)() -> .encoding -> .parse(content) -> append (%d iteration paths)' % n)
    for name in ('append', 'extend'):
        f = cm.lookup(name)
        okk = f is not None
        if f is not None:
            okk = False
            for p in ctx.paths(f, cm, inline_depth=0):
                if p.outcome != 'return':
                    continue
                adds = [e for e in p.events if e.kind == 'call' and e.data.get('name') == name and
                        e.data.get('recv') is not None and strip_epoch(e.data['recv'].term) == ('attr', ('self',),
                                                                                                 'items')]
                okk = len(adds) == 1 and [strip_epoch(a.term)[0] for a in adds[0].data['args']] in (['param'],
                                                                                                    ['starred'],
                                                                                                    ['vararg'])
                if not okk and len(adds) == 1:
                    okk = 'param' in repr([a.term for a in adds[0].data['args']])
        rep.add('C18.g', 'CompositeMetadata.%s / adds to the item list' % name, f or cm, okk,
                'self.items.%s(argument)' % name if okk else 'the item list the writer iterates is not extended')


def rule_h(ctx):
    """Data-MIME / accept-MIME items and the authentication item: the writer emits one encoded header per encoding (the
    authentication item: header of its type, then the authentication's own bytes), the reader stores what the header
    parser returns and, for the list, advances by what it consumed."""
    rep = ctx.report
    one = ctx.repo.cls('rsocket.extensions.stream_data_mimetype:StreamDataMimetype')
    many = ctx.repo.cls('rsocket.extensions.stream_data_mimetype:StreamDataMimetypes')
    ac = ctx.repo.cls('rsocket.extensions.authentication_content:AuthenticationContent')
    # --- single
    f = one.lookup('serialize')
    ok = False
    for p in ctx.paths(f, one, inline_depth=0):
        if p.outcome != 'return':
            continue
        calls = [e for e in p.events if e.kind == 'call' and e.data.get('name') == 'serialize_well_known_encoding']
        ok = len(calls) == 1 and strip_epoch(calls[0].data['args'][0].term) == ('attr', ('self',), 'data_encoding') \
            and 'get_by_name' in repr(calls[0].data['args'][1].term) and \
            strip_epoch(p.value.term) == strip_epoch(calls[0].data['value'].term)
    rep.add('C18.h', 'StreamDataMimetype.serialize / the encoded header of its encoding', f, ok,
            'serialize_well_known_encoding(self.data_encoding, get_by_name)' if ok else
            'the item is not serialized as the encoded header of its data encoding')
    f = one.lookup('parse')
    ok = False
    for p in ctx.paths(f, one, inline_depth=0):
        if p.outcome != 'return':
            continue
        calls = [e for e in p.events if e.kind == 'call' and e.data.get('name') == 'parse_well_known_encoding']
        st = [e for e in p.events if e.kind == 'store' and e.data['target'][0] == 'attr' and
              e.data['target'][2] == 'data_encoding']
        ok = len(calls) == 1 and strip_epoch(calls[0].data['args'][0].term) == ('param', f.qualname, 'buffer') and \
            'require_by_id' in repr(calls[0].data['args'][1].term) and len(st) == 1 and \
            strip_epoch(st[0].data['value'].term) == ('unpack', strip_epoch(calls[0].data['value'].term), 0)
    rep.add('C18.h', 'StreamDataMimetype.parse / stores the decoded encoding', f, ok,
            'data_encoding = parse_well_known_encoding(buffer, require_by_id)[0]' if ok else
            'the decoded encoding is not what is stored')
    # --- list
    f = many.lookup('serialize')
    ok = True
    n = 0
    for p in ctx.paths(f, many, inline_depth=0):
        if p.outcome != 'return' or not any(e.kind == 'loop' and e.data.get('phase') == 'back' for e in p.events):
            continue
        n += 1
        ems = accumulated_emits(p, Atoms(), opaque_calls=True)
        if ems is None or len(ems) != 1 or ems[0].kind != 'bytes':
            ok = False
            continue
        src = strip_epoch(ems[0].src)
        if not (src[0] == 'call' and src[1] == 'serialize_well_known_encoding' and
                strip_epoch(src[2][0])[0] == 'elem' and 'data_encodings' in repr(src[2][0]) and
                'get_by_name' in repr(src[2][1])):
            ok = False
    rep.add('C18.h', 'StreamDataMimetypes.serialize / one encoded header per encoding, in order', f, ok and n > 0,
            'serialized += serialize_well_known_encoding(encoding, get_by_name) per element' if ok and n else
            'an encoding of the list is not written as exactly one encoded header')
    f = many.lookup('parse')
    buf = ('param', f.qualname, 'buffer')
    ok = True
    why = ''
    n = 0
    for p in ctx.paths(f, many, inline_depth=0, symbolic_compare=True):
        back = [e for e in p.events if e.kind == 'loop' and e.data.get('phase') == 'back']
        if not back:
            continue
        n += 1
        it = [e for e in p.events if e.seq < back[0].seq]
        calls = [e for e in it if e.kind == 'call' and e.data.get('name') == 'parse_well_known_encoding']
        apps = [e for e in it if e.kind == 'call' and e.data.get('name') == 'append']
        offs = [e for e in it if e.kind == 'store' and e.data['target'][0] == 'local' and e.data.get('aug') == 'Add']
        if len(calls) != 1 or len(apps) != 1 or len(offs) != 1:
            ok, why = False, 'an iteration does not decode one header, append one encoding and advance once'
            continue
        cv = strip_epoch(calls[0].data['value'].term)
        a0 = strip_epoch(calls[0].data['args'][0].term)
        if not (a0[0] == 'item' and a0[2][0] == 'slice' and strip_epoch(a0[1]) == buf and
                a0[2][2] == ('const', None)):
            ok, why = False, 'the header is not decoded from the rest of the buffer at the cursor'
        if [strip_epoch(a.term) for a in apps[0].data['args']] != [('unpack', cv, 0)]:
            ok, why = False, 'what is appended is not the decoded encoding'
        ov = strip_epoch(offs[0].data['value'].term)
        if not (ov[0] == 'op' and ov[1] == 'Add' and strip_epoch(ov[3]) == ('unpack', cv, 1) and
                strip_epoch(ov[2]) == strip_epoch(a0[2][1])):
            ok, why = False, 'the cursor does not advance by what the header parser consumed'
    rep.add('C18.h', 'StreamDataMimetypes.parse / each header decoded at the cursor, appended, cursor advanced', f,
            ok and n > 0, why or 'parse_well_known_encoding(buffer[offset:]) -> append, offset += consumed')
    # --- authentication item writer
    f = ac.lookup('serialize')
    ok = True
    n = 0
    for p in ctx.paths(f, ac, inline_depth=0):
        if p.outcome != 'return':
            continue
        n += 1
        ems = []
        try:
            got = accumulated_emits(p, Atoms(), opaque_calls=True)
            if got is None:
                lower_bytes_expr(p.value.term, ems, Atoms(), opaque_calls=True)
            else:
                ems = got
        except LayoutError:
            ok = False
            continue
        srcs = [strip_epoch(e.src) for e in ems]
        good = len(srcs) == 2 and srcs[0][0] == 'call' and srcs[0][1] == 'serialize_well_known_encoding' and \
            'authentication' in repr(srcs[0][2][0]) and 'type' in repr(srcs[0][2][0]) and \
            'get_by_name' in repr(srcs[0][2][1]) and srcs[1][0] == 'call' and srcs[1][1] == 'serialize' and \
            any(e.kind == 'call' and strip_epoch(e.data['value'].term) == srcs[1] and e.data.get('recv') is not None
                and strip_epoch(e.data['recv'].term) == ('attr', ('self',), 'authentication') for e in p.events)
        if not good:
            ok = False
    rep.add('C18.h', 'AuthenticationContent.serialize / type header, then the authentication bytes', f, ok and n > 0,
            'serialize_well_known_encoding(authentication.type) + authentication.serialize()' if ok and n else
            'the authentication item is not its type header followed by the authentication\'s own bytes')


def _flat18(t):
    out = []
    if isinstance(t, tuple):
        out.append(t)
        for x in t:
            out.extend(_flat18(x))
    return out


def rule_e(ctx):
    rep = ctx.report
    m = ctx.repo.module('rsocket.extensions.composite_metadata')
    reg = m.assigns.get('metadata_item_factory_by_type')
    if not reg or not isinstance(reg[-1], ast.Dict):
        raise AnalysisError('C18.e: composite item registry vanished')
    rep.require('C18.e', 'registered composite item classes', len(reg[-1].keys), 4)
    for k, v in zip(reg[-1].keys, reg[-1].values):
        c = ctx.repo.resolve_expr(m, v)
        key = ast.unparse(k)
        if not isinstance(c, ClassInfo):
            rep.bad('C18.e', 'composite registry / %s' % key, m,
                    'the registry holds %s, which is not a class: entries parsed with it share one object' %
                    ast.unparse(v))
            continue
        init = c.methods.get('__init__')
        wired = None
        if init is not None:
            for n in walk_local(init.node):
                if isinstance(n, ast.Call) and isinstance(n.func, ast.Attribute) and n.func.attr == '__init__' and \
                        n.args:
                    wired = ast.unparse(n.args[0])
        ok = wired == key
        rep.add('C18.e', 'composite registry / %s' % c.name, c, ok,
                'registered under the MIME name it hard-wires (%s)' % key.split('.')[1] if ok else
                '%s is registered under %s but constructs itself with %s: items written by it are parsed by another '
                'class' % (c.name, key, wired))
    am = ctx.repo.module('rsocket.extensions.authentication_content')
    reg = am.assigns.get('metadata_item_factory_by_type')
    if not reg or not isinstance(reg[-1], ast.Dict):
        raise AnalysisError('C18.e: authentication registry vanished')
    rep.require('C18.e', 'registered authentication classes', len(reg[-1].keys), 2)
    for k, v in zip(reg[-1].keys, reg[-1].values):
        c = ctx.repo.resolve_expr(am, v)
        key = ast.unparse(k)
        tp = c.methods.get('type') if isinstance(c, ClassInfo) else None
        wired = None
        if tp is not None:
            from ..astutil import returned_exprs
            for v in returned_exprs(tp.node):
                wired = ast.unparse(v)
        ok = wired == key
        if not isinstance(c, ClassInfo):
            rep.bad('C18.e', 'authentication registry / %s' % key, am,
                    'the registry holds %s, which is not a class: entries parsed with it share one object' %
                    ast.unparse(reg[-1].values[list(reg[-1].keys).index(k)]))
            continue
        rep.add('C18.e', 'authentication registry / %s' % c.name, c,
                ok, 'registered under the type name it announces' if ok else
                '%s is registered under %s but announces %s' % (c.name, key, wired))


def rule_f(ctx):
    rep = ctx.report
    # tag list
    tg = ctx.repo.cls('rsocket.extensions.tagging:TaggingMetadata')
    par = tg.lookup('parse')
    buf = ('param', par.qualname, 'buffer')
    ok = True
    detail = ''
    n = 0
    for p in ctx.paths(par, tg, symbolic_compare=True, stable_attrs=True):
        back = [e for e in p.events if e.kind == 'loop' and e.data.get('phase') == 'back']
        if not back:
            continue
        n += 1
        atoms = Atoms()

        def buffer_ok(t):
            return strip_epoch(t) == buf
        ln = None
        tag = None
        for e in p.events:
            if e.seq > back[0].seq:
                break
            if e.kind == 'store' and e.data['target'][0] == 'local':
                try:
                    r = lower_read(e.data['value'].term, atoms, buffer_ok)
                except LayoutError:
                    r = None
                if r is not None and r.kind == 'int' and ln is None:
                    ln = (r, e.data['value'].term)
            if e.kind == 'call' and e.data.get('name') == 'append' and e.data.get('args'):
                try:
                    r = lower_read(e.data['args'][0].term, atoms, buffer_ok)
                except LayoutError:
                    r = None
                if r is not None and r.kind == 'bytes':
                    tag = r
        if ln is None or tag is None:
            ok, detail = False, 'an iteration does not read a length byte and a tag'
            continue
        if ln[0].nbytes != 1 or ln[0].value_bits() != 8:
            ok, detail = False, 'the tag length is read as %d bytes' % ln[0].nbytes
        elif tag.pos != ln[0].pos + 1:
            ok, detail = False, 'the tag is read at %r, its length byte was at %r' % (tag.pos, ln[0].pos)
        elif tag.width != to_lin(ln[1], atoms):
            ok, detail = False, 'the tag slice is %r wide, the length byte says %r' % (tag.width, to_lin(ln[1], atoms))
        else:
            # the next iteration starts right after the tag: the cursor (the local the length byte was read at) has
            # advanced by 1 + tag length when the loop goes round
            cur = None
            for e in p.events:
                if e.seq > back[0].seq:
                    break
                if e.kind == 'store' and e.data['target'][0] == 'local':
                    try:
                        v = to_lin(e.data['value'].term, atoms)
                    except LayoutError:
                        continue
                    if e.data.get('aug') or v.const or v.coef:
                        cur = (e.data['target'][1], v) if isinstance(e.data['target'][1], str) else (
                            e.data['target'][1][0], v)
            want = ln[0].pos + 1 + to_lin(ln[1], atoms)
            if cur is None or cur[1] != want:
                ok, detail = False, ('after a tag the cursor is at %r, the tag ended at %r: the next length byte is '
                                     'read from inside (or beyond) the tag' % (cur[1] if cur else None, want))
    rep.add('C18.f', 'TaggingMetadata.parse / one length byte, then the tag', par, ok and n > 0,
            detail or 'length byte at the cursor, tag of that length right after it')
    ser = tg.lookup('_serialize_tags')
    ok = True
    detail = ''
    n = 0
    for p in ctx.paths(ser, tg, symbolic_compare=False, stable_attrs=True, no_inline={'ensure_bytes'}):
        if p.outcome != 'return' or not any(e.kind == 'loop' and e.data.get('phase') == 'back' for e in p.events):
            continue
        n += 1
        try:
            ems = accumulated_emits(p, Atoms(), opaque_calls=True)
            if ems is None:
                ems = []
                lower_bytes_expr(p.value.term, ems, Atoms(), opaque_calls=True)
        except LayoutError as ex:
            raise AnalysisError('C18.f: tag writer: %s' % ex)
        body = [e for e in ems if not (e.kind == 'int' and e.nbytes == 0)]
        if len(body) != 2 or body[0].kind != 'int' or body[0].nbytes != 1 or body[1].kind != 'bytes':
            ok, detail = False, 'a tag is written as %s' % [(e.kind, e.nbytes) for e in body]
            continue
        lsrc = strip_epoch(body[0].src)
        if not (lsrc[0] == 'pure' and lsrc[1] == 'len' and strip_epoch(lsrc[3][0]) == strip_epoch(body[1].src)):
            ok, detail = False, 'the length byte does not carry the length of the tag that follows'
    rep.add('C18.f', 'TaggingMetadata._serialize_tags / one length byte, then the tag', ser, ok and n > 0,
            detail or 'len(tag) in one byte, then the tag')
    # simple authentication
    au = ctx.repo.cls('rsocket.extensions.authentication:AuthenticationSimple')
    par = au.lookup('parse')
    buf = ('param', par.qualname, 'buffer')
    ps = [p for p in ctx.paths(par, au, symbolic_compare=True, stable_attrs=True) if p.outcome == 'return']
    ok = bool(ps)
    detail = ''
    for p in ps:
        atoms = Atoms()

        def buffer_ok(t):
            return strip_epoch(t) == buf
        st = {}
        ln = None
        for e in p.events:
            if e.kind == 'store':
                try:
                    r = lower_read(e.data['value'].term, atoms, buffer_ok)
                except LayoutError as ex:
                    r = None
                if r is None:
                    continue
                if e.data['target'][0] == 'local' and r.kind == 'int':
                    ln = (r, e.data['value'].term)
                if e.data['target'][0] == 'attr':
                    st[e.data['target'][2]] = r
        if ln is None or 'username' not in st or 'password' not in st:
            ok, detail = False, 'simple authentication is not read as length, username, password'
            continue
        if ln[0].pos != Lin.k(0) or ln[0].nbytes != 2 or ln[0].value_bits() != 16:
            ok, detail = False, 'the username length is read as %d bytes at %r' % (ln[0].nbytes, ln[0].pos)
        elif st['username'].pos != Lin.k(2) or st['username'].width != to_lin(ln[1], atoms):
            ok, detail = False, 'the username is read at %r width %r' % (st['username'].pos, st['username'].width)
        elif st['password'].pos != Lin.k(2) + to_lin(ln[1], atoms) or st['password'].width is not None:
            ok, detail = False, 'the password is not the rest after the username'
    rep.add('C18.f', 'AuthenticationSimple.parse / 16-bit length, username, password', par, ok,
            detail or 'two length bytes, username of that length, password is the rest')
    ser = au.lookup('serialize')
    ps = [p for p in ctx.paths(ser, au, symbolic_compare=True, stable_attrs=True) if p.outcome == 'return']
    ok = bool(ps)
    detail = ''
    for p in ps:
        atoms = Atoms()
        writes = []
        for e in p.events:
            if e.kind == 'store' and e.data['target'][0] == 'item':
                idx = strip_epoch(e.data['target'][2])
                if idx[0] != 'slice':
                    continue
                lo = Lin.k(0) if idx[1] == ('const', None) else to_lin(idx[1], atoms)
                hi = None if idx[2] == ('const', None) else to_lin(idx[2], atoms)
                ems = []
                try:
                    lower_bytes_expr(e.data['value'].term, ems, atoms)
                except LayoutError as ex:
                    raise AnalysisError('C18.f: simple authentication writer: %s' % ex)
                writes.append((lo, hi, ems))
        if len(writes) != 3:
            ok, detail = False, 'simple authentication is written in %d parts' % len(writes)
            continue
        (l0, h0, e0), (l1, h1, e1), (l2, h2, e2) = writes
        ulen = None
        if e0 and e0[0].kind == 'int':
            ulen = strip_epoch(e0[0].src)
        if l0 != Lin.k(0) or h0 != Lin.k(2) or not e0 or e0[0].nbytes != 2 or len(
                [b for b in e0[0].bits if b != 0]) != 16:
            ok, detail = False, 'the username length is not written as two big-endian bytes at the start'
        elif not (ulen[0] == 'pure' and ulen[1] == 'len' and 'username' in repr(ulen)):
            ok, detail = False, 'the length field carries %s, not len(username)' % fmt_term(ulen)
        elif l1 != Lin.k(2) or not e1 or e1[0].kind != 'bytes' or 'username' not in repr(e1[0].src):
            ok, detail = False, 'the username is not written right after its length'
        elif h2 is not None or not e2 or 'password' not in repr(e2[0].src) or l2 != h1:
            ok, detail = False, 'the password is not written right after the username'
    rep.add('C18.f', 'AuthenticationSimple.serialize / 16-bit length, username, password', ser, ok,
            detail or 'len(username) in two bytes, username, password')
    # bearer: identity both ways
    be = ctx.repo.cls('rsocket.extensions.authentication:AuthenticationBearer')
    s = be.lookup('serialize')
    q = be.lookup('parse')
    ok = True
    for p in ctx.paths(s, be):
        if strip_epoch(p.value.term) != ('attr', ('self',), 'token'):
            ok = False
    for p in ctx.paths(q, be):
        st = [e for e in p.events if e.kind == 'store' and e.data['target'][0] == 'attr' and
              e.data['target'][2] == 'token']
        if not st or strip_epoch(st[0].data['value'].term) != ('param', q.qualname, 'buffer'):
            ok = False
    rep.add('C18.f', 'AuthenticationBearer / token is the whole content both ways', be, ok,
            'serialize returns the token, parse stores the buffer' if ok else
            'the bearer token is transformed on one side only')
    # authentication content: type header then the authentication's own bytes, read from where the header ended
    ac = ctx.repo.cls('rsocket.extensions.authentication_content:AuthenticationContent')
    q = ac.lookup('parse')
    ok = False
    consumed = None
    for n in walk_local(q.node):
        if isinstance(n, ast.Assign) and isinstance(n.targets[0], ast.Tuple) and len(n.targets[0].elts) == 2 and \
                isinstance(n.value, ast.Call) and 'parse_well_known_encoding' in ast.unparse(n.value.func) and \
                isinstance(n.targets[0].elts[1], ast.Name):
            consumed = n.targets[0].elts[1].id
    for n in walk_local(q.node):
        if isinstance(n, ast.Call) and isinstance(n.func, ast.Attribute) and n.func.attr == 'parse' and n.args:
            a = n.args[0]
            if isinstance(a, ast.Subscript) and isinstance(a.slice, ast.Slice) and a.slice.upper is None and \
                    isinstance(a.slice.lower, ast.Name) and a.slice.lower.id == consumed and consumed is not None:
                ok = True
    rep.add('C18.f', 'AuthenticationContent.parse / payload read from where the type header ended', q, ok,
            'the authentication bytes start at the offset reported by the type header parser' if ok else
            'the authentication bytes are not read from the end of the type header')


def rule_g(ctx):
    from .c12 import extension_loops_progress
    extension_loops_progress(ctx)


def rule_i(ctx):
    """The three extension parsers read their input to the end: the loop goes on exactly while the cursor is below
    the length of the bytes handed in (a bound one short drops a trailing one-byte item such as an empty tag)."""
    from .c12 import PARSE_LOOPS
    from .parserlib import while_reads_to_the_end
    rep = ctx.report
    for fspec, cspec in PARSE_LOOPS:
        f = ctx.repo.func(fspec)
        c = ctx.repo.cls(cspec)
        loops = [n for n in walk_local(f.node) if isinstance(n, ast.While)]
        if len(loops) != 1:
            raise AnalysisError('C18.i: expected one loop in %s' % f.short)
        n, problem = while_reads_to_the_end(ctx, f, c, loops[0],
                                            no_inline={'require_by_id', 'get_by_name', 'item_parse'},
                                            inline_filter=lambda g: g.name not in ('parse',) or g is f, arm='except')
        if n == 0:
            raise AnalysisError('C18.i: no iteration path in %s' % f.short)
        rep.add('C18.i', '%s / the loop runs while unread input remains' % f.short, (f.file, loops[0].lineno),
                problem is None, problem or 'continues exactly while cursor < len(input) (%d iteration paths)' % n)


def rule_j(ctx):
    """An item whose wire content is derived from its fields (the tag list) encodes those fields every time it is
    serialised: serialize() stores the freshly encoded content on every path before it hands it out.  A content kept
    from an earlier serialize() or parse() is stale as soon as the fields change."""
    rep = ctx.report
    base = ctx.repo.cls('rsocket.extensions.composite_metadata_item:CompositeMetadataItem')
    n = 0
    for k in sorted(ctx.repo.concrete_subclasses(base, include_self=False), key=lambda c: c.qualname):
        ser = k.methods.get('serialize')
        if ser is None:
            continue
        writes = [x for x in walk_local(ser.node) if isinstance(x, ast.Assign) and
                  ast.unparse(x.targets[0]) == 'self.content']
        if not writes:
            continue
        n += 1
        ps = [p for p in ctx.paths(ser, k, inline_depth=0) if p.outcome == 'return']
        ok, detail = bool(ps), ''
        for p in ps:
            st = [e for e in p.events if e.kind == 'store' and e.data['target'][0] == 'attr' and
                  e.data['target'][2] == 'content']
            if len(st) != 1:
                ok, detail = False, ('a path of serialize() hands out self.content without encoding the fields again: '
                                     'after the fields changed (tags assigned, parse() called) the old bytes go out')
                continue
            t = strip_epoch(st[0].data['value'].term)
            if t[0] != 'call':
                ok, detail = False, 'self.content is set to %s, not to the encoded fields' % fmt_term(t)
        rep.add('C18.j', '%s.serialize / the fields are encoded on every call' % k.name, ser, ok,
                detail or 'self.content = <encoder>() on all %d paths, then the inherited serialize()' % len(ps))
    rep.require('C18.j', 'items whose content is derived from fields', n, 1)


def rule_k(ctx):
    """C18.k  No slice of the received bytes becomes a dictionary key without an immutable copy (rules/hashflow.py): the
    names a parser hands back are looked up in the well-known tables when the item is encoded again."""
    from .hashflow import rule_no_buffer_is_hashed
    rule_no_buffer_is_hashed(ctx, 'C18.k')



def rule_signedness(ctx):
    """C18.l  A wire integer is read with the signedness it was written with.  Every length and counter of the
    protocol is unsigned; a signed struct letter (b h i l q, or int.from_bytes(..., signed=True)) on the reading side
    halves the range - a 16-bit length of 32768..65535 comes back negative and the slices that follow are taken from
    the wrong end - unless the writer of the same owner packs with the same signed letter and so restricts the values
    (pack_string / unpack_string).  Owners: each class with a parse method, and each module's pack* / serialize* versus
    unpack* / parse* functions."""
    rep = ctx.report
    repo = ctx.repo

    def signed_letters(fn):
        out = set()
        for n in walk_local(fn.node):
            if isinstance(n, ast.Call) and isinstance(n.func, ast.Attribute) and isinstance(n.func.value, ast.Name) and \
                    n.func.value.id == 'struct' and n.args and isinstance(n.args[0], ast.Constant) and \
                    isinstance(n.args[0].value, str):
                for ch in re.findall(r'[a-zA-Z?]', n.args[0].value):
                    if ch in 'bhilq':
                        out.add(ch)
            if isinstance(n, ast.Call) and isinstance(n.func, ast.Attribute) and n.func.attr in ('from_bytes', 'to_bytes'):
                for kw in n.keywords:
                    if kw.arg == 'signed' and isinstance(kw.value, ast.Constant) and kw.value.value is True:
                        out.add('signed')
        return out

    def is_reader(name):
        return name.startswith(('parse', 'unpack', '_parse', '_unpack'))

    def is_writer(name):
        return name.startswith(('serialize', 'pack', '_serialize', '_pack', 'to_'))

    owners = []
    for m in repo.modules.values():
        if not m.name.startswith('rsocket.') or m.name.startswith('rsocket.cli'):
            continue
        fs = [lst[-1] for lst in m.functions.values()]
        if any(is_reader(f.name) for f in fs):
            owners.append((m.name, [f for f in fs if is_reader(f.name)], [f for f in fs if is_writer(f.name)], fs[0]))
        for lst in m.classes.values():
            k = lst[-1]
            ms = list(k.methods.values())
            if any(is_reader(f.name) for f in ms):
                owners.append((k.qualname.split(':')[-1], [f for f in ms if is_reader(f.name)],
                               [f for f in ms if is_writer(f.name)], k))
    rep.require('C18.l', 'codec owners (classes and modules with parse / unpack functions)', len(owners), 15)
    n_signed = 0
    for name, readers, writers, where in owners:
        r = set().union(*[signed_letters(f) for f in readers]) if readers else set()
        w = set().union(*[signed_letters(f) for f in writers]) if writers else set()
        if r:
            n_signed += 1
        extra = r - w
        if r or w:
            rep.add('C18.l', '%s / integers read with the signedness they are written with' % name, where, not extra,
                    'signed letters %s on both sides' % sorted(r) if not extra else
                    'the reader uses the signed format %s and no writer of %s does: values with the top bit set come '
                    'back negative' % (sorted(extra), name))
    rep.require('C18.l', 'owners that read a signed field (pack_string / unpack_string)', n_signed, 1)




def rule_byte_order(ctx):
    """(shared C02.i)  every multi-byte field of the extension codecs is explicitly big-endian (rules/c02.py)."""
    from .c02 import rule_byte_order as rb
    rb(ctx)


RULES = [('C18.a', rule_a), ('C18.b', rule_b), ('C18.c', rule_c), ('C18.d', rule_d), ('C18.e', rule_e),
         ('C18.f', rule_f), ('C18.g', rule_entries), ('C18.h', rule_h), ('C12.e', rule_g), ('C18.i', rule_i), ('C18.j', rule_j), ('C18.k', rule_k), ('C18.l', rule_signedness), ('C02.i', rule_byte_order)]
