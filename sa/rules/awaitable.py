"""The awaitable adapter (rsocket/awaitable): what the caller of `await AwaitableRSocket(...).request_stream(...)` gets
is every element the stream delivered, in order, or the stream's error.

Decided on the paths of CollectorSubscriber's methods and the syntax of AwaitableRSocket's delegations:
  * on_next appends the value it is handed to the collection exactly once on every path, before anything else it does;
  * the completing element, on_complete and on_error each release the waiter; on_error keeps the exception;
  * run() waits for that release, raises the kept exception when there is one and otherwise returns the collection;
  * the element cut-off cancels only when the running count equals the cut-off;
  * every request method of AwaitableRSocket calls the method of the same name of the wrapped socket once with the
    caller's request, and returns / awaits its result.
Necessary conditions of C01 (delivered to the caller, in order, nothing dropped) and C07 (the awaitable is resolved, with
the error when there was one); the element-for-element equality at run time is not decided."""
import ast

from .. import AnalysisError
from ..effects import strip_epoch
from ..index import walk_local
from ..interp import const, fmt_term

COLLECTOR = 'rsocket.awaitable.collector_subscriber:CollectorSubscriber'
ADAPTER = 'rsocket.awaitable.awaitable_rsocket:AwaitableRSocket'


def _calls(p, name):
    return [e for e in p.events if e.kind == 'call' and e.data.get('name') == name]


def _recv_text(e):
    r = e.data.get('recv')
    return fmt_term(strip_epoch(r.term)) if r is not None else ''


def rule_collector(ctx, rule):
    rep = ctx.report
    repo = ctx.repo
    k = repo.cls(COLLECTOR)
    on_next = k.lookup('on_next')
    run = k.lookup('run')
    on_error = k.lookup('on_error')
    on_complete = k.lookup('on_complete')
    if None in (on_next, run, on_error, on_complete):
        raise AnalysisError('%s: CollectorSubscriber lost one of on_next/on_error/on_complete/run' % rule)
    # which attribute is the collection: the one run() returns
    from ..astutil import returned_exprs
    rets = [v for v in returned_exprs(run.node) if isinstance(v, ast.Attribute)]
    if len(rets) != 1:
        raise AnalysisError('%s: run() does not return one attribute' % rule)
    coll = rets[0].attr
    value_param = on_next.params()[1]
    # ---- on_next
    ps = ctx.paths(on_next, k, inline_depth=1)
    ok, detail = True, ''
    for p in ps:
        if p.outcome != 'return':
            ok, detail = False, 'on_next can raise'
            continue
        apps = [e for e in _calls(p, 'append') if coll in _recv_text(e)]
        if len(apps) != 1:
            ok, detail = False, 'a path of on_next appends the element %d times to self.%s' % (len(apps), coll)
            continue
        arg = strip_epoch(apps[0].data['args'][0].term) if apps[0].data['args'] else None
        if arg != ('param', on_next.qualname, value_param):
            ok, detail = False, 'what is collected is %s, not the element handed in' % fmt_term(arg)
        acts = [e for e in p.events if e.kind == 'call' and e.data.get('name') in ('cancel', 'request', 'set') and
                e.seq < apps[0].seq]
        if acts:
            ok, detail = False, 'on_next acts (%s) before it has collected the element' % acts[0].data['name']
    rep.add(rule, 'CollectorSubscriber.on_next / every element collected once, first', on_next, ok and bool(ps),
            detail or 'self.%s.append(<element>) exactly once on all %d paths, before any other action' % (
                coll, len(ps)))
    # the waiter's release: the event run() waits on
    waits = [n for n in walk_local(run.node) if isinstance(n, ast.Await) and isinstance(n.value, ast.Call) and
             isinstance(n.value.func, ast.Attribute) and n.value.func.attr == 'wait' and
             isinstance(n.value.func.value, ast.Attribute)]
    if len(waits) != 1:
        raise AnalysisError('%s: run() does not await one event' % rule)
    event = waits[0].value.func.value.attr

    def releases(p):
        return [e for e in _calls(p, 'set') if event in _recv_text(e)]

    flag = [q for q in on_next.params()[2:] if 'complete' in q]
    if not flag:
        raise AnalysisError('%s: on_next has no completion flag' % rule)
    ps_c = ctx.paths(on_next, k, args={flag[0]: const(True)}, inline_depth=1)
    okc = bool(ps_c) and all(len(releases(p)) == 1 for p in ps_c if p.outcome == 'return')
    rep.add(rule, 'CollectorSubscriber.on_next / the completing element releases the waiter', on_next, okc,
            'self.%s.set() on every path with %s true' % (event, flag[0]) if okc else
            'a path that is handed the completing element does not release run(): the caller waits for ever')
    ps_o = ctx.paths(on_complete, k, inline_depth=1)
    oko = bool(ps_o) and all(len(releases(p)) == 1 for p in ps_o)
    rep.add(rule, 'CollectorSubscriber.on_complete / releases the waiter', on_complete, oko,
            'self.%s.set() on every path' % event if oko else 'on_complete does not release run()')
    ps_e = ctx.paths(on_error, k, inline_depth=1)
    err_param = on_error.params()[1]
    err_attr = None
    oke = bool(ps_e)
    for p in ps_e:
        st = [e for e in p.events if e.kind == 'store' and e.data['target'][0] == 'attr' and
              strip_epoch(e.data['value'].term) == ('param', on_error.qualname, err_param)]
        if len(st) != 1 or len(releases(p)) != 1 or st[0].seq > releases(p)[0].seq:
            oke = False
        else:
            err_attr = st[0].data['target'][2]
    rep.add(rule, 'CollectorSubscriber.on_error / keeps the exception, then releases the waiter', on_error, oke,
            'self.%s = <exception>; self.%s.set()' % (err_attr, event) if oke else
            'on_error does not store the exception before releasing run(): the caller sees a normal result')
    # ---- run
    ps_r = ctx.paths(run, k, inline_depth=1)
    okr, detail = bool(ps_r), ''
    n_raise = n_ret = 0
    for p in ps_r:
        aw = [e for e in p.events if e.kind == 'await' or (e.kind == 'call' and e.data.get('name') == 'wait' and
                                                           e.data.get('awaited'))]
        if not [e for e in _calls(p, 'wait') if event in _recv_text(e)]:
            okr, detail = False, 'run() can finish without waiting for the end of the stream'
        conds = [e for e in p.events if e.kind == 'cond' and err_attr and err_attr in repr(e.data['key'])]
        # does the last test of the kept error say 'there is one'?
        has_error = None
        if conds:
            c = conds[-1]
            has_error = (not c.data['value']) if c.data['key'][0] == 'isnone' else bool(c.data['value'])
        if p.outcome == 'raise':
            n_raise += 1
            if has_error is not True:
                okr, detail = False, 'run() raises although no error was kept'
        elif p.outcome == 'return':
            n_ret += 1
            if has_error is True:
                okr, detail = False, 'run() returns normally although the stream failed'
            if has_error is None:
                okr, detail = False, 'run() returns without looking at the kept error'
    if okr and (n_raise == 0 or n_ret == 0):
        okr, detail = False, 'run() never %s' % ('raises the kept error' if n_raise == 0 else 'returns the collection')
    rep.add(rule, 'CollectorSubscriber.run / the stream\'s error or the collection', run, okr,
            detail or 'awaits self.%s, raises self.%s when set, otherwise returns self.%s' % (event, err_attr, coll))
    # ---- the cut-off
    cut_ok, cut_detail = True, ''
    n_cut = 0
    for p in ps:
        cancels = [e for e in _calls(p, 'cancel')]
        if not cancels:
            continue
        n_cut += 1
        eqs = [e for e in p.events if e.kind == 'cond' and e.seq < cancels[0].seq and
               strip_epoch(e.data['key'])[0] == 'eq' and e.data['value'] is True]
        if not eqs:
            cut_ok, cut_detail = False, 'the stream is cancelled without the count having reached the cut-off'
        if len(releases(p)) != 1:
            cut_ok, cut_detail = False, 'cancelling at the cut-off does not release run()'
    # the count the cut-off is compared with advances by one per element, before the comparison
    counted = None
    for n in walk_local(on_next.node):
        if isinstance(n, ast.Compare) and len(n.ops) == 1 and isinstance(n.ops[0], ast.Eq):
            for side in (n.left, n.comparators[0]):
                if isinstance(side, ast.Attribute) and isinstance(side.value, ast.Name) and side.value.id == 'self' \
                        and 'limit' not in side.attr:
                    counted = side.attr
    if counted is None:
        cut_ok, cut_detail = False, cut_detail or 'the cut-off is not compared with a running count'
    else:
        for p in ps:
            incs = [e for e in p.events if e.kind == 'store' and e.data['target'][0] == 'attr' and
                    e.data['target'][2] == counted]
            good = [e for e in incs if e.data.get('aug') == 'Add' and e.data['value'].is_const() and
                    e.data['value'].const == 1 or
                    strip_epoch(e.data['value'].term) in (('op', 'Add', ('attr', ('self',), counted), ('const', 1)),
                                                          ('op', 'Add', ('const', 1), ('attr', ('self',), counted)))]
            cmps = [e for e in p.events if e.kind == 'cond' and counted in repr(e.data['key'])]
            if len(incs) != 1 or len(good) != 1:
                cut_ok, cut_detail = False, 'self.%s does not advance by exactly 1 per element' % counted
            elif cmps and cmps[0].seq < incs[0].seq:
                cut_ok, cut_detail = False, 'the count is compared with the cut-off before this element is counted'
    rep.add(rule, 'CollectorSubscriber.on_next / cut-off cancels at equality only and releases the waiter', on_next,
            cut_ok and n_cut > 0, cut_detail or 'cancel() only behind an equality test of the running count, followed '
                                                'by self.%s.set() (%d paths)' % (event, n_cut))


def rule_collector_no_cancel_after_the_end(ctx, rule):
    """Outside on_next (whose cut-off is decided above) and the pass-through cancel(), the collector cancels its
    subscription only behind a test that the stream has not ended (`is_done.is_set()` false): the waiter's release is
    only *scheduled* by is_done.set(), so a cancellation of the awaiting task in the loop turn of the terminal frame
    still reaches run() as CancelledError - a CANCEL sent from there goes out on a stream that has already completed."""
    rep = ctx.report
    k = ctx.repo.cls(COLLECTOR)
    n = 0
    for name, f in sorted(k.methods.items()):
        if name in ('on_next', 'cancel'):
            continue
        for x in walk_local(f.node):
            if isinstance(x, ast.Call) and isinstance(x.func, ast.Attribute) and x.func.attr == 'cancel' and \
                    'subscription' in ast.unparse(x.func.value):
                n += 1
                guarded = False
                for g in walk_local(f.node):
                    if isinstance(g, ast.If) and any(y is x for b in g.body for y in ast.walk(b)):
                        t = ast.unparse(g.test)
                        if 'is_set' in t and ('not ' in t or ' is False' in t):
                            guarded = True
                rep.add(rule, 'CollectorSubscriber.%s / cancels only a stream that has not ended' % name, f, guarded,
                        'behind `not self.is_done.is_set()`' if guarded else
                        '%s() cancels the subscription without asking whether the stream has ended: a task cancelled in '
                        'the loop turn of the terminal frame sends CANCEL on a completed stream' % name)
    if n == 0:
        rep.ok(rule, 'CollectorSubscriber / no cancel outside on_next and cancel()', k,
               'only the cut-off in on_next and the pass-through cancel() cancel the subscription')


def rule_delegations(ctx, rule):
    rep = ctx.report
    repo = ctx.repo
    a = repo.cls(ADAPTER)
    base = repo.cls('rsocket.rsocket_base:RSocketBase')
    for name in ('request_response', 'fire_and_forget', 'metadata_push', 'request_stream', 'request_channel',
                 'connect', 'close', '__aenter__', '__aexit__'):
        f = a.methods.get(name)
        if f is None:
            rep.bad(rule, 'AwaitableRSocket.%s / calls the wrapped socket' % name, a, 'method missing')
            continue
        calls = [n for n in walk_local(f.node) if isinstance(n, ast.Call) and isinstance(n.func, ast.Attribute) and
                 isinstance(n.func.value, ast.Attribute) and isinstance(n.func.value.value, ast.Name) and
                 n.func.value.value.id == 'self' and n.func.value.attr == '_rsocket']
        ok = len(calls) == 1 and calls[0].func.attr == name
        detail = ''
        if not ok:
            detail = 'does not call exactly self._rsocket.%s (%s)' % (name, [c.func.attr for c in calls])
        params = f.params()[1:]
        if ok and params:
            c = calls[0]
            first = c.args[0] if c.args else None
            if not (isinstance(first, ast.Name) and first.id == params[0]):
                ok, detail = False, 'the caller\'s %s is not what the wrapped socket is given' % params[0]
            # the remaining request parameters that the wrapped method also has are passed under their own name
            for extra in params[1:]:
                kw = {k.arg: k.value for k in c.keywords}
                if extra in ('publisher', 'sending_done'):
                    v = kw.get(extra) or (c.args[params.index(extra)] if len(c.args) > params.index(extra) else None)
                    if not (isinstance(v, ast.Name) and v.id == extra):
                        ok, detail = False, 'the caller\'s %s does not reach the wrapped socket' % extra
        if ok and name in ('request_response', 'fire_and_forget', 'metadata_push', 'connect'):
            from ..astutil import returned_exprs
            rets = list(returned_exprs(f.node))
            good = [r for r in rets if calls[0] in list(ast.walk(r))]
            if not good or len(rets) != len(good):
                ok, detail = False, 'the result of the wrapped call is not what the caller gets'
            elif f.is_async and not any(isinstance(x, ast.Await) for r in good for x in ast.walk(r)):
                ok, detail = False, 'the wrapped awaitable is returned un-awaited from a coroutine'
        if ok:
            # the caller's cancellation (a timeout, task.cancel()) must reach the socket's future: that is what sends
            # CANCEL and releases the stream.  shield() stops it there.
            shields = [n for n in walk_local(f.node) if isinstance(n, ast.Call) and
                       (isinstance(n.func, ast.Attribute) and n.func.attr == 'shield' or
                        isinstance(n.func, ast.Name) and n.func.id == 'shield') and
                       any(x is calls[0] for x in ast.walk(n))]
            if shields:
                ok, detail = False, ('the wrapped call is awaited through shield(): cancelling the caller no longer '
                                     'cancels the socket\'s future, so no CANCEL is sent and the stream stays registered '
                                     'at both ends')
        if ok and name in ('__aenter__', '__aexit__'):
            if not any(isinstance(n, ast.Await) and calls[0] in list(ast.walk(n)) for n in walk_local(f.node)):
                ok, detail = False, 'the wrapped socket\'s %s is not awaited' % name
        # a coroutine function of the wrapped socket: its coroutine must be awaited here or handed to the caller,
        # otherwise it never runs
        wrapped = base.lookup(name) if base is not None else None
        if ok and wrapped is not None and wrapped.is_async:
            from ..astutil import returned_exprs
            awaited = any(isinstance(n, ast.Await) and calls[0] in list(ast.walk(n)) for n in walk_local(f.node))
            returned = any(calls[0] in list(ast.walk(r)) for r in returned_exprs(f.node))
            if not awaited and not returned:
                ok, detail = False, ('self._rsocket.%s() creates a coroutine that is neither awaited nor returned: '
                                     'it never runs' % name)
        rep.add(rule, 'AwaitableRSocket.%s / calls the wrapped socket' % name, f, ok,
                detail or 'self._rsocket.%s(<the caller\'s arguments>), result handed back' % name)


def rule_awaitable(ctx, rule):
    rule_collector(ctx, rule)
    rule_collector_no_cancel_after_the_end(ctx, rule)
    rule_delegations(ctx, rule)
