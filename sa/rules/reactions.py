"""What each handler must DO for each event (the other handler rules say what it must not do, or where what it does
must come from): per (interaction, role, event) the protocol's reaction, decided on every enumerated path of the event
from the handler's initial state.

A path may do nothing (a guard: no subscriber yet, future already done); otherwise what it does must be one of the
reactions listed for the event, and every listed reaction must occur on some path.  Effects looked at: signals to the
local subscriber, frames put into the send queue (class, complete flag, next flag), resolution of the response future,
credit handed to the local producer (and which field of the frame it is), cancellation of the local producer."""
from .. import AnalysisError
from ..effects import is_resolve, is_cancel_call, strip_epoch
from ..interp import fmt_term
from .handlers import model, FRAME_TERM
from .c07 import init_bools

N, NC, C, E = 'next', 'next!', 'complete', 'error'


def P(complete, nxt=None):
    return ('emit', 'PayloadFrame', complete, nxt)


def EM(cls):
    return ('emit', cls, None, None)


def REQ(field):
    return ('req', field)


PAYLOAD_IN = {
    'PayloadFrame[!complete,!next]': [],
    'PayloadFrame[!complete,next]': [[N]],
    'PayloadFrame[complete,!next]': [[C]],
    # either form: since F26 / F27 a handler that has received the peer's COMPLETE ignores request() / cancel(), so a
    # subscriber that is told on_next() and on_complete() separately cannot make it write any more
    'PayloadFrame[complete,next]': [[NC], [N, C]],
    'ErrorFrame': [[E]],
}
SUBSCRIBER_OUT = {
    'on_next(is_complete=False)': [[P(False, True)]],
    'on_next(is_complete=True)': [[P(True, True)]],
    'on_complete': [[P(True, False)]],
    'on_error': [[EM('ErrorFrame')]],
}
# (interaction, role) -> event label suffix -> list of admissible reactions (besides doing nothing)
REACTIONS = {
    ('stream', 'requester'): {**PAYLOAD_IN, 'request': [[EM('RequestNFrame')]], 'cancel': [[EM('CancelFrame')]]},
    ('channel', 'requester'): {**PAYLOAD_IN, **SUBSCRIBER_OUT, 'RequestNFrame': [[REQ('request_n')]],
                               'CancelFrame': [['cancel']], 'request': [[EM('RequestNFrame')]],
                               'cancel': [[EM('CancelFrame')]]},
    ('channel', 'responder'): {**PAYLOAD_IN, **SUBSCRIBER_OUT, 'RequestNFrame': [[REQ('request_n')]],
                               'CancelFrame': [['cancel']], 'request': [[EM('RequestNFrame')]],
                               'cancel': [[EM('CancelFrame')]]},
    ('response', 'requester'): {'PayloadFrame[!complete,!next]': [['set_result']],
                                'PayloadFrame[!complete,next]': [['set_result']],
                                'PayloadFrame[complete,!next]': [['set_result']],
                                'PayloadFrame[complete,next]': [['set_result']],
                                'ErrorFrame': [['set_exception']], 'cancel': [[EM('CancelFrame')]]},
    ('response', 'responder'): {'CancelFrame': [['cancel']],
                                'future_done': [[P(True, None)], [EM('ErrorFrame')]]},
    ('stream', 'responder'): {**SUBSCRIBER_OUT, 'RequestNFrame': [[REQ('request_n')]],
                              'RequestStreamFrame': [[REQ('initial_request_n')]], 'CancelFrame': [['cancel']]},
}
S = 'subscribe'
REACTIONS[('stream', 'requester')]['subscribe'] = [[S, EM('RequestStreamFrame')]]
REACTIONS[('channel', 'requester')]['subscribe'] = [[S, EM('RequestChannelFrame')], [EM('RequestChannelFrame')]]
REACTIONS[('channel', 'responder')]['subscribe'] = [[S]]
REACTIONS[('channel', 'responder')]['RequestChannelFrame[!complete]'] = [[REQ('initial_request_n')],
                                                                          [P(True, False)]]
REACTIONS[('channel', 'responder')]['RequestChannelFrame[complete]'] = [
    [C, REQ('initial_request_n')], [C, P(True, False)],
    # without an application subscriber there is nobody to tell
    ('opt', [REQ('initial_request_n')]), ('opt', [P(True, False)])]
# reactions that must survive a half-close: (interaction, role) -> pre-state -> event -> reactions
PEER_DONE = '<the peer has completed>'
HALF_CLOSED = {
    ('channel', 'requester'): {PEER_DONE: {'RequestNFrame': [[REQ('request_n')]],
                                           'CancelFrame': [['cancel']]}},
    ('channel', 'responder'): {PEER_DONE: {'RequestNFrame': [[REQ('request_n')]],
                                           'CancelFrame': [['cancel']]}},
}


def _peer_done_flag(m, h, pre):
    """The handler's 'the peer has completed its direction' flag, found by what the code does with it, not by its
    name: the bool attribute that the constructor leaves False and that is True after every normal path of a received
    PAYLOAD that carries COMPLETE and no element."""
    for en in m.entries(h):
        if en.kind == 'frame' and en.name.split('/')[-1] == 'PayloadFrame[complete,!next]':
            paths = [p for p in m.run(en, pre) if p.outcome == 'return']
            posts = [m.post_state(p) for p in paths]
            if not posts:
                return None
            names = [k for k, v in pre.items() if v is False and all(q.get(k) is True for q in posts)]
            if len(names) > 1:
                # several flags change: the one the handler notes first is the one it notes before telling its subscriber
                first = None
                for e in paths[0].events:
                    if e.kind == 'store' and e.data['target'][0] == 'attr' and e.data['target'][2] in names:
                        first = e.data['target'][2]
                        break
                return first
            return names[0] if len(names) == 1 else None
    return None

# which test outcomes each reaction belongs to: (interaction, role, event) -> [(effect that identifies the reaction
# or None for "nothing", [(name mentioned by the tested expression, kind of test, required outcome)])]
CONDITIONS = {
    ('response', 'responder', 'future_done'): [
        (None, [('cancelled', 'truth', True)]),
        (('emit', 'PayloadFrame'), [('cancelled', 'truth', False), ('exception', 'truth', False)]),
        (('emit', 'ErrorFrame'), [('cancelled', 'truth', False), ('exception', 'truth', True)]),
    ],
    ('channel', 'responder', 'RequestChannelFrame[!complete]'): [
        (('emit', 'PayloadFrame'), [('subscription', 'isnone', True)]),
        (('req', 'initial_request_n'), [('subscription', 'isnone', False)]),
    ],
    ('channel', 'responder', 'RequestChannelFrame[complete]'): [
        (('emit', 'PayloadFrame'), [('subscription', 'isnone', True)]),
        (('req', 'initial_request_n'), [('subscription', 'isnone', False)]),
    ],
}

# events whose reaction is decided elsewhere (request emission: C14.a / C16; set-up and tear-down: C09, C10, C11)
ELSEWHERE = {'setup', 'run', 'dispose', '_send_channel_request', '_send_stream_request',
             'mark_completed_and_finish',
             '_finish_if_both_closed', '_set_sending_done', '_complete_remote_subscriber', '_on_future_complete',
             'on_subscribe'}


def _effects(m, p):
    out = []
    for k, e in m.signals(p):
        out.append(k if k != 'next?' else N)
    for cname, comp, e in m.emitted(p):
        if cname == '?':
            out.append(('emit', '?', None, None))
            continue
        nxt = m.frame_attr_before(p, e.data['args'][0].term, 'flags_next', e.seq) if cname == 'PayloadFrame' else None
        out.append(('emit', cname, comp if cname == 'PayloadFrame' else None, nxt))
    for e in p.events:
        if is_resolve(e):
            out.append(e.data['name'])
        if e.kind == 'call' and e.data.get('name') == 'request' and e.data.get('args') and \
                e.data.get('how') in ('app', 'unknown'):
            t = strip_epoch(e.data['args'][0].term)
            out.append(('req', t[2] if t[0] == 'attr' and strip_epoch(t[1]) == FRAME_TERM else fmt_term(t)))
        if is_cancel_call(e):
            out.append('cancel')
    return out


def _match(eff, want):
    """eff: list of observed effects; want: list of wanted effects (None fields of an emit are wildcards)."""
    if len(eff) != len(want):
        return False
    rest = list(eff)
    for w in want:
        hit = None
        for x in rest:
            if x == w:
                hit = x
                break
            if isinstance(w, tuple) and isinstance(x, tuple) and w[0] == 'emit' and x[0] == 'emit' and \
                    w[1] == x[1] and (w[2] is None or w[2] == x[2]) and (w[3] is None or w[3] == x[3]):
                hit = x
                break
        if hit is None:
            return False
        rest.remove(hit)
    return True


def _fmt(effs):
    def one(x):
        if isinstance(x, tuple) and x[0] == 'emit':
            fl = []
            if x[2] is not None:
                fl.append('complete' if x[2] else '!complete')
            if x[3] is not None:
                fl.append('next' if x[3] else '!next')
            return 'send %s%s' % (x[1], '[%s]' % ','.join(fl) if fl else '')
        if isinstance(x, tuple) and x[0] == 'req':
            return 'request(%s)' % x[1]
        return {'next!': 'on_next(complete)'}.get(x, 'on_' + x if x in (N, C, E) else str(x))
    return '[' + ', '.join(one(x) for x in effs) + ']' if effs else 'nothing'


def rule_reactions(ctx, rule_id, kinds=None):
    """kinds: None = everything; or a set out of {'deliver', 'credit', 'emit'} to report a subset of events."""
    rep = ctx.report
    m = model(ctx)
    n = 0
    for h in m.handlers:
        role = m.role(h)
        table = REACTIONS.get(role)
        if table is None:
            raise AnalysisError('%s: no reaction table for %s %s' % (rule_id, h.name, role))
        pre = init_bools(ctx, m, h)
        seen_keys = set()
        for en in m.entries(h):
            key = en.name.split('/')[-1]
            key = key.split('.', 1)[1] if en.kind != 'frame' else key
            if en.kind == 'helper':
                key = en.name.split('.')[-1]
            if en.kind == 'method' and '(' in key and key.split('(')[0] in table:
                key = key.split('(')[0]
            if key in ELSEWHERE or (en.kind == 'method' and key.split('(')[0] in ELSEWHERE):
                continue
            wanted = table.get(key)
            if wanted is None:
                if en.kind == 'frame':
                    wanted = []  # a frame this role does not expect: ignored
                else:
                    continue
            cat = 'deliver' if en.kind == 'frame' and key.startswith(('PayloadFrame', 'ErrorFrame')) else \
                'credit' if key in ('RequestNFrame', 'RequestStreamFrame', 'request') else 'emit'
            if kinds is not None and cat not in kinds:
                continue
            seen_keys.add(key)
            paths = [p for p in m.run(en, pre) if p.outcome == 'return']
            if not paths:
                if wanted:
                    rep.bad(rule_id, '%s / reaction' % en.name, en.func, 'no normal path')
                continue
            n += 1
            got = [_effects(m, p) for p in paths]
            optional = [w[1] for w in wanted if isinstance(w, tuple) and w and w[0] == 'opt']
            wanted = [w for w in wanted if not (isinstance(w, tuple) and w and w[0] == 'opt')]
            bad = [g for g in got if g and not any(_match(g, w) for w in wanted + optional)]
            missing = [w for w in wanted if not any(_match(g, w) for g in got)]
            # alternatives of one reaction (e.g. on_next(complete) vs on_next + on_complete) need only one to occur
            if key == 'PayloadFrame[complete,next]' and len(missing) < len(wanted):
                missing = []
            ok = not bad and not missing
            detail = ''
            for ident, tests in CONDITIONS.get(role + (key,), []):
                for p, g in zip(paths, got):
                    mine = (not g) if ident is None else any(
                        isinstance(x, tuple) and x[:len(ident)] == ident for x in g)
                    if not mine:
                        continue
                    for name, kind, want in tests:
                        vals = [c.data['value'] for c in p.events if c.kind == 'cond' and
                                c.data['key'][0] == kind and (("'%s'" % name) in repr(c.data['key']) or
                                                              (kind == 'isnone' and
                                                               c.data['key'][1] == ('const', None)))]
                        if not vals or vals[-1] is not want:
                            ok = False
                            detail = '%s is done on a path where the %s test is %s (expected %s)' % (
                                _fmt(g), name, vals[-1] if vals else 'not made', want)
            if bad:
                detail = 'a path does %s; the protocol asks for %s' % (
                    _fmt(bad[0]), ' or '.join(_fmt(w) for w in wanted) if wanted else 'nothing')
            elif missing:
                detail = 'no path does %s (paths do: %s)' % (_fmt(missing[0]), sorted({_fmt(g) for g in got}))
            rep.add(rule_id, '%s / reaction' % en.name, en.func, ok,
                    detail or '%s on %d paths' % (' | '.join(sorted({_fmt(g) for g in got})), len(paths)))
        for flag, events in HALF_CLOSED.get(role, {}).items():
            if flag == PEER_DONE:
                flag = _peer_done_flag(m, h, pre)
            if flag is None or flag not in pre:
                raise AnalysisError('%s: %s has no state flag for %s' % (rule_id, h.name, PEER_DONE))
            pre2 = dict(pre)
            pre2[flag] = True
            for en in m.entries(h):
                if en.kind != 'frame' or en.name.split('/')[-1] not in events:
                    continue
                key = en.name.split('/')[-1]
                cat = 'credit' if key == 'RequestNFrame' else 'emit'
                if kinds is not None and cat not in kinds:
                    continue
                wanted = events[key]
                paths = [p for p in m.run(en, pre2) if p.outcome == 'return']
                got = [_effects(m, p) for p in paths]
                bad = [g for g in got if g and not any(_match(g, w) for w in wanted)]
                missing = [w for w in wanted if not any(_match(g, w) for g in got)]
                n += 1
                rep.add(rule_id, '%s after the peer completed its side / reaction' % en.name, en.func,
                        not bad and not missing,
                        ('a path does %s' % _fmt(bad[0]) if bad else 'no path does %s: once the peer has completed, %s '
                         'frames are ignored although this side is still sending' % (_fmt(missing[0]), key))
                        if bad or missing else '%s on %d paths' % (' | '.join(sorted({_fmt(g) for g in got})),
                                                                   len(paths)))
        lost = [k for k in table if k not in seen_keys and (kinds is None)]
        if lost:
            raise AnalysisError('%s: %s has no entry point for %s' % (rule_id, h.name, sorted(lost)))
    if n < (30 if kinds is None else 6):
        raise AnalysisError('%s: only %d events evaluated (vacuity guard)' % (rule_id, n))
