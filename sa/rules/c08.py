"""C08 Frames emitted are legal RSocket for the emitter's role."""
import ast

from .. import AnalysisError
from .. import tables
from ..effects import is_enq_send, is_enq_lease, build_class, is_cancel_call
from ..index import walk_local, ClassInfo
from ..interp import fmt_term
from ..effects import strip_epoch
from . import COMMON_ASSUMPTIONS
from .handlers import model, H_TERM
from .c07 import check_guarded_resolve, init_bools

EXPLANATION = (
    'Decides, over all enumerated paths of all entry points of the six handler classes and their helper subscribers: '
    '(a) the set of frame classes a role can enqueue is a subset of the protocol table for that role; (b) no '
    "requester's frame_received can raise (the receive loop answers an exception with ERROR, which a "
    'request-response or stream requester may never send) - explicit raises and unguarded future resolution; '
    '(c) every instantiation site of a connection-level frame (SETUP, KEEPALIVE, LEASE, METADATA_PUSH) leaves its '
    'stream id 0; (d) every store to the initial request-n is a positive constant or is dominated by a rejecting '
    'comparison that bounds it below by 1; (e) exactly one construction site of SETUP, reached only from connect() '
    'and inserted at the head of the send queue, and only SETUP uses the head insertion; (f) where a channel '
    'requester emits CANCEL the local producer is cancelled on that path; (g) one FIFO per stream: when requests can '
    'be diverted to the lease hold queue, no other frame of a requester reaches the send queue without passing the '
    'same diversion. Not decided: legality over all histories (a trace property).')
EXPLANATION_ADDED = ('(h) nothing after the terminal frame: the request-response callback and the Rx adapters (done marking, cancel only when not done, request sent inside the cancellable task); MAX_REQUEST_N is 2^31-1; (i) none of the subscribers the library itself provides (awaitable collector, Rx adapters, helper subscribers) calls cancel() or request() on its subscription while it is handed the element that carries COMPLETE; a completed generator-backed publisher does not start delivering again on a late REQUEST_N (shared C07.e), so no payload follows the own COMPLETE.')
EXPLANATION = EXPLANATION.replace(' Not decided', ' ' + EXPLANATION_ADDED + ' Not decided', 1) \
    if ' Not decided' in EXPLANATION else EXPLANATION + ' ' + EXPLANATION_ADDED
ASSUMPTIONS = COMMON_ASSUMPTIONS


def rule_a(ctx):
    rep = ctx.report
    m = model(ctx)
    for h in m.handlers:
        inter, role = m.role(h)
        allowed = tables.ROLE_EMIT[(inter, role)]
        emitted = {}
        unknown = []
        n_paths = 0
        for en in m.entries(h):
            for p in m.run(en, None):
                n_paths += 1
                for cname, complete, ev in m.emitted(p):
                    if cname == '?':
                        unknown.append((en.name, ev))
                    else:
                        emitted.setdefault(cname, (en.name, ev))
        if not emitted:
            raise AnalysisError('C08.a: %s enqueues no frame on any path' % h.name)
        illegal = sorted(set(emitted) - allowed)
        c = '%s / role emission set' % h.name
        if illegal:
            en, ev = emitted[illegal[0]]
            rep.bad('C08.a', c, (ev.func.file, ev.line),
                    'a %s %s can emit %s (entry %s), which the protocol does not allow for that role; allowed: %s' % (
                        inter, role, ', '.join(illegal), en, sorted(allowed)),
                    extra={'emitted': sorted(emitted)})
        elif unknown:
            en, ev = unknown[0]
            raise AnalysisError('C08.a: frame of unknown class enqueued by %s at %s:%s' % (en, ev.func.file, ev.line))
        else:
            rep.ok('C08.a', c, h, '%s %s emits %s (subset of %s) over %d paths' % (
                inter, role, sorted(emitted), sorted(allowed), n_paths))
    rep.require('C08.a', 'handler classes', len(m.handlers), 6)


def rule_b(ctx):
    rep = ctx.report
    m = model(ctx)
    check_guarded_resolve(ctx, 'C07.a', only_module={c.module.name for c in m.handlers})
    n = 0
    for h in m.handlers:
        inter, role = m.role(h)
        if role != 'requester':
            continue
        pre0 = init_bools(ctx, m, h)
        for en in m.entries(h):
            if en.kind != 'frame':
                continue
            n += 1
            raising = [p for p in m.run(en, pre0) if p.outcome == 'raise']
            c = '%s / no exception escapes' % en.name
            if raising:
                last = [e for e in raising[0].events if e.kind == 'raise']
                rep.bad('C08.b', c, (last[-1].func.file, last[-1].line) if last else en.func,
                        'a path raises; the receive loop would answer with an ERROR frame on a stream where a '
                        '%s requester may not send one' % inter)
            else:
                rep.ok('C08.b', c, en.func, 'no raising path', nontrivial=False)
    rep.require('C08.b', 'requester frame entries', n, 30)


CONNECTION_FRAMES = ('SetupFrame', 'KeepAliveFrame', 'LeaseFrame', 'MetadataPushFrame')


def rule_c(ctx):
    rep = ctx.report
    slots = ctx.slots
    sites = 0
    for f in ctx.repo.all_functions():
        if not f.module.name.startswith('rsocket') or f.module.name.startswith('rsocket.cli') or \
                f.module.name == 'rsocket.frame_logger':
            continue
        hits = []
        for n in walk_local(f.node):
            if isinstance(n, ast.Call) and isinstance(n.func, (ast.Name, ast.Attribute)):
                r = ctx.repo.resolve_expr(f.module, n.func, f.cls)
                if isinstance(r, ClassInfo) and r.name in CONNECTION_FRAMES and slots.is_frame_class(r):
                    hits.append((n, r))
        if not hits or f.name == 'parse_or_ignore':
            continue
        cls = None
        if f.cls is not None:
            cs = ctx.repo.concrete_subclasses(f.cls)
            cls = cs[0] if cs else f.cls
        paths = ctx.paths(f, cls, inline_depth=4)
        for node, r in hits:
            sites += 1
            bad = None
            seen = False
            for p in paths:
                objs = [e.data['value'].term for e in p.events if e.kind == 'new' and e.node is node]
                for obj in objs:
                    seen = True
                    for s in p.events:
                        if s.kind == 'store' and s.data['target'][0] == 'attr' and s.data['target'][1] == obj and \
                                s.data['target'][2] == 'stream_id':
                            v = s.data['value']
                            if not (v.is_const() and v.const == 0):
                                bad = 'stream_id of a %s set to %s at line %s' % (r.name, fmt_term(v.term), s.line)
            c = '%s / %s stays on stream 0' % (f.short, r.name)
            if bad:
                rep.bad('C08.c', c, (f.file, node.lineno), bad)
            elif seen:
                rep.ok('C08.c', c, (f.file, node.lineno), 'every store to its stream_id is the constant 0')
    rep.require('C08.c', 'construction sites of connection-level frames', sites, 5)


def lower_bound(path, term, upto_seq):
    """Lower bound of an integer term implied by the comparisons taken on the path before upto_seq."""
    lb = None
    for e in path.events:
        if e.seq >= upto_seq:
            break
        if e.kind != 'cond':
            continue
        k = e.data['key']
        v = e.data['value']
        if k[0] == 'lt':
            a, b = k[1], k[2]
            if a[0] == 'const' and b == term and isinstance(a[1], (int, float)):
                # a < term is v
                if v:
                    lb = max(lb, a[1] + 1) if lb is not None else a[1] + 1
            elif b[0] == 'const' and a == term and isinstance(b[1], (int, float)):
                # term < b is v
                if not v:
                    lb = max(lb, b[1]) if lb is not None else b[1]
    return lb


def rule_d(ctx):
    rep = ctx.report
    slots = ctx.slots
    m = model(ctx)
    # discover the attribute that carries the initial request-n: the one the request builders are fed from
    attr = None
    for h in m.handlers:
        if m.role(h)[1] != 'requester':
            continue
        for f in m.own_methods(h):
            for n in walk_local(f.node):
                if isinstance(n, ast.keyword) and n.arg == 'initial_request_n' and isinstance(n.value, ast.Attribute):
                    attr = n.value.attr
    if attr is None:
        raise AnalysisError('C08.d: cannot find the attribute passed as initial_request_n to the request builders')
    stores = ctx.repo.attr_assignments(slots.StreamHandler, attr)
    rep.require('C08.d', 'stores to %s' % attr, len(stores), 2)
    h0 = [h for h in m.handlers if m.role(h) == ('stream', 'requester')][0]
    for f, stmt, value in stores:
        c = '%s / store to %s' % (f.short, attr)
        cls = h0 if f.cls is not None and h0.is_subclass_of(f.cls) else None
        paths = ctx.paths(f, cls, self_val=m.hval(h0) if cls else None)
        ok = True
        detail = ''
        reached = 0
        for p in paths:
            for e in p.events:
                if e.kind == 'store' and e.node is stmt and e.depth == 1:
                    reached += 1
                    v = e.data['value']
                    if v.is_const():
                        if not (isinstance(v.const, int) and v.const > 0):
                            ok, detail = False, 'constant %r is not positive' % (v.const,)
                    else:
                        lb = lower_bound(p, v.term, e.seq)
                        if lb is None or lb < 1:
                            ok = False
                            detail = 'value %s reaches the store with lower bound %s (a zero or negative initial ' \
                                     'request-n can be sent)' % (fmt_term(v.term), lb)
        if reached == 0:
            raise AnalysisError('C08.d: store at %s:%s not reached' % (f.file, stmt.lineno))
        rep.add('C08.d', c, (f.file, stmt.lineno), ok, detail or 'stored value is > 0 on all %d paths' % reached)
    # ... and <= 2^31 - 1: constants stored are within range, the "unbounded" default is exactly the largest legal value
    fm = ctx.repo.module('rsocket.frame')
    mx = ctx.repo.try_const(fm, fm.assigns['MAX_REQUEST_N'][-1]) if fm.assigns.get('MAX_REQUEST_N') else None
    rep.add('C08.d', 'MAX_REQUEST_N / largest legal request-n', (fm.relpath, getattr(
        (fm.assigns.get('MAX_REQUEST_N') or [None])[-1], 'lineno', 1)), mx == 2 ** 31 - 1,
            'MAX_REQUEST_N = 2^31 - 1' if mx == 2 ** 31 - 1 else
            'MAX_REQUEST_N is %r: the default request-n does not fit the 31-bit field (or is not the maximum)' % (mx,))


def rule_e(ctx):
    rep = ctx.report
    slots = ctx.slots
    setup = slots.frame_classes.get('SetupFrame')
    if setup is None:
        raise AnalysisError('C08.e: SetupFrame vanished')
    sites = []
    for f in ctx.repo.all_functions():
        if not f.module.name.startswith('rsocket') or f.module.name.startswith('rsocket.cli'):
            continue
        for n in walk_local(f.node):
            if isinstance(n, ast.Call) and isinstance(n.func, (ast.Name, ast.Attribute)):
                r = ctx.repo.resolve_expr(f.module, n.func, f.cls)
                if r is setup and f.name != 'parse_or_ignore':
                    sites.append((f, n))
    ok = len(sites) == 1
    rep.add('C08.e', 'SetupFrame / single construction site', sites[0][0] if sites else setup, ok,
            'SETUP is built at exactly one site (%s)' % sites[0][0].short if ok else
            'SETUP is built at %d sites: %s' % (len(sites), [s[0].short for s in sites]))
    if not sites:
        raise AnalysisError('C08.e: no construction site of SetupFrame')
    # who may reach the construction site: walking the call graph upwards, every chain must hit connect()
    reach = {sites[0][0]}
    edges = []
    bad_roots = []
    hit_connect = False
    work = [sites[0][0]]
    while work:
        g = work.pop()
        if g.name == 'connect':
            hit_connect = True
            continue  # whatever calls connect() is outside the scope of this rule
        callers = [c for c, _ in _callers_of(ctx, g) if c is not g]
        if not callers:
            bad_roots.append(g)
        for cf in callers:
            edges.append('%s <- %s' % (g.short, cf.short))
            if cf not in reach and len(reach) < 60:
                reach.add(cf)
                work.append(cf)
    ok = hit_connect and not bad_roots
    rep.add('C08.e', 'SetupFrame / built only on connect', sites[0][0], ok,
            'every call chain that reaches the SETUP construction site passes through connect(): %s' % '; '.join(
                sorted(set(edges))) if ok else
            'SETUP can also be built through %s without passing connect() (chain: %s)' % (
                [f.short for f in bad_roots], '; '.join(sorted(set(edges)))))
    # the head insertion is used for SETUP only
    spf = ctx.repo.func('rsocket.rsocket_base:RSocketBase.send_priority_frame')
    callers = _callers_of(ctx, spf)
    rep.require('C08.e', 'callers of the head insertion', len(callers), 1)
    for cf, cn in callers:
        cls = None
        if cf.cls is not None:
            cs = ctx.repo.concrete_subclasses(cf.cls)
            cls = slots.RSocketClient if slots.RSocketClient in cs else (cs[0] if cs else cf.cls)
        ok = True
        why = ''
        reached = 0
        for p in ctx.paths(cf, cls, inline_depth=5):
            for e in p.events:
                if e.kind == 'enter' and e.data.get('callee') is spf and e.node is cn:
                    reached += 1
                    a = e.data['args'][0] if e.data.get('args') else None
                    if a is None or not a.types or next(iter(a.types)) is not setup:
                        ok = False
                        why = 'head insertion of a frame that is not SETUP (%s)' % (a,)
        if reached == 0:
            ok, why = False, 'call site not reached on any path'
        rep.add('C08.e', '%s / head insertion carries SETUP only' % cf.short, (cf.file, cn.lineno), ok,
                why or 'the frame inserted at the head of the send queue is the SETUP frame built in the same call')


def _callers_of(ctx, g):
    from ..callgraph import callgraph
    return callgraph(ctx).callers(g)


def rule_f(ctx):
    rep = ctx.report
    m = model(ctx)
    n = 0
    for h in m.handlers:
        inter, role = m.role(h)
        if inter != 'channel' or role != 'requester':
            continue
        pre0 = init_bools(ctx, m, h)
        for en in m.entries(h):
            if not en.is_event or en.kind == 'helper':
                continue
            for p in m.run(en, pre0):
                if p.outcome != 'return':
                    continue
                for cname, complete, ev in m.emitted(p):
                    if cname == 'CancelFrame' and m.emit_class(h, cname, complete) == 'whole':
                        n += 1
                        ok = m.producer_cancelled(p)
                        rep.add('C08.f', '%s / emits CancelFrame, local producer stopped' % en.name, en.func, ok,
                                'the outbound subscription is cancelled on the path that sends CANCEL' if ok else
                                'CANCEL is sent but the local publisher keeps its subscription: PAYLOAD frames can '
                                'follow the requester\'s own CANCEL')
    rep.require('C08.f', 'channel requester CANCEL emission sites', n, 1)


def rule_g(ctx):
    rep = ctx.report
    m = model(ctx)
    slots = ctx.slots
    # does a diversion exist at all?
    divert = [f for f in slots.RSocketBase.methods.values()
              if any(isinstance(n, ast.Attribute) and n.attr == slots.request_queue_attr for n in walk_local(f.node))
              and any(isinstance(n, ast.Call) and isinstance(n.func, ast.Attribute) and n.func.attr == 'put_nowait'
                      for n in walk_local(f.node))]
    if not divert:
        rep.ok('C08.g', 'lease diversion', slots.RSocketBase, 'no diversion of requests to a hold queue exists',
               nontrivial=False)
        return
    by_class = {}
    for h in m.handlers:
        inter, role = m.role(h)
        if role != 'requester':
            continue
        for en in m.entries(h):
            if not en.is_event:
                continue
            for p in m.run(en, None):
                for cname, complete, ev in m.emitted(p):
                    if cname in tables.REQUEST_FRAME_INTERACTION or cname == '?':
                        continue
                    if is_enq_lease(ev, slots):
                        continue
                    # is an honoured-lease test on the path before the enqueue?
                    guarded = any(e.kind == 'cond' and 'honor_lease' in repr(e.data['key']) and e.seq < ev.seq
                                  for e in p.events) or any(
                        e.kind == 'call' and e.data.get('name') in ('empty', 'qsize') and
                        _recv_attr(e) == slots.request_queue_attr and e.seq < ev.seq for e in p.events)
                    by_class.setdefault(cname, {'guarded': [], 'direct': []})[
                        'guarded' if guarded else 'direct'].append('%s@%s' % (en.name, ev.line))
    rep.require('C08.g', 'non-request frame classes emitted by requesters', len(by_class), 3)
    for cname, d in sorted(by_class.items()):
        c = 'requester %s / ordered behind a lease-held request' % cname
        if d['direct']:
            rep.bad('C08.g', c, slots.RSocketBase.methods[divert[0].name],
                    'a request can wait in the lease hold queue while the %s of the same stream goes straight to the '
                    'send queue (%d sites, e.g. %s)' % (cname, len(set(d['direct'])), sorted(set(d['direct']))[:3]))
        else:
            rep.ok('C08.g', c, slots.RSocketBase, 'all %d enqueue sites test the diversion first' % len(d['guarded']))


def _recv_attr(e):
    r = e.data.get('recv')
    if r is not None and r.term[0] == 'attr':
        return r.term[2]
    return None


def rule_h(ctx):
    # parity of the ids an endpoint opens (C13.a) and SETUP queued before the sender is released (C16.b)
    from .c13 import rule_a as parity
    from .c16 import rule_b as setup_first
    parity(ctx)
    setup_first(ctx)


def rule_order(ctx):
    # per-stream FIFO on the wire: a terminal/control frame must not overtake fragments of its own stream
    from .c05 import rule_a as c05a
    c05a(ctx)
    from .c05 import rule_f as c05f_
    c05f_(ctx)


def rule_i(ctx):
    """Nothing is emitted on a stream after both directions completed: shared C09.a (cancel paths of the requesters,
    including the request-response callback after a terminal frame) and C07.b (no signal / frame after a terminal)."""
    from .c09 import rule_a as c09a
    c09a(ctx)
    # the Rx adapters: a terminal signal marks the stream done, and only a stream that is not done is cancelled when
    # the observer is disposed (otherwise CANCEL follows the peer's ERROR / COMPLETE)
    from .c20 import rule_d as c20d
    c20d(ctx)


def rule_j(ctx):
    """The library's own subscribers (the awaitable collector, the Rx adapters, the handlers' helper subscribers) do
    not act on the subscription while they are being handed the element that carries COMPLETE: a cancel() or
    request() there puts a CANCEL / REQUEST_N on a stream the peer has just completed."""
    from ..interp import const
    from ..effects import strip_epoch
    rep = ctx.report
    repo = ctx.repo
    sub = repo.cls('reactivestreams.subscriber:Subscriber')
    n = 0
    for k in sorted(repo.concrete_subclasses(sub, include_self=False), key=lambda c: c.qualname):
        if not k.qualname.startswith('rsocket'):
            continue
        f = k.lookup('on_next')
        if f is None or f.cls is sub:
            continue
        params = f.params()
        flag = [p for p in params[2:] if 'complete' in p]
        if not flag:
            continue
        n += 1
        ps = ctx.paths(f, k, args={flag[0]: const(True)}, inline_depth=2)
        bad = None
        for p in ps:
            for e in p.events:
                if e.kind == 'call' and e.data.get('name') in ('cancel', 'request') and e.data.get('recv') is not None:
                    r = fmt_term(strip_epoch(e.data['recv'].term))
                    if 'subscription' in r.lower():
                        bad = (e.data['name'], r, e.node.lineno)
        rep.add('C08.i', '%s.on_next / nothing asked of the subscription with the completing element' % k.name, f,
                bad is None,
                'with %s true no path calls cancel() or request() on the subscription (%d paths)' % (flag[0], len(ps))
                if bad is None else
                '%s.%s() is called (line %d) while the element carrying COMPLETE is delivered: a %s frame follows the '
                "peer's COMPLETE" % (bad[1], bad[0], bad[2], 'CANCEL' if bad[0] == 'cancel' else 'REQUEST_N'))
    rep.require('C08.i', 'library subscribers with a completion flag', n, 8)


def rule_dispatch_by_own_id(ctx):
    """A frame is handed to the handler registered under the frame's own stream id, looked up when the frame arrives
    (shared C01.a): after the requester's CANCEL finish_stream() removes the entry, and frames still in flight must find
    nobody - a remembered handler would go on reacting (credit replenishment: REQUEST_N after CANCEL)."""
    from .c01 import rule_a as c01a
    c01a(ctx)


def rule_adapter_delegations(ctx):
    """The awaitable adapter forwards each call to the wrapped socket's method of the same name (shared C01.h / C11.l):
    `async with AwaitableRSocket(server)` must enter the server's own context - which sends nothing - and not run
    connect(), which every socket inherits and which queues a SETUP frame: a server would then emit SETUP."""
    from .awaitable import rule_delegations, rule_collector_no_cancel_after_the_end
    rule_delegations(ctx, 'C01.h')
    rule_collector_no_cancel_after_the_end(ctx, 'C01.h')


def rule_genpub(ctx):
    """A completed generator-backed publisher does not start delivering again on a late request(n) (typestate by
    re-entry, rules/genpublisher.py)."""
    from .genpublisher import rule_completed_publisher_stays_completed
    rule_completed_publisher_stays_completed(ctx, 'C07.e')
    from .genpublisher import rule_failure_stops_delivery_first
    rule_failure_stops_delivery_first(ctx, 'C07.e')



def _none_test(t):
    """(subject, is_none) for a term that is a test of `subject is None` / `is not None`, through `not`."""
    t = strip_epoch(t)
    if not isinstance(t, tuple):
        return None
    if t[0] == 'cmp' and t[1] in ('Is', 'IsNot') and ('const', None) in (t[2], t[3]):
        subject = t[3] if t[2] == ('const', None) else t[2]
        return subject, t[1] == 'Is'
    if t[0] == 'not':
        inner = _none_test(t[1])
        return (inner[0], not inner[1]) if inner else None
    return None


def rule_channel_complete_flag(ctx):
    """C08.j  A channel requester declares its sending direction complete in REQUEST_CHANNEL exactly when it has no
    publisher.  The COMPLETE flag of the request frame and the sent-complete mark that follows are both decided by
    `<publisher attribute> is None` - the attribute whose subscribe() the set-up calls, fixed at construction - and
    not by state that a publisher fills in later (its subscription): a publisher that signals on_subscribe
    asynchronously would be declared absent, and its payloads would follow a COMPLETE."""
    rep = ctx.report
    repo = ctx.repo
    k = repo.cls('rsocket.handlers.request_channel_requester:RequestChannelRequester')
    f = k.lookup('subscribe') if k is not None else None
    setup = k.lookup('setup') if k is not None else None
    if f is None or setup is None:
        raise AnalysisError('C08.j: RequestChannelRequester.subscribe / setup vanished')
    pubs = set()
    for g in [setup] + [c.methods['setup'] for c in k.mro()[1:] if 'setup' in c.methods]:
        for n in walk_local(g.node):
            if isinstance(n, ast.Call) and isinstance(n.func, ast.Attribute) and n.func.attr == 'subscribe' and \
                    isinstance(n.func.value, ast.Attribute) and isinstance(n.func.value.value, ast.Name) and \
                    n.func.value.value.id == 'self':
                pubs.add(n.func.value.attr)
    if len(pubs) != 1:
        raise AnalysisError('C08.j: the set-up subscribes %s' % sorted(pubs))
    pub = ('attr', ('self',), next(iter(pubs)))
    ps = [p for p in ctx.paths(f, k, inline_depth=3, symbolic_compare=True, stable_attrs=True,
                               no_inline={'mark_completed_and_finish', 'to_request_channel_frame'})
          if p.outcome == 'return']
    ok, detail = bool(ps), ''
    n_with = n_without = 0
    for p in ps:
        built = [e for e in p.events if e.kind == 'call' and e.data.get('name') == 'to_request_channel_frame']
        if not built and not any(e.kind == 'call' and e.data.get('name') in ('send_request', 'send_frame')
                                 for e in p.events):
            continue  # subscribe() returned without opening the channel (cancelled from on_subscribe): nothing written
        if len(built) != 1:
            ok, detail = False, '%d REQUEST_CHANNEL frames built on a path' % len(built)
            continue
        kw = built[0].data.get('kwargs') or {}
        c = kw.get('complete')
        if c is None:
            ok, detail = False, 'the request frame is built without a complete flag'
            continue
        has_none = None
        infeasible = False
        for e in p.events:
            if e.kind == 'cond':
                kk = strip_epoch(e.data['key'])
                fact = None
                if kk[0] == 'isnone' and kk[1] == pub:
                    fact = bool(e.data['value'])
                elif kk[0] in ('truth', 'not'):
                    nt = _none_test(kk[1])
                    if nt is not None and nt[0] == pub:
                        v = bool(e.data['value']) if kk[0] == 'truth' else not bool(e.data['value'])
                        fact = nt[1] if v else not nt[1]
                if fact is not None:
                    if has_none is not None and has_none != fact:
                        infeasible = True  # the same attribute tested twice with different answers
                    has_none = fact
        if infeasible:
            continue
        t = strip_epoch(c.term)
        test = _none_test(t)
        if test is not None:
            if test[0] != pub or test[1] is not True:
                ok, detail = False, ('the COMPLETE flag of REQUEST_CHANNEL is decided by %s, not by the absence of the '
                                     'publisher (self.%s is None)' % (fmt_term(t), pub[2]))
                continue
        elif t[0] == 'const' and has_none is not None:
            if bool(t[1]) != has_none:
                ok, detail = False, 'the COMPLETE flag is %r on a path where the publisher is %s' % (
                    t[1], 'absent' if has_none else 'present')
                continue
        else:
            ok, detail = False, ('the COMPLETE flag of REQUEST_CHANNEL is %s, which is not the absence of the publisher '
                                 '(self.%s is None)' % (fmt_term(t), pub[2]))
            continue
        marks = [e for e in p.events if e.kind == 'call' and e.data.get('name') == 'mark_completed_and_finish' and
                 'sent' in (e.data.get('kwargs') or {}) and e.seq > built[0].seq]
        if has_none is None:
            ok, detail = False, 'the sent-complete mark is not decided by the absence of the publisher'
        elif has_none:
            n_without += 1
            if len(marks) != 1:
                ok, detail = False, 'without a publisher the sending direction is not marked complete'
        else:
            n_with += 1
            if marks:
                ok, detail = False, 'with a publisher the sending direction is marked complete at the request'
    rep.add('C08.j', 'RequestChannelRequester.subscribe / COMPLETE on the request iff there is no publisher', f,
            ok and n_with > 0 and n_without > 0, detail or
            'complete=(self.%s is None) and the sent-complete mark under the same test (%d + %d paths)' % (
                pub[2], n_without, n_with))




def rule_dead_handlers_silenced(ctx):
    """(shared C11.c)  No frame is written for a stream that was not opened on the current connection: the close loop
    silences every handler of the lost connection synchronously - dispose() cancels the handler's producer on every
    path - so nothing the old connection's publishers still hold is written to the connection that replaces it
    (rules/c11.py)."""
    from .c11 import rule_c as c11c
    c11c(ctx)



def rule_setup_is_the_clients(ctx):
    """C08.k  SETUP is a client frame.  RSocketBase.connect() queues it, and a server socket inherits every method of
    the base class: no method defined in RSocketBase or RSocketServer - `__aenter__` included, which every
    `async with server_socket:` runs - calls self.connect(); only methods defined in RSocketClient (or a subclass of it)
    do, and connect() itself is the only function that builds a SETUP frame."""
    rep = ctx.report
    slots = ctx.slots
    base, server, client = slots.RSocketBase, slots.RSocketServer, slots.RSocketClient
    n = 0
    for k in (base, server):
        for name, f in sorted(k.methods.items()):
            n += 1
            calls = [x for x in walk_local(f.node) if isinstance(x, ast.Call) and isinstance(x.func, ast.Attribute) and
                     x.func.attr == 'connect' and isinstance(x.func.value, ast.Name) and x.func.value.id == 'self']
            if calls:
                rep.bad('C08.k', '%s.%s / does not run the client\'s connect()' % (k.name, name), f,
                        'self.connect() in a method a server socket inherits: a server that runs %s() queues a SETUP '
                        'frame on an established connection' % name)
    builders = set()
    for f in ctx.repo.all_functions():
        if not f.module.name.startswith('rsocket.') or f.module.name.startswith(('rsocket.cli', 'rsocket.frame')):
            continue
        for x in walk_local(f.node):
            if isinstance(x, ast.Call) and (isinstance(x.func, ast.Name) and x.func.id in ('to_setup_frame', 'SetupFrame')
                                            or isinstance(x.func, ast.Attribute) and
                                            x.func.attr in ('to_setup_frame', '_create_setup_frame')):
                builders.add(f.qualname.split(':')[-1])
    ok = builders <= {'RSocketBase.connect', 'RSocketBase._create_setup_frame'}
    rep.add('C08.k', 'SETUP frames / built by connect() only', base.lookup('connect'), ok and bool(builders),
            'built in %s' % sorted(builders) if ok else 'SETUP frames are also built in %s' % sorted(
                builders - {'RSocketBase.connect', 'RSocketBase._create_setup_frame'}))
    rep.require('C08.k', 'methods a server socket inherits or defines', n, 40)
    client_calls = [f.name for f in client.methods.values() if any(
        isinstance(x, ast.Call) and isinstance(x.func, ast.Attribute) and x.func.attr == 'connect' and
        isinstance(x.func.value, ast.Name) and x.func.value.id == 'self' for x in walk_local(f.node))]
    rep.add('C08.k', 'RSocketClient / the methods that connect', client, bool(client_calls),
            'self.connect() is called from %s' % sorted(client_calls) if client_calls else
            'no method of the client calls connect(): `async with client` would not connect')




def rule_completing_element_is_flagged(ctx):
    """(shared C01.f)  What a handler does on each received frame is the protocol's reaction; in particular a PAYLOAD
    with NEXT and COMPLETE reaches the subscriber as one on_next(payload, is_complete=True): the library's own
    subscribers decide from that flag whether to ask for more, and without it they emit REQUEST_N / CANCEL on a stream
    whose COMPLETE has been received (rules/reactions.py)."""
    from .c01 import rule_g as c01f
    c01f(ctx)




def rule_ended_stream_is_silent(ctx):
    """C08.l  After the responder's COMPLETE or ERROR has been received, the requester of a request-stream - and after
    both directions have completed either side of a channel - writes nothing further on that stream, whatever the
    application does with the subscription it still holds.  Calling
    request(n) in every on_next and cancel() when done are ordinary reactive-streams usage (on a terminated
    subscription they are no-ops), and the last element is delivered *inside* frame_received, before the stream is
    released.  Typestate by re-entry: from the state each terminal frame entry leaves, request() and cancel() queue no
    frame; and on the paths of that entry the state change precedes the terminal signal, so a request() made from
    inside on_next(…, is_complete=True) / on_complete / on_error already sees it."""
    from .c07 import TERMINAL
    rep = ctx.report
    m = model(ctx)
    n = 0
    from .reactions import _peer_done_flag
    for h in m.handlers:
        inter, role = m.role(h)
        if (inter, role) != ('stream', 'requester') and inter != 'channel':
            continue
        pre0 = init_bools(ctx, m, h)
        if inter == 'channel':
            # a channel has ended when both directions have: start from "this side has completed its own sending"
            peer = _peer_done_flag(m, h, pre0)
            if peer is None:
                raise AnalysisError('C08.l: %s has no flag for the peer\'s completion' % h.name)
            pre0 = {k: (v if k == peer else (True if v is False else v)) for k, v in pre0.items()}
        entries = m.entries(h)
        api = [e for e in entries if e.kind == 'method' and e.func.node.name in ('request', 'cancel')]
        for en in entries:
            if en.kind != 'frame':
                continue
            for p in m.run(en, pre0):
                sigs = [(k, e) for k, e in m.signals(p) if k in TERMINAL]
                if p.outcome != 'return' or not sigs:
                    continue
                n += 1
                post = dict(pre0)
                post.update(m.post_state(p))
                changed = [k for k in post if post[k] != pre0.get(k)]
                c = '%s / request() and cancel() after it write nothing' % en.name
                late = None
                for a in api:
                    for p2 in m.run(a, post):
                        out = m.emitted(p2)
                        if out and late is None:
                            late = (a, out[0][0])
                if late is not None:
                    rep.bad('C08.l', c, late[0].func,
                            'in the state the terminal frame leaves (%s) %s() still queues a %s: a subscriber that asks '
                            'for more in on_next, or cancels when it is done, makes the requester write on a stream '
                            'whose COMPLETE / ERROR it has received' % (
                                '{' + ', '.join('%s=%s' % kv for kv in sorted(post.items())) + '}',
                                late[0].func.node.name, late[1]))
                    continue
                first = min(e.seq for _, e in sigs)
                stores = [e for e in p.events if e.kind == 'store' and e.data['target'][0] == 'attr' and
                          e.data['target'][2] in changed]
                if not stores or min(e.seq for e in stores) > first:
                    rep.bad('C08.l', c, en.func,
                            'the requester notes the end of the stream (%s) only after it has told the subscriber '
                            '(line %s): a request() made from inside that call-back is still written' % (
                                ', '.join(changed) or 'no state', sigs[0][1].line))
                    continue
                rep.ok('C08.l', c, en.func, 'state %s is set before the subscriber is told; request()/cancel() '
                                            'from it queue nothing' % ', '.join(changed))
    rep.require('C08.l', 'terminal frame paths of the stream requester and the channel handlers', n, 9)





def _flat(t):
    """all sub-terms of an interpreter term (epochs stripped)"""
    t = strip_epoch(t)
    out = [t]
    if isinstance(t, tuple):
        for x in t:
            if isinstance(x, tuple):
                out.extend(_flat(x))
    return out



def rule_nothing_before_the_request_frame(ctx):
    """C08.m  Every stream an endpoint opens begins with its request frame.  request_stream() / request_channel() hand
    the application a Publisher that is also the Subscription; the request frame goes out in subscribe().  An
    application that gives such an object up without subscribing has only cancel() to release the id the call
    registered - and cancel() (or request(n)) in the constructor's state must then not write CANCEL / REQUEST_N for an
    id the peer has never seen.  Typestate: from the state the constructor leaves, the public request() and cancel() of
    the stream and channel requesters queue no frame."""
    rep = ctx.report
    m = model(ctx)
    n = 0
    for h in m.handlers:
        inter, role = m.role(h)
        if role != 'requester' or inter not in ('stream', 'channel'):
            continue
        pre0 = init_bools(ctx, m, h, constructed=True)
        sub = [e for e in m.entries(h) if e.kind == 'method' and e.func.node.name == 'subscribe']
        if not sub:
            raise AnalysisError('C08.m: %s has no subscribe()' % h.name)
        # the state subscribe() leaves: if it differs from the constructor's, "before the request frame" is pre0;
        # if it does not, the handler has no way to tell the two apart
        changed = set()
        for p in m.run(sub[0], pre0):
            if p.outcome == 'return':
                post = m.post_state(p)
                changed |= {k for k in post if post[k] != pre0.get(k)}
        for en in m.entries(h):
            if en.kind != 'method' or en.func.node.name not in ('request', 'cancel'):
                continue
            n += 1
            out = None
            for p in m.run(en, pre0):
                em = m.emitted(p)
                if em and out is None:
                    out = em[0][0]
            if out is None and changed and en.func.node.name == 'request':
                # ... and the credit is not lost: the request frame that is still to be written carries it - the value
                # that reaches the initial request-n mentions the n that was asked for
                npar = ('param', en.func.qualname, en.func.params()[1])
                carried = False
                for p in m.run(en, pre0):
                    for e in p.events:
                        if e.kind == 'store' and e.data['target'][0] == 'attr' and \
                                'initial_request_n' in str(e.data['target'][2]) and npar in _flat(e.data['value'].term):
                            carried = True
                if not carried:
                    rep.bad('C08.m', '%s.request / credit asked for before the request frame is carried by it' % h.name,
                            en.func, 'request(n) before subscribe() has written the request frame neither writes '
                                     'REQUEST_N nor adds n to the initial request-n: the credit is lost')
                    continue
            rep.add('C08.m', '%s.%s / before subscribe() it writes nothing' % (h.name, en.func.node.name), en.func,
                    out is None,
                    'no frame is queued in the constructor\'s state' if out is None else
                    '%s() on a requester that was never subscribed queues a %s: the peer receives it for a stream id '
                    'that no request frame has opened%s' % (
                        en.func.node.name, out,
                        '' if changed else ' (subscribe() leaves no mark the handler could consult)'))
    rep.require('C08.m', 'request()/cancel() of stream and channel requesters', n, 4)



RULES = [('C08.a', rule_a), ('C08.b', rule_b), ('C08.c', rule_c), ('C08.d', rule_d), ('C08.e', rule_e),
         ('C08.f', rule_f), ('C08.g', rule_g), ('C05.a', rule_order), ('C13.a+C16.b', rule_h), ('C09.a+C20.d', rule_i), ('C08.i', rule_j), ('C07.e', rule_genpub), ('C01.a', rule_dispatch_by_own_id), ('C01.h', rule_adapter_delegations), ('C08.j', rule_channel_complete_flag), ('C11.c', rule_dead_handlers_silenced), ('C08.k', rule_setup_is_the_clients), ('C01.f', rule_completing_element_is_flagged), ('C08.l', rule_ended_stream_is_silent), ('C08.m', rule_nothing_before_the_request_frame)]
