"""C17 Reconnect yields a fresh, working connection."""
import ast

from .. import AnalysisError
from ..effects import is_spawn, strip_epoch, is_gone
from ..index import walk_local, ClassInfo
from ..interp import fmt_term
from . import COMMON_ASSUMPTIONS

EXPLANATION = (
    'Decides the structure that "a fresh, working connection" rests on: (a) connection-scoped liveness state - the '
    'attributes written by task bodies or frame handlers and read by the task loop guard / the keepalive timeout '
    'comparison (discovered, not named) - is stored on every path of connect() before its first suspension point, so '
    'tasks spawned for the new connection do not inherit the verdict about the old one; (b) the reconnect listener '
    'closes the old connection (without cancelling itself), then installs a fresh transport future, then calls '
    'connect(), in that order on every path; (c) connect() creates a fresh stream table starting at the first id, '
    'a fresh send queue, lease queue and lease before any task is spawned, and (shared with C08.e/C16.b) queues a '
    'new SETUP; (d) a store that replaces the stream table is dominated, with no suspension point in between, by '
    'failing every entry of the table being replaced, so no request registered since the last close sequence is '
    'orphaned. Not decided: that requests issued afterwards are served (liveness).')
EXPLANATION_ADDED = ('(e) reconnect() sets the event the listener waits on; each iteration waits first, skips while a connect is in progress, otherwise marks, clears, closes, connects, and the mark is taken back on every exit of the connect attempt; (f) the transport taken from the provider resolves the transport future and is connected, the closing flag is cleared before the tasks start. Every exit of the old receiver - cancellation by the reconnect included - reaches the close sequence that fails what was pending (shared C11.a). (g) _stop_tasks, which is re-entered by the reconnect listener while the old receiver is still in it, clears each task attribute only after the task read from that attribute has been cancelled and awaited. (round 15) _close_transport has no exit without close() other than finding the transport future not done or holding None - whatever the cause of the reconnect (keepalive timeout included).')
EXPLANATION = EXPLANATION.replace(' Not decided', ' ' + EXPLANATION_ADDED + ' Not decided', 1) \
    if ' Not decided' in EXPLANATION else EXPLANATION + ' ' + EXPLANATION_ADDED
ASSUMPTIONS = COMMON_ASSUMPTIONS


def _attrs_read(f, selfname='self'):
    out = set()
    for n in walk_local(f.node):
        if isinstance(n, ast.Attribute) and isinstance(n.ctx, ast.Load) and isinstance(n.value, ast.Name) and \
                n.value.id == selfname:
            out.add(n.attr)
    return out


def _attrs_stored(f, selfname='self'):
    out = set()
    for n in walk_local(f.node):
        if isinstance(n, ast.Attribute) and isinstance(n.ctx, ast.Store) and isinstance(n.value, ast.Name) and \
                n.value.id == selfname:
            out.add(n.attr)
    return out


def connection_scoped_attrs(ctx):
    """Attributes of the client that (1) are read by the task loop guard is_server_alive() or by a comparison in a
    task body, and (2) are stored by a task body or by a function reached from a frame handler."""
    slots = ctx.slots
    c = slots.RSocketClient
    guard = c.lookup('is_server_alive')
    if guard is None:
        raise AnalysisError('C17.a: is_server_alive vanished')
    readers = set(_attrs_read(guard))
    task_bodies = []
    for name, f in c.methods.items():
        if f.is_async and any(isinstance(n, ast.While) for n in walk_local(f.node)) and name != '_reconnect_listener':
            task_bodies.append(f)
    for f in task_bodies:
        for n in walk_local(f.node):
            if isinstance(n, ast.Compare) or (isinstance(n, ast.BinOp) and isinstance(n.op, ast.Sub)):
                for x in ast.walk(n):
                    if isinstance(x, ast.Attribute) and isinstance(x.value, ast.Name) and x.value.id == 'self':
                        readers.add(x.attr)
    writers = set()
    for f in task_bodies:
        writers |= _attrs_stored(f)
    # functions reached from frame handlers that are overridden by the client (hooks such as _update_last_keepalive)
    base = slots.RSocketBase
    for name, f in base.methods.items():
        if name.startswith('handle_'):
            for n in walk_local(f.node):
                if isinstance(n, ast.Call) and isinstance(n.func, ast.Attribute) and isinstance(n.func.value, ast.Name) \
                        and n.func.value.id == 'self' and n.func.attr in c.methods:
                    writers |= _attrs_stored(c.methods[n.func.attr])
    init_only = {a for a in readers & writers}
    return sorted(init_only)


def rule_a(ctx):
    rep = ctx.report
    slots = ctx.slots
    attrs = connection_scoped_attrs(ctx)
    # configuration periods are read by the comparison but never written by tasks: excluded by construction
    rep.require('C17.a', 'connection-scoped liveness attributes', len(attrs), 2)
    f = slots.RSocketClient.lookup('connect')
    paths = ctx.paths(f, slots.RSocketClient, inline_depth=3,
                      no_inline={'_reset_internals', '_start_tasks', '_connect_new_transport', '_on_connection_error'})
    if not paths:
        raise AnalysisError('C17.a: connect() has no path')
    for a in attrs:
        ok = True
        for p in paths:
            first_await = min([e.seq for e in p.events if e.kind in ('await', 'yield')] or [10 ** 9])
            first_spawn = min([e.seq for e in p.events if e.kind == 'call' and e.data.get('name') == '_start_tasks']
                              or [10 ** 9])
            limit = min(first_await, first_spawn)
            stored = any(e.kind == 'store' and e.data['target'][0] == 'attr' and e.data['target'][2] == a and
                         e.seq < limit for e in p.events)
            if not stored:
                ok = False
        rep.add('C17.a', 'RSocketClient.connect / %s reset' % a, f, ok,
                'stored before the tasks of the new connection are spawned and before the first suspension point'
                if ok else
                'self.%s is written by a task of the previous connection and read by the loop guard / timeout test of '
                'the next one, but connect() does not reset it: after a keepalive timeout the new tasks exit at once' % a)


def rule_b(ctx):
    rep = ctx.report
    slots = ctx.slots
    f = slots.RSocketClient.lookup('_reconnect_listener')
    if f is None:
        raise AnalysisError('C17.b: _reconnect_listener vanished')
    paths = ctx.paths(f, slots.RSocketClient, inline_depth=2, no_inline={'connect', '_close', 'stop_all_streams'})
    full = []
    for p in paths:
        names = [(e.data.get('name'), e) for e in p.events if e.kind == 'call']
        closes = [e for n, e in names if n in ('_close', 'close')]
        connects = [e for n, e in names if n == 'connect']
        if connects:
            full.append((p, closes, connects))
    if not full:
        raise AnalysisError('C17.b: no path of the reconnect listener calls connect()')
    ok = True
    detail = ''
    ct = slots.RSocketClient.lookup('_current_transport')
    tattr = None
    from ..astutil import returned_exprs
    for v in returned_exprs(ct.node):
        if isinstance(v, ast.Attribute):
            tattr = v.attr
    for p, closes, connects in full:
        fresh = [e for e in p.events if e.kind == 'store' and e.data['target'][0] == 'attr' and
                 e.data['target'][2] == tattr]
        if not closes or closes[0].seq > connects[0].seq:
            ok, detail = False, 'connect() is called without closing the previous connection first'
        elif not fresh or not (closes[0].seq < fresh[0].seq < connects[0].seq):
            ok, detail = False, 'the transport future is not replaced between closing the old connection and connect()'
        else:
            kw = closes[0].data.get('kwargs', {})
            args = closes[0].data.get('args') or []
            rc = kw.get('reconnect') or (args[0] if args else None)
            if rc is None or not (rc.is_const() and rc.const is True):
                ok, detail = False, 'the old connection is closed without reconnect=True (that cancels the listener ' \
                                    'itself)'
    rep.add('C17.b', 'RSocketClient._reconnect_listener / close, fresh transport future, connect', f, ok,
            detail or 'the three steps occur in that order on all %d reconnecting paths' % len(full))
    # _close(reconnect=True) must not cancel the reconnect task
    g = slots.RSocketClient.lookup('_close')
    from ..interp import const
    ps = ctx.paths(g, slots.RSocketClient, args={'reconnect': const(True)}, inline_depth=2,
                   no_inline={'close', '_stop_tasks'})
    kills = [e for p in ps for e in p.events if e.kind == 'call' and
             e.data.get('name') in ('cancel_if_task_exists', 'cancel') and
             any('_reconnect_task' in fmt_term(a.term) for a in (e.data.get('args') or []))]
    rep.add('C17.b', 'RSocketClient._close(reconnect=True) / listener survives', g, not kills,
            'the reconnect listener is not cancelled by the close that it performs itself' if not kills else
            'closing for a reconnect cancels the reconnect listener, which is the task performing the reconnect')
    # closing really closes the old transport
    ps2 = ctx.paths(g, slots.RSocketClient, args={'reconnect': const(True)}, inline_depth=4,
                    no_inline={'_stop_tasks'})
    closed = all(any(e.kind == 'call' and e.data.get('name') == '_close_transport' or
                     (e.kind == 'enter' and e.data['callee'].name == '_close_transport') for e in p.events)
                 for p in ps2 if p.outcome == 'return')
    rep.add('C17.b', 'RSocketClient._close / old transport closed', g, closed,
            'the close path reaches the transport close' if closed else 'the close path does not close the transport')


def rule_c(ctx):
    rep = ctx.report
    slots = ctx.slots
    f = slots.RSocketClient.lookup('connect')
    paths = ctx.paths(f, slots.RSocketClient, inline_depth=4,
                      no_inline={'stop_all_streams', '_connect_new_transport', '_on_connection_error',
                                 '_create_setup_frame', 'send_priority_frame', '_subscribe_to_lease_publisher',
                                 '_start_task_if_not_closing'})
    wanted = {
        'stream table': lambda e: e.kind == 'new' and e.data['cls'] is slots.StreamControl,
        'send queue': lambda e: e.kind == 'store' and e.data['target'][0] == 'attr' and
        e.data['target'][2] == slots.send_queue_attr,
        'lease hold queue': lambda e: e.kind == 'store' and e.data['target'][0] == 'attr' and
        e.data['target'][2] == slots.request_queue_attr,
        'reassembly cache': lambda e: e.kind == 'new' and e.data['cls'] is slots.FragmentCache,
        'requester lease': lambda e: e.kind == 'store' and e.data['target'][0] == 'attr' and
        e.data['target'][2] == '_requester_lease',
    }
    for label, pred in wanted.items():
        ok = True
        for p in paths:
            spawn = [e for e in p.events if e.kind == 'call' and e.data.get('name') in (
                '_start_task_if_not_closing', 'create_task', '_start_tasks')]
            if not spawn:
                ok = False
                continue
            fresh = [e for e in p.events if pred(e)]
            if not fresh or fresh[0].seq > spawn[0].seq:
                ok = False
        rep.add('C17.c', 'RSocketClient.connect / fresh %s before the tasks start' % label, f, ok,
                'created on every path before the sender/receiver tasks are spawned' if ok else
                'the %s of the previous connection is still in place when the new tasks start' % label)
    # the new table starts from the first id
    ok = True
    for p in paths:
        for e in p.events:
            if e.kind == 'new' and e.data['cls'] is slots.StreamControl:
                a = e.data['args'][0] if e.data.get('args') else None
                if a is None or not (a.is_const() and a.const == 1):
                    ok = False
    rep.add('C17.c', 'RSocketClient.connect / stream ids restart from 1', f, ok,
            'the fresh stream table starts at the client\'s first id' if ok else
            'the fresh stream table does not start at id 1')


def rule_d(ctx, rule='C17.d'):
    rep = ctx.report
    slots = ctx.slots
    base = slots.RSocketBase
    stores = [(f, stmt) for f, stmt, v in ctx.repo.attr_assignments(base, '_stream_control')
              if isinstance(v, ast.Call)]
    rep.require(rule, 'stores that replace the stream table', len(stores), 1)
    for f, stmt in stores:
        ok = True
        detail = ''
        for cls in (slots.RSocketClient, slots.RSocketServer):
            paths = ctx.paths(f, cls, inline_depth=4, no_inline={'frame_received', 'dispose'})
            for p in paths:
                st = [e for e in p.events if e.kind == 'store' and e.node is stmt]
                if not st:
                    continue
                s = st[0]
                first = any(e.kind == 'cond' and e.data['key'][0] == 'isnone' and e.data['value'] is True and
                            '_stream_control' in repr(e.data['key']) and e.seq < s.seq for e in p.events)
                drained = [e for e in p.events if e.seq < s.seq and (
                    (e.kind == 'enter' and e.data['callee'].name == 'stop_all_streams' and
                     e.data['callee'].cls is slots.StreamControl) or
                    (e.kind == 'call' and e.data.get('name') == 'stop_all_streams'))]
                if first:
                    continue  # nothing to replace: the very first table
                if not drained:
                    ok, detail = False, 'the table is replaced without failing the streams registered in it'
                    continue
                susp = [e for e in p.events if drained[-1].seq < e.seq < s.seq and e.kind in ('await', 'yield')]
                if susp:
                    ok, detail = False, 'a suspension point (line %s) lies between failing the old streams and ' \
                                        'replacing the table: a request can be registered in the gap' % susp[0].line
        rep.add(rule, '%s / store to _stream_control' % f.short, (f.file, stmt.lineno), ok,
                detail or 'every entry of the table being replaced is failed first, with no suspension point in '
                          'between')


def rule_e(ctx):
    """A reconnect request reaches the listener, once per request, and does not wedge it: reconnect() sets the event
    the listener waits on; each iteration waits first, skips while a connect is in progress, otherwise marks the
    connect in progress, closes, connects and clears the event; the in-progress mark is always taken back."""
    rep = ctx.report
    slots = ctx.slots
    C = slots.RSocketClient
    f = C.lookup('_reconnect_listener')
    rc = C.lookup('reconnect')
    if f is None or rc is None:
        raise AnalysisError('C17.e: reconnect / _reconnect_listener vanished')
    ps = ctx.paths(f, C, inline_depth=1, no_inline={'connect', '_close', 'stop_all_streams'})
    waits = {}
    for p in ps:
        for e in p.events:
            if e.kind == 'call' and e.data.get('name') == 'wait' and e.data.get('awaited') and \
                    e.data.get('recv') is not None and strip_epoch(e.data['recv'].term)[0] == 'attr':
                waits[strip_epoch(e.data['recv'].term)[2]] = e
    if len(waits) != 1:
        rep.bad('C17.e', 'RSocketClient._reconnect_listener / waits for a request', f,
                'the listener does not wait on one event before reconnecting (%s): it reconnects in a busy loop or '
                'never' % sorted(waits))
        return
    ev_attr = next(iter(waits))
    # reconnect() sets that event
    ok = False
    for p in ctx.paths(rc, C, inline_depth=1):
        if p.outcome == 'return' and any(e.kind == 'call' and e.data.get('name') == 'set' and
                                         e.data.get('recv') is not None and
                                         strip_epoch(e.data['recv'].term) == ('attr', ('self',), ev_attr)
                                         for e in p.events):
            ok = True
        elif p.outcome == 'return':
            ok = False
            break
    rep.add('C17.e', 'RSocketClient.reconnect / sets the event the listener waits on', rc, ok,
            'reconnect() sets self.%s' % ev_attr if ok else
            'reconnect() does not set self.%s: the request never reaches the listener' % ev_attr)
    # per iteration
    flag = None
    ok = True
    why = ''
    n_conn = n_skip = 0
    for p in ps:
        evs = p.events
        it_start = [e for e in evs if e.kind == 'loop' and e.data.get('phase') == 'enter']
        it_end = [e for e in evs if e.kind == 'loop' and e.data.get('phase') in ('back', 'cut', 'break')]
        if not it_start:
            continue
        lo = it_start[0].seq
        hi = it_end[0].seq if it_end else 10 ** 9
        body = [e for e in evs if lo < e.seq < hi]
        w = [e for e in body if e.kind == 'call' and e.data.get('name') == 'wait']
        closes = [e for e in body if e.kind == 'call' and e.data.get('name') == '_close']
        conns = [e for e in body if e.kind == 'call' and e.data.get('name') == 'connect']
        clears = [e for e in body if e.kind == 'call' and e.data.get('name') == 'clear' and
                  e.data.get('recv') is not None and strip_epoch(e.data['recv'].term) == ('attr', ('self',), ev_attr)]
        conds = [e for e in body if e.kind == 'cond' and e.data['key'][0] == 'truth' and
                 strip_epoch(e.data['key'][1])[0] == 'attr' and strip_epoch(e.data['key'][1])[1] == ('self',)]
        if not w or (closes and w[0].seq > closes[0].seq):
            ok, why = False, 'an iteration closes the connection without having waited for a reconnect request'
            continue
        if not clears:
            ok, why = False, ('an iteration ends without clearing the request event: the listener reconnects again '
                              'and again for one request')
        if conns:
            n_conn += 1
            if not conds or conds[0].data['value'] is not False:
                ok, why = False, 'a reconnect is performed although one is already in progress'
                continue
            flag = strip_epoch(conds[0].data['key'][1])[2]
            marks = [e for e in body if e.kind == 'store' and e.data['target'][0] == 'attr' and
                     e.data['target'][2] == flag and e.data['value'].is_const() and e.data['value'].const is True and
                     e.seq < conns[0].seq]
            if not marks:
                ok, why = False, 'the connect-in-progress flag is not set before the reconnect starts'
        elif conds and conds[0].data['value'] is True and not closes:
            n_skip += 1
        elif conds and conds[0].data['value'] is False:
            # the one legitimate way not to connect: the client was closed while the old connection was being closed -
            # the listener finds that it is no longer the registered listener and ends
            gone = [e for e in evs if e.kind == 'cond' and 'current_task' in repr(strip_epoch(e.data['key'])) and
                    '_reconnect_task' in repr(strip_epoch(e.data['key']))]
            if closes and gone and p.outcome == 'return':
                continue
            ok, why = False, 'with no connect in progress the request is not acted upon'
    rep.add('C17.e', 'RSocketClient._reconnect_listener / one reconnect per request, none while one is in progress', f,
            ok and n_conn > 0 and n_skip > 0,
            why or 'wait -> (in progress: skip | mark, clear, close, fresh future, connect) -> clear (%d paths)' %
            len(ps))
    # the mark is taken back on every way out of the connect attempt
    if flag:
        cn = C.lookup('_connect_new_transport')
        okf = cn is not None
        n = 0
        if cn is not None:
            for p in ctx.paths(cn, C, exc=('app', 'cancel', 'transport'), inline_depth=1):
                if p.outcome == 'cut':
                    continue
                n += 1
                resets = [e for e in p.events if e.kind == 'store' and e.data['target'][0] == 'attr' and
                          e.data['target'][2] == flag and e.data['value'].is_const() and
                          e.data['value'].const is False]
                if not resets:
                    okf = False
        rep.add('C17.e', 'RSocketClient._connect_new_transport / connect-in-progress flag cleared on every exit',
                cn or f, okf and n > 0,
                'self.%s = False on all %d paths (normal, no transport, transport error, cancel)' % (flag, n)
                if okf and n else 'the connect attempt can end with self.%s still set: every later reconnect request '
                                  'is ignored' % flag)


def rule_f(ctx):
    """The new connection is really brought up: the transport taken from the provider resolves the transport future the
    new tasks wait on and is connected (a no-op for TCP, the handshake for websocket-style transports); nothing that
    gates the start of the tasks (the closing flag of the previous connection) is left set when they are started."""
    rep = ctx.report
    slots = ctx.slots
    C = slots.RSocketClient
    cn = C.lookup('_connect_new_transport')
    if cn is None:
        raise AnalysisError('C17.f: _connect_new_transport vanished')
    ok = True
    why = ''
    n = 0
    for p in ctx.paths(cn, C, inline_depth=1, no_inline={'_get_new_transport'}):
        if p.outcome != 'return':
            continue
        n += 1
        got = [e for e in p.events if e.kind == 'call' and e.data.get('name') == '_get_new_transport']
        sets = [e for e in p.events if e.kind == 'call' and e.data.get('name') == 'set_result']
        conn = [e for e in p.events if e.kind == 'call' and e.data.get('name') == 'connect' and e.data.get('awaited')]
        if len(got) != 1 or len(sets) != 1:
            ok, why = False, 'the transport future is not resolved exactly once with a transport taken from the provider'
            continue
        new_t = ('awaited', strip_epoch(got[0].data['value'].term))
        if strip_epoch(sets[0].data['args'][0].term) not in (new_t, new_t[1]):
            ok, why = False, 'the transport future is resolved with something other than the new transport'
        none = [c for c in p.events if c.kind == 'cond' and c.data['key'][0] == 'isnone' and c.seq < sets[0].seq and
                strip_epoch(c.data['key'][1]) in (new_t, new_t[1])]
        if not none or none[-1].data['value'] is not False:
            ok, why = False, 'an exhausted provider (None) is not rejected before the future is resolved'
        if len(conn) != 1 or conn[0].seq < sets[0].seq:
            ok, why = False, ('the new transport is not connected (await transport.connect()): websocket-style '
                              'transports never perform their handshake')
    rep.add('C17.f', 'RSocketClient._connect_new_transport / new transport resolved into the future and connected', cn,
            ok and n > 0, why or 'provider -> not None -> set_result(transport) -> await transport.connect() (%d paths)'
            % n)
    con = C.lookup('connect')
    ok = True
    why = ''
    n = 0
    for p in ctx.paths(con, C, inline_depth=2, no_inline={'_connect_new_transport', 'stop_all_streams',
                                                          '_update_last_keepalive', 'send_priority_frame',
                                                          '_create_setup_frame', '_subscribe_to_lease_publisher'}):
        starts = [e for e in p.events if (e.kind == 'enter' and e.data['callee'].name == '_start_tasks') or
                  (e.kind == 'call' and e.data.get('name') == '_start_tasks')]
        if not starts:
            continue
        n += 1
        flag = None
        for e in p.events:
            if e.seq > starts[0].seq:
                break
            if e.kind == 'store' and e.data['target'][0] == 'attr' and e.data['target'][2] == '_is_closing':
                flag = e.data['value'].const if e.data['value'].is_const() else '?'
        if flag is not False:
            ok, why = False, ('the closing flag of the previous connection is %s when the new tasks are started: '
                              '_start_task_if_not_closing starts nothing' % ('not reset' if flag is None else flag))
    rep.add('C17.f', 'RSocketClient.connect / closing flag cleared before the tasks start', con, ok and n > 0,
            why or 'self._is_closing = False precedes _start_tasks() on all %d paths' % n)


def rule_g(ctx):
    """_stop_tasks is re-entered: the old receiver runs it from its own close sequence while the reconnect listener
    runs it through close(reconnect=True).  The listener must find the old tasks still in their attributes so that it
    waits for them before it connects again - the attribute is cleared only after its task has been cancelled *and
    awaited*.  Cleared first, the listener connects while the old receiver is still closing, and the tail of the old
    close sequence then cancels the keepalive task of the new connection."""
    rep = ctx.report
    slots = ctx.slots
    f = slots.RSocketBase.lookup('_stop_tasks')
    if f is None:
        raise AnalysisError('C17.g: RSocketBase._stop_tasks vanished')
    ps = [p for p in ctx.paths(f, slots.RSocketClient, inline_depth=0) if p.outcome == 'return']
    ok, detail = bool(ps), ''
    attrs = set()
    for p in ps:
        waited = set()
        for e in p.events:
            if e.kind == 'call' and e.data.get('awaited') and 'cancel' in str(e.data.get('name')):
                for a in e.data.get('args', []):
                    t = strip_epoch(a.term)
                    if t[0] == 'attr' and t[1] == ('self',):
                        waited.add(t[2])
                        attrs.add(t[2])
            if e.kind == 'store' and e.data['target'][0] == 'attr' and 'task' in e.data['target'][2] and \
                    strip_epoch(e.data['value'].term) == ('const', None):
                a = e.data['target'][2]
                attrs.add(a)
                if a not in waited:
                    ok, detail = False, ('self.%s is cleared (line %s) before its task has been cancelled and awaited: '
                                         'a re-entrant _stop_tasks - the reconnect listener - no longer waits for it' % (
                                             a, e.line))
    if len(attrs) < 2:
        raise AnalysisError('C17.g: _stop_tasks handles %d task attributes' % len(attrs))
    rep.add('C17.g', 'RSocketBase._stop_tasks / a task attribute is cleared only after its task was awaited', f, ok,
            detail or 'each of %s is passed to the awaited cancellation from its attribute, then set to None' %
            ', '.join(sorted(attrs)))


def rule_plumbing(ctx):
    """Reconnect closes the old connection: tasks stopped, old transport closed; hooks of the sender run per connection."""
    from . import plumbing
    plumbing.rule_close_transport(ctx, 'C17.b')
    plumbing.rule_sender_hooks(ctx, 'C17.b')
    # reconnect cancels the old receiver: that exit, like EOF and transport error, must reach the close sequence that
    # fails what was pending on the old connection (shared C11.a)
    from .c11 import rule_a as c11a, rule_g as c11g
    c11a(ctx)
    # ... and that close sequence fails what was queued but never written - both queues, the lease hold queue
    # included (a fire-and-forget waiting for a lease has no other completion signal) (shared C11.g)
    c11g(ctx)
    # keepalives restart with every connection (shared C15.c)
    from .c15 import rule_c as c15c
    c15c(ctx)



def rule_lease_per_connection(ctx):
    """(shared C14.e)  Every connection of a reconnecting client announces its leases: connect() subscribes the
    configured lease publisher on every path - not only the first time - with a subscriber bound to this socket, so
    the requests of the peer's new session are not held for ever (rules/plumbing.py)."""
    from . import plumbing
    plumbing.rule_lease_wiring(ctx, 'C14.e')



def rule_stop_tasks_reentrant(ctx):
    """C17.h  The close sequence of the old connection and the reconnect listener's close run concurrently (on_close
    may call reconnect() before the receiver has finished), so _stop_tasks must be safe against both itself and the
    connect() that follows:
      * no task awaits itself: the close sequence runs inside the receiver, and `await cancel_if_task_exists(<the
        receiver task>)` from the receiver is a self-await - a RuntimeError that the helper swallows, but which leaves
        the task marked as being awaited, so the listener's own await of that task fails at once and the listener goes
        on to connect() while the old receiver is still in its close sequence.  Every cancel-and-await of the receiver
        task that the receiver's close sequence can reach is guarded by `is not asyncio.current_task()`;
      * no stale clear: a task attribute is set to None after an await only behind a test that it still holds the
        task that was stopped (`self._x_task is task`) - otherwise the old receiver, finishing late, wipes the handle
        of the task connect() has just started, and the next reconnect cannot stop that task."""
    rep = ctx.report
    slots = ctx.slots
    n_cancel = n_clear = 0
    for cls in (slots.RSocketClient, slots.RSocketServer):
        f = cls.lookup('_stop_tasks')
        if f is None:
            raise AnalysisError('C17.h: _stop_tasks vanished')
        ok_self, ok_clear = True, True
        d_self = d_clear = ''
        for p in ctx.paths(f, cls, inline_depth=2, no_inline={'cancel_if_task_exists'}):
            evs = p.events
            for e in evs:
                if e.kind == 'call' and e.data.get('name') == 'cancel_if_task_exists' and e.data.get('args'):
                    t = strip_epoch(e.data['args'][0].term)
                    if t == ('attr', ('self',), '_receiver_task'):
                        n_cancel += 1
                        guards = [c for c in evs if c.kind == 'cond' and c.seq < e.seq and
                                  'current_task' in repr(strip_epoch(c.data['key'])) and
                                  '_receiver_task' in repr(strip_epoch(c.data['key']))]
                        not_me = [c for c in guards if (strip_epoch(c.data['key'])[0] == 'is' and not c.data['value'])
                                  or (strip_epoch(c.data['key'])[0] in ('isnot', 'is_not') and c.data['value'])]
                        if not not_me:
                            ok_self, d_self = False, ('the receiver task is cancelled and awaited without asking whether '
                                                      'it is the current task: the close sequence, which runs inside the '
                                                      'receiver, awaits itself')
                if e.kind == 'store' and e.data['target'][0] == 'attr' and \
                        strip_epoch(e.data['target'][1]) == ('self',) and e.data['target'][2].endswith('_task') and \
                        e.data['value'].is_const() and e.data['value'].const is None:
                    attr = e.data['target'][2]
                    awaits = [a for a in evs if a.kind == 'await' and a.seq < e.seq]
                    if not awaits:
                        continue
                    n_clear += 1
                    recheck = [c for c in evs if c.kind == 'cond' and awaits[-1].seq < c.seq < e.seq and
                               strip_epoch(c.data['key'])[0] == 'is' and c.data['value'] and
                               repr(strip_epoch(c.data['key'])).count(attr) >= 2]
                    if not recheck:
                        ok_clear, d_clear = False, ('self.%s = None after an await without testing that it still holds '
                                                    'the task that was stopped: a connect() that ran meanwhile loses '
                                                    'the handle of its new task' % attr)
        rep.add('C17.h', '%s._stop_tasks / the receiver task is not awaited from inside itself' % cls.name, f, ok_self,
                d_self or 'every cancel_if_task_exists(<receiver task>) is behind `is not asyncio.current_task()`')
        rep.add('C17.h', '%s._stop_tasks / a task attribute is cleared only if it still holds the stopped task' %
                cls.name, f, ok_clear, d_clear or 'every clear after an await is behind `self._x_task is <stopped task>`')
    # the same hazard anywhere in the library: an attribute read before an await and overwritten after it, while
    # another method of the class writes it too (so the value may have been replaced during the await), is
    # overwritten only behind a re-check `self.x is <what was read>`
    writers = {}
    funcs = [f for f in ctx.repo.all_functions() if f.module.name.startswith('rsocket.') and
             not f.module.name.startswith('rsocket.cli')]

    def self_attrs(node, store):
        return [z for z in ast.walk(node) if isinstance(z, ast.Attribute) and isinstance(z.value, ast.Name) and
                z.value.id == 'self' and isinstance(z.ctx, ast.Store if store else ast.Load)]

    for f in funcs:
        for n in walk_local(f.node):
            ts = n.targets if isinstance(n, ast.Assign) else [n.target] if isinstance(
                n, (ast.AugAssign, ast.AnnAssign)) else []
            for t in ts:
                for z in self_attrs(t, True):
                    writers.setdefault((f.cls.name if f.cls else None, z.attr), set()).add(f.name)
    n_sites = 0
    for f in funcs:
        if not f.is_async:
            continue
        awaits = sorted(n.lineno for n in walk_local(f.node) if isinstance(n, ast.Await))
        if not awaits:
            continue
        first_load = {}
        for z in self_attrs(f.node, False):
            if z in list(walk_local(f.node)):
                first_load[z.attr] = min(first_load.get(z.attr, 10 ** 9), z.lineno)
        for n in walk_local(f.node):
            if not isinstance(n, ast.Assign):
                continue
            for t in n.targets:
                if not (isinstance(t, ast.Attribute) and isinstance(t.value, ast.Name) and t.value.id == 'self'):
                    continue
                attr = t.attr
                rd = first_load.get(attr)
                if rd is None or rd >= n.lineno or not [a for a in awaits if rd <= a <= n.lineno]:
                    continue
                others = writers.get((f.cls.name if f.cls else None, attr), set()) - {f.name, '__init__'}
                if not others:
                    continue
                n_sites += 1
                guarded = False
                for g in walk_local(f.node):
                    if isinstance(g, ast.If) and any(x is n for b in g.body for x in ast.walk(b)):
                        for c in ast.walk(g.test):
                            if isinstance(c, ast.Compare) and len(c.ops) == 1 and isinstance(c.ops[0], ast.Is) and \
                                    any(isinstance(x, ast.Attribute) and x.attr == attr
                                        for x in [c.left] + c.comparators):
                                guarded = True
                last_await = max(a for a in awaits if rd <= a <= n.lineno)
                for g in walk_local(f.node):
                    # guard clause: `if self.x is not <read>: return`
                    if isinstance(g, ast.If) and last_await <= g.lineno < n.lineno and g.body and \
                            isinstance(g.body[-1], (ast.Return, ast.Raise, ast.Continue, ast.Break)):
                        tests = [(g.test, False)]
                        if isinstance(g.test, ast.UnaryOp) and isinstance(g.test.op, ast.Not):
                            tests = [(g.test.operand, True)]
                        for c, negated in tests:
                            want = ast.Is if negated else ast.IsNot
                            if isinstance(c, ast.Compare) and len(c.ops) == 1 and isinstance(c.ops[0], want) and \
                                    any(isinstance(x, ast.Attribute) and x.attr == attr
                                        for x in [c.left] + c.comparators):
                                guarded = True
                rep.add('C17.h', '%s / self.%s overwritten after an await only if it is still what was read' % (
                    f.qualname.split(':')[-1], attr), f, guarded,
                    'behind `self.%s is <value read before the await>` (other writers: %s)' % (attr, sorted(others))
                    if guarded else
                    'self.%s is read at line %d, the function awaits, and line %d overwrites it without re-checking; %s '
                    'also write it, so a value stored during the await is lost' % (attr, rd, n.lineno, sorted(others)))
    rep.require('C17.h', 'read-await-overwrite sites with a concurrent writer', n_sites, 3)
    rep.require('C17.h', 'cancel-and-await sites of the receiver task', n_cancel, 1)
    rep.require('C17.h', 'task attributes cleared after an await', n_clear, 2)




def rule_provider_iterated_once(ctx):
    """C17.i  Each connection takes the *next* transport of the provider.  The constructor turns the provider into an
    iterator once (`provider.__aiter__()` / `aiter(provider)`) and keeps it; `_get_new_transport` takes exactly one
    step of that kept iterator (`__anext__()` / `anext()`), hands back what the step produced, and nothing else stores
    the attribute.  An `async for` over the attribute, or a second `__aiter__()`, starts a re-iterable provider (a
    fail-over list of endpoints) from its first transport on every reconnect - the endpoint that has just failed."""
    rep = ctx.report
    C = ctx.slots.RSocketClient
    g = C.lookup('_get_new_transport')
    init = C.methods.get('__init__')
    if g is None or init is None:
        raise AnalysisError('C17.i: RSocketClient._get_new_transport / __init__ vanished')

    def self_attr(e):
        return e.attr if isinstance(e, ast.Attribute) and isinstance(e.value, ast.Name) and e.value.id == 'self' \
            else None

    def step_of(e):
        """attr when e is self.<attr>.__anext__() or anext(self.<attr>)"""
        if isinstance(e, ast.Call) and isinstance(e.func, ast.Attribute) and e.func.attr == '__anext__':
            return self_attr(e.func.value)
        if isinstance(e, ast.Call) and isinstance(e.func, ast.Name) and e.func.id == 'anext' and e.args:
            return self_attr(e.args[0])
        return None

    steps = [(n, step_of(n)) for n in walk_local(g.node) if isinstance(n, ast.Call) and step_of(n)]
    loops = [n for n in walk_local(g.node) if isinstance(n, (ast.AsyncFor, ast.For))]
    again = [n for n in walk_local(g.node) if isinstance(n, ast.Call) and (
        (isinstance(n.func, ast.Attribute) and n.func.attr == '__aiter__') or
        (isinstance(n.func, ast.Name) and n.func.id == 'aiter'))]
    ok, why = True, ''
    attr = steps[0][1] if steps else None
    if loops or again:
        ok, why = False, ('line %d: the provider is iterated from its start on every call (%s): a re-iterable provider '
                          'hands out its first transport again' % ((loops or again)[0].lineno,
                                                                   'async for' if loops else '__aiter__()'))
    elif len(steps) != 1:
        ok, why = False, '_get_new_transport takes %d steps of the provider, not one' % len(steps)
    else:
        call = steps[0][0]
        local = {}
        for n in walk_local(g.node):
            if isinstance(n, ast.Assign) and len(n.targets) == 1 and isinstance(n.targets[0], ast.Name):
                local.setdefault(n.targets[0].id, []).append(n.value)
        rets = [n for n in walk_local(g.node) if isinstance(n, ast.Return)]
        produced = 0
        for r in rets:
            v = r.value
            if isinstance(v, ast.Name) and len(local.get(v.id, [])) == 1:
                v = local[v.id][0]
            if isinstance(v, ast.Await):
                v = v.value
            if v is call:
                produced += 1
            elif not (v is None or (isinstance(v, ast.Constant) and v.value is None)):
                ok, why = False, 'line %d: returns %s, not what the provider produced' % (r.lineno, ast.unparse(r.value))
        if ok and not produced:
            ok, why = False, 'what the provider produced is not returned'
    if ok:
        stores = []
        for k in C.mro():
            for f in k.methods.values():
                for n in walk_local(f.node):
                    if isinstance(n, (ast.Assign, ast.AnnAssign, ast.AugAssign)):
                        ts = n.targets if isinstance(n, ast.Assign) else [n.target]
                        for t in ts:
                            if self_attr(t) == attr:
                                stores.append((f, n))
        params = set(init.params())
        for f, n in stores:
            v = getattr(n, 'value', None)
            good = f is init and isinstance(v, ast.Call) and (
                (isinstance(v.func, ast.Attribute) and v.func.attr == '__aiter__' and
                 isinstance(v.func.value, ast.Name) and v.func.value.id in params) or
                (isinstance(v.func, ast.Name) and v.func.id == 'aiter' and v.args and
                 isinstance(v.args[0], ast.Name) and v.args[0].id in params))
            if not good:
                ok, why = False, ('%s line %d: self.%s = %s - the kept iterator is the constructor\'s '
                                  'provider.__aiter__(), made once' % (f.qualname.split(':')[-1], n.lineno, attr,
                                                                       ast.unparse(v) if v is not None else '?'))
        if ok and len(stores) != 1:
            ok, why = False, 'self.%s is stored %d times' % (attr, len(stores))
    rep.add('C17.i', 'RSocketClient._get_new_transport / one step of the iterator made once from the provider', g, ok,
            why or 'self.%s = provider.__aiter__() in __init__ only; one __anext__() per connection, its value returned'
            % attr)




def rule_transport_close_contained(ctx):
    """C17.j (rules/msgtransports.py): closing the old transport cannot cancel the reconnect - a transport's close()
    that cancels and awaits its feeder task keeps that task's CancelledError to itself."""
    from .msgtransports import rule_close_contains_its_own_cancellation
    rule_close_contains_its_own_cancellation(ctx, 'C17.j')




def rule_dead_requesters_stay_dead(ctx):
    """(shared C08.l)  After a reconnect the ids start again from 1: a requester of the old connection that was failed by
    the close sequence must be inert from then on - a later request()/cancel() on its subscription would otherwise be
    written with the old id on the new connection and hit the fresh request that holds it now.  The requester notes the
    end of its stream before it tells the subscriber (whose on_error may raise) (rules/c08.py)."""
    from .c08 import rule_ended_stream_is_silent
    rule_ended_stream_is_silent(ctx)



RULES = [('C17.a', rule_a), ('C17.b', rule_b), ('C17.c', rule_c), ('C17.d', rule_d), ('C17.e', rule_e), ('C17.f', rule_f), ('C17.b+C11.a+C11.g', rule_plumbing), ('C17.g', rule_g), ('C14.e', rule_lease_per_connection), ('C17.h', rule_stop_tasks_reentrant), ('C17.i', rule_provider_iterated_once), ('C17.j', rule_transport_close_contained), ('C08.l', rule_dead_requesters_stay_dead)]
