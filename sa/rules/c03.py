"""C03 Fragmentation and reassembly are exact and respect the size limit."""
import ast

from .. import AnalysisError
from .. import tables
from ..effects import strip_epoch
from ..index import walk_local, ClassInfo
from ..interp import fmt_term, const, AVal
from ..layout import Atoms, to_lin
from ..linear import Lin
from . import COMMON_ASSUMPTIONS
from .codec import frame_classes, writer_paths, emit_sig, HEADER

TECHNIQUE = 'linear-form size accounting extracted from the fragmenter and the frame writers; typestate over the ' \
            'generator\'s yields; path-sensitive interpretation of fragment->frame and reassembly'

EXPLANATION = (
    'Decides: (a) size accounting as linear forms - the body budget of the first and of subsequent fragments is '
    'extracted from the fragmenter constructor (fragment size, header size, minus 3 when length-prefixed), followed '
    'through the read() calls to every yielded fragment (len(read(n)) <= n), and added to the wire overhead '
    'extracted from the frame writers (length prefix, 6-byte header, type-specific middle, 3-byte metadata length '
    'field when the fragment carries metadata); the sum must be <= the configured size for every fragment kind; the '
    'header-length table must equal 6 + the middle each class really writes; (b) fragment->frame: first fragment '
    'built from the class of the original frame, the rest PAYLOAD, initial request-n and stream id copied, follows = '
    'not last, complete and the sent-future only on the last; (c) reassembly copies the complete flag of the last '
    'fragment for every head class that owns it, appends data/metadata in arrival order and drops the cache entry '
    'when the frame is complete; (d) no fragment with metadata is yielded after a fragment with data; (e) the '
    'fragment size is stored only behind the >= 64 gate and reaches the builders unmodified; (f) the last-fragment '
    'mark of every yielded fragment is decided by exhaustion of the byte counters (cumulative read == total), never '
    'by the size of a read, and nothing is yielded after a fragment marked last. Not decided: exact reassembly of '
    'arbitrary byte strings (a value property).')
EXPLANATION_ADDED = ("(g) the fragment generator on every enumerated path: every read is counted (counters start at 0) before the next read or yield, every byte read is yielded once in its own field unless the read is known empty, exactly the first fragment is marked first and the mark is cleared after every yield, at least one fragment per frame, the generator ends only with both fields known exhausted, a fragment is marked last only when the field its mark does not test is known exhausted; (h) data_to_fragments_if_required yields the whole payload as one fragment without a size and passes on every fragment of a FrameFragmenter built from the same arguments with one; reassembly: a non-final fragment stores the builder's result under its stream id, a final one returns the builder's result and pops the entry, arriving content is appended field to field after the cached content. (i) the framing mode reaches the size accounting: every caller of get_next_fragment asks the transport it writes to, and get_next_fragment hands that answer with the frame's data, metadata, header length and fragment size to the fragmenter (arguments bound against the signature, positional or keyword).")
EXPLANATION = EXPLANATION.replace(' Not decided', ' ' + EXPLANATION_ADDED + ' Not decided', 1) \
    if ' Not decided' in EXPLANATION else EXPLANATION + ' ' + EXPLANATION_ADDED
ASSUMPTIONS = COMMON_ASSUMPTIONS + ['io.BytesIO.read(n) returns at most n bytes, consecutively, and b"" only at the end']

FRAG = 'rsocket.frame_fragmenter:FrameFragmenter'


def _fragmentable(ctx):
    m = ctx.repo.module('rsocket.frame')
    fn = m.functions.get('is_fragmentable_frame')
    if not fn:
        raise AnalysisError('C03: is_fragmentable_frame vanished')
    named = []
    for n in walk_local(fn[-1].node):
        if isinstance(n, ast.Tuple):
            for e in n.elts:
                c = ctx.repo.resolve_expr(m, e)
                if isinstance(c, ClassInfo):
                    named.append(c)
    # isinstance() also holds for subclasses: the classes the predicate accepts are the concrete frame classes at or
    # below the named ones
    out = []
    for c in named:
        for k in ctx.repo.concrete_subclasses(c):
            if k not in out and k.qualname.startswith('rsocket.frame:'):
                out.append(k)
    if len(out) < 5:
        raise AnalysisError('C03: expected 5 fragmentable frame classes, found %d' % len(out))
    return out


def rule_predicate_is_the_mixin(ctx):
    """What `is_fragmentable_frame` accepts (subclasses included) is exactly the set of frame classes that mix in
    FrameFragmentMixin - the frames that can be sent in fragments and therefore carry the FOLLOWS flag.  A wider
    predicate sends other frames (REQUEST_N is a RequestFrame too) through the reassembly cache, which rejects them
    while a fragment train of their stream is open; a narrower one lets fragments bypass the cache."""
    rep = ctx.report
    accepted = {k.name for k in _fragmentable(ctx)}
    mixin = ctx.repo.cls('rsocket.frame:FrameFragmentMixin')
    mixed = {k.name for k in ctx.repo.concrete_subclasses(mixin, include_self=False)
             if k.qualname.startswith('rsocket.frame:')}
    ok = accepted == mixed
    rep.add('C03.c', 'is_fragmentable_frame / accepts exactly the classes that can be fragmented', mixin, ok,
            'the %d classes with FrameFragmentMixin' % len(mixed) if ok else
            'accepted but not fragmentable: %s; fragmentable but not accepted: %s' % (
                sorted(accepted - mixed) or '-', sorted(mixed - accepted) or '-'))


def _budgets(ctx, length_required: bool):
    """attribute name -> Lin over S (fragment_size_bytes) and H (first_frame_header_size)"""
    ff = ctx.repo.cls(FRAG)
    init = ff.lookup('__init__')
    ps = [p for p in ctx.paths(init, ff, args={'frame_length_required': const(length_required)})
          if p.outcome == 'return']
    if not ps:
        raise AnalysisError('C03.a: FrameFragmenter.__init__ has no returning path')
    atoms = Atoms()
    out = {}
    names = {}
    for e in ps[0].events:
        if e.kind == 'store' and e.data['target'][0] == 'attr' and e.data['target'][1] == ('self',):
            t = e.data['value'].term
            try:
                lin = to_lin(t, atoms)
            except Exception:
                continue
            out[e.data['target'][2]] = lin
    ren = {}
    for a, t in atoms.terms.items():
        if t[0] == 'param':
            ren[a] = {'fragment_size_bytes': 'S', 'first_frame_header_size': 'H'}.get(t[2], t[2])
        else:
            ren[a] = fmt_term(t)
    return {k: Lin({ren.get(a, a): c for a, c in v.coef.items()}, v.const) for k, v in out.items()}


def _body_bound(path, ev, budgets):
    """Upper bound (Lin over S, H) of len(data)+len(metadata) of the Fragment built at `ev`."""
    args = list(ev.data.get('args') or [])
    kw = ev.data.get('kwargs') or {}
    comps = []
    for i, name in enumerate(('data', 'metadata')):
        v = args[i] if i < len(args) else kw.get(name)
        if v is None:
            continue
        comps.append((name, strip_epoch(v.term)))
    atoms = Atoms()
    total = Lin.k(0)
    bounds = {}
    order = []
    for name, t in comps:
        if t[0] == 'const':
            continue  # None or b''
        if t[0] == 'call' and t[1] == 'read':
            la = 'len:' + name
            total = total + Lin.atom(la)
            arg = t[2][0] if t[2] else None
            if arg is None:
                raise AnalysisError('C03.a: unbounded read() feeds a fragment')
            bounds[la] = (t, arg)
            order.append(la)
        else:
            raise AnalysisError('C03.a: fragment component %s is not a bounded read: %s' % (name, fmt_term(t)))

    def lin_of(arg):
        lin = to_lin(arg, atoms)
        res = Lin.k(lin.const)
        for a, c in lin.coef.items():
            t = atoms.terms[a]
            if t[0] == 'attr' and t[1] == ('self',) and t[2] in budgets:
                res = res + budgets[t[2]].scale(c)
            elif t[0] == 'pure' and t[1] == 'len' and t[3]:
                inner = strip_epoch(t[3][0])
                hit = [la for la, (rt, _) in bounds.items() if rt == inner]
                if hit:
                    res = res + Lin.atom(hit[0]).scale(c)
                else:
                    res = res + Lin.atom(fmt_term(t)).scale(c)
            else:
                res = res + Lin.atom(fmt_term(t)).scale(c)
        return res

    # substitute the components read last first (their bound may mention the length of earlier ones)
    seqs = {la: [e.seq for e in path.events if e.kind == 'call' and e.data.get('name') == 'read' and
                 strip_epoch(e.data['value'].term) == bounds[la][0]] for la in order}
    for la in sorted(order, key=lambda x: -(seqs[x][0] if seqs[x] else 0)):
        c = total.coef.get(la, 0)
        if c > 0:
            total = total - Lin.atom(la).scale(c) + lin_of(bounds[la][1]).scale(c)
    return total, [n for n, t in comps if t[0] != 'const']


def rule_a(ctx):
    rep = ctx.report
    ff = ctx.repo.cls(FRAG)
    it = ff.lookup('__iter__')
    frag_classes = _fragmentable(ctx)
    fc = frame_classes(ctx)
    # |middle(T)| actually written, and whether a fragment with metadata carries the 3-byte length field
    middles = {}
    for T in frag_classes:
        wps = writer_paths(ctx, T, 'native')
        sizes = set()
        metalen = set()
        for wc, hb, rest, atoms, p in wps:
            sigs = [emit_sig(e) for e in rest]
            fixed = 0
            for s in sigs:
                if s[0] == 'int' and not (isinstance(s[3], tuple) and s[3][0] == 'lenof'):
                    fixed += s[1]
                else:
                    break
            sizes.add(fixed)
            if wc.get('metadata') and wc.get('flags_metadata', True):
                metalen.add(any(s[0] == 'int' and s[1] == 3 and s[3] == ('lenof', 'metadata') for s in sigs))
        if len(sizes) != 1 or metalen != {True}:
            raise AnalysisError('C03.a: cannot extract the prefix of %s (middle sizes %s, metadata length %s)' % (
                T.name, sizes, metalen))
        middles[T] = sizes.pop()
    # what the fragmenter is told precedes the payload of the first fragment: get_header_length(frame), evaluated per
    # class and per "frame carries metadata" (a table lookup today; a computed value is accepted as well)
    m = ctx.repo.module('rsocket.frame')
    ghl = m.functions.get('get_header_length')
    if not ghl:
        raise AnalysisError('C03.a: get_header_length vanished')
    ghl = ghl[-1]
    tab = m.assigns.get('frame_header_length')
    table_lit = {}
    if tab and isinstance(tab[-1], ast.Dict):
        for k, v in zip(tab[-1].keys, tab[-1].values):
            c = ctx.repo.resolve_expr(m, k)
            val = ctx.repo.try_const(m, v)
            if isinstance(c, ClassInfo):
                table_lit[c] = val
    header_told = {}
    ft = ('param', ghl.qualname, ghl.params()[0])
    for T in frag_classes:
        for meta in (False, True):
            heap = {(ft, 'metadata'): const(b'm' if meta else None), (ft, '_flags_metadata'): const(False),
                    (ft, 'flags_metadata'): const(meta), (ft, 'metadata_only'): const(False)}
            vals = set()
            for p in ctx.paths(ghl, None, args={ghl.params()[0]: AVal(ft, [T], exact=True)}, initial_heap=heap,
                               stable_attrs=True, inline_depth=3):
                if p.outcome != 'return':
                    continue
                t = strip_epoch(p.value.term)
                if t[0] == 'const' and isinstance(t[1], int):
                    vals.add(t[1])
                elif t[0] == 'item' and 'frame_header_length' in repr(t[1]) and T in table_lit:
                    vals.add(table_lit[T])
                else:
                    raise AnalysisError('C03.a: get_header_length(%s) is %s' % (T.name, fmt_term(t)[:80]))
            if len(vals) != 1:
                raise AnalysisError('C03.a: get_header_length(%s, metadata=%s) has values %s' % (T.name, meta, vals))
            header_told[(T, meta)] = vals.pop()
    table = {T: header_told[(T, False)] for T in frag_classes}
    for T in frag_classes:
        ok = all(header_told[(T, mt)] >= HEADER + middles[T] for mt in (False, True))
        rep.add('C03.a', 'frame_header_length / %s' % T.name, ghl, ok,
                'table says %s = 6 + %d bytes the class writes before the payload' % (table.get(T), middles[T]) if ok
                else 'table says %s but %s writes 6 + %d bytes before the payload' % (table.get(T), T.name,
                                                                                       middles[T]))
    # budgets and bounds per yielded fragment
    results = {}
    for L in (True, False):
        budgets = _budgets(ctx, L)
        # the boolean / integer constants __init__ leaves in the object (the first-fragment flag in particular)
        heap = {}
        for n in walk_local(ff.lookup('__init__').node):
            if isinstance(n, ast.Assign) and len(n.targets) == 1 and isinstance(n.targets[0], ast.Attribute) and \
                    isinstance(n.targets[0].value, ast.Name) and n.targets[0].value.id == 'self' and \
                    isinstance(n.value, ast.Constant) and isinstance(n.value.value, bool):
                heap[(('self',), n.targets[0].attr)] = const(n.value.value)
        paths = ctx.paths(it, ff, symbolic_compare=True, initial_heap=heap)
        for p in paths:
            firsts = {}
            for e in p.events:
                if e.kind == 'new' and e.data['cls'].name == 'Fragment':
                    comps_bound, comps = _body_bound(p, e, budgets)
                    if not comps:
                        kind = 'empty'
                    elif comps == ['data']:
                        kind = 'data-only'
                    elif comps == ['metadata']:
                        kind = 'metadata-only'
                    else:
                        kind = 'metadata+data'
                    kw = e.data.get('kwargs') or {}
                    first = kw.get('is_first')
                    is_first = None
                    if first is not None and first.is_const():
                        is_first = first.const
                    # the position of the fragment (its first-mark) decides which header precedes it on the wire,
                    # whatever budget the reads used; an opaque mark is taken both ways
                    whiches = ['first'] if is_first is True else ['subsequent'] if is_first is False else \
                        ['first', 'subsequent']
                    carries_meta = 'metadata' in comps
                    for T, which in [(T, w) for T in frag_classes for w in whiches]:
                        hdr = HEADER + middles[T] if which == 'first' else HEADER
                        wire = comps_bound + (3 if L else 0) + hdr + (3 if carries_meta else 0)
                        # H is what get_header_length(T) passes for the first fragment
                        wire_n = Lin({k: v for k, v in wire.coef.items() if k != 'H'}, wire.const) + \
                            Lin.k(header_told[(T, carries_meta)]).scale(wire.coef.get('H', 0))
                        slack = Lin.atom('S') - wire_n
                        key = kind
                        cur = results.setdefault(key, [])
                        cur.append((slack, T.name, L, which, e))
    if not results:
        raise AnalysisError('C03.a: no fragment is ever yielded')
    rep.require('C03.a', 'fragment kinds', len([k for k in results if k != 'empty']), 3)
    for kind in ('data-only', 'metadata-only', 'metadata+data'):
        lst = results.get(kind, [])
        worst = None
        for slack, tname, L, which, e in lst:
            if not slack.is_const():
                raise AnalysisError('C03.a: size bound of a %s fragment is not closed: S - wire = %r' % (kind, slack))
            if worst is None or slack.const < worst[0]:
                worst = (slack.const, tname, L, which, e)
        c = 'FrameFragmenter / %s fragment fits the configured size' % kind
        if worst is None:
            raise AnalysisError('C03.a: no %s fragment found' % kind)
        if worst[0] < 0:
            # one report per distinct overshoot, so that a recorded finding (by its amount) never hides another one
            by_excess = {}
            for slack, tname, L, which, e in lst:
                if slack.const < 0:
                    by_excess.setdefault(-slack.const, []).append((tname, L, which, e))
            for excess, insts in sorted(by_excess.items()):
                tname, L, which, e = insts[0]
                rep.bad('C03.a', 'FrameFragmenter / %s fragment exceeds the configured size by %d bytes' % (
                    kind, excess), (it.file, e.line),
                        'a %s %s fragment of %s (%s) can be %d bytes longer on the wire than fragment_size_bytes '
                        '(body budget + header + length fields > size)' % (
                            which, kind, tname, 'length-prefixed' if L else 'message framing', excess),
                        extra={'instances': len(insts), 'which': sorted({w for _, _, w, _ in insts})})
        else:
            rep.ok('C03.a', c, it, 'body budget + wire overhead <= fragment size in all %d instances (5 frame '
                                   'classes x 2 framings x first/subsequent), tightest slack %d' % (len(lst), worst[0]))
    # transports: a transport that writes a length prefix must say so (the fragmenter then reserves the 3 bytes)
    from ..callgraph import callgraph
    cg = callgraph(ctx)
    slots = ctx.slots
    n_t = 0
    for c in ctx.repo.concrete_subclasses(slots.Transport):
        sf = c.lookup('send_frame')
        rl = c.lookup('requires_length_header')
        if sf is None or rl is None:
            raise AnalysisError('C03.a: %s lacks send_frame/requires_length_header' % c.name)
        n_t += 1
        reach = cg.reachable_from(sf, limit=80)
        prefixed = any('frame_size_header' in g.name for g in reach)
        says = None
        for p in ctx.paths(rl, c):
            if p.value is not None and p.value.is_const():
                says = p.value.const
        ok = (not prefixed) or says is True
        rep.add('C03.a', '%s / a written length prefix is announced to the fragmenter' % c.name, c, ok,
                'length prefix written: %s, requires_length_header(): %s' % (prefixed, says) if ok else
                '%s writes a 3-byte length prefix but requires_length_header() returns %s: fragments exceed the '
                'configured size by 3 bytes' % (c.name, says))
    rep.require('C03.a', 'concrete transports', n_t, 5)


def rule_b(ctx):
    rep = ctx.report
    m = ctx.repo.module('rsocket.frame')
    fn = m.functions.get('new_frame_fragment')
    if not fn:
        raise AnalysisError('C03.b: new_frame_fragment vanished')
    f = fn[-1]
    fragc = ctx.repo.cls('rsocket.fragment:Fragment')
    frag_term = ('param', f.qualname, 'fragment')
    base_term = ('param', f.qualname, 'base_frame')
    for T in _fragmentable(ctx):
        problems = []
        n = 0
        for is_first in (True, False):
            for is_last in (True, False, None):
                heap = {(frag_term, 'is_first'): const(is_first), (frag_term, 'is_last'): const(is_last)}
                ps = [p for p in ctx.paths(f, None, args={'base_frame': AVal(base_term, [T], exact=True),
                                                          'fragment': AVal(frag_term, [fragc], exact=True)},
                                           initial_heap=heap) if p.outcome == 'return']
                if not ps:
                    raise AnalysisError('C03.b: new_frame_fragment has no returning path')
                for p in ps:
                    n += 1
                    obj = p.value
                    cls = next(iter(obj.types)).name if obj.types else None
                    want_cls = T.name if is_first else 'PayloadFrame'
                    last = {}
                    for e in p.events:
                        if e.kind == 'store' and e.data['target'][0] == 'attr' and e.data['target'][1] == obj.term:
                            last[e.data['target'][2]] = e.data['value']
                    lastflag = is_last is None or is_last
                    if cls != want_cls:
                        problems.append('fragment(first=%s) becomes a %s, expected %s' % (is_first, cls, want_cls))
                    sid = last.get('stream_id')
                    if sid is None or strip_epoch(sid.term) != ('attr', base_term, 'stream_id'):
                        problems.append('stream id of the fragment frame is not the original stream id')
                    fol = last.get('flags_follows')
                    if fol is None or not fol.is_const() or fol.const != (not lastflag):
                        problems.append('follows=%s for is_last=%s' % (fmt_term(fol.term) if fol else None, is_last))
                    comp = last.get('flags_complete')
                    copied = comp is not None and strip_epoch(comp.term) == ('attr', base_term, 'flags_complete')
                    if lastflag and not copied:
                        problems.append('the last fragment does not carry the original complete flag')
                    if not lastflag and comp is not None and not (comp.is_const() and comp.const is False):
                        problems.append('complete set on a fragment that is not the last (is_last=%s)' % is_last)
                    sf = last.get('sent_future')
                    sfc = sf is not None and strip_epoch(sf.term) == ('attr', base_term, 'sent_future')
                    if lastflag and not sfc:
                        problems.append('the last fragment does not carry the sent future')
                    if not lastflag and sf is not None and not (sf.is_const() and sf.const is None):
                        problems.append('the sent future travels on a fragment that is not the last')
                    for fld in ('data', 'metadata'):
                        v = last.get(fld)
                        if v is None or strip_epoch(v.term) != ('attr', frag_term, fld):
                            problems.append('%s of the frame is not the %s of the fragment' % (fld, fld))
                    if 'initial_request_n' in T.node.__dict__.get('_fields', ()) or True:
                        has = any(k.lookup('__init__') and 'initial_request_n' in ast.unparse(k.node)
                                  for k in [T])
                        if has and is_first:
                            v = last.get('initial_request_n')
                            if v is None or strip_epoch(v.term) != ('attr', base_term, 'initial_request_n'):
                                problems.append('initial request-n is not copied to the first fragment')
        c = 'new_frame_fragment / %s' % T.name
        if problems:
            rep.bad('C03.b', c, f, problems[0], extra={'all': sorted(set(problems))[:6]})
        else:
            rep.ok('C03.b', c, f, 'type, stream id, follows, complete, sent future, request-n and content correct on '
                                  '%d paths' % n)


def rule_c(ctx, rule='C03.c'):
    rep = ctx.report
    slots = ctx.slots
    cache = slots.FragmentCache
    fb = cache.lookup('_frame_fragment_builder')
    if fb is None:
        raise AnalysisError('%s: _frame_fragment_builder vanished' % rule)
    owners = [T for T in _fragmentable(ctx) if 'flags_complete' in tables.FRAME_FLAGS.get(T.name, {})]
    if len(owners) < 2:
        raise AnalysisError('%s: expected two fragmentable classes owning the complete flag' % rule)
    payload = slots.frame_classes['PayloadFrame']
    nf = ('param', fb.qualname, 'next_fragment')
    for T in owners:
        head = AVal(('cached', T.name), [T], exact=True)

        # the cached head is what the table lookup returns
        ps = ctx.paths(fb, cache, args={'next_fragment': AVal(nf, [payload], exact=True)},
                       inline_depth=1)
        # bind the dict lookup result: re-run with the local pre-bound is not possible; inspect stores through terms
        ok = True
        detail = ''
        seen = 0
        for p in ps:
            if p.outcome != 'return':
                continue
            cur = None
            for e in p.events:
                if e.kind == 'store' and e.data['target'][0] == 'local' and e.kind == 'store' and \
                        e.data['value'].term[0] in ('call', 'pure') and 'get' in str(e.data['value'].term[1]):
                    cur = e.data['value'].term
            if cur is None:
                continue
            # paths where the cached head exists (is not None) and is of class T: the isinstance test on it is opaque,
            # so both outcomes are enumerated; the complete flag must be copied on both unless the test names T
            none = [c for c in p.events if c.kind == 'cond' and c.data['key'][0] == 'isnone' and
                    strip_epoch(c.data['key'][1]) == strip_epoch(cur)]
            if none and none[0].data['value'] is True:
                continue
            isinst = [c for c in p.events if c.kind == 'cond' and c.data['key'][0] == 'isinstance' and
                      strip_epoch(c.data['key'][1]) == strip_epoch(cur)]
            feasible = True
            for c in isinst:
                names = c.data['key'][2]
                is_T = any(n.endswith(':' + k.name) for n in names for k in T.mro())
                if c.data['value'] != is_T:
                    feasible = False
            if not feasible:
                continue
            seen += 1
            copied = any(e.kind == 'store' and e.data['target'][0] == 'attr' and
                         strip_epoch(e.data['target'][1]) == strip_epoch(cur) and
                         e.data['target'][2] == 'flags_complete' and
                         strip_epoch(e.data['value'].term) == ('attr', nf, 'flags_complete') for e in p.events)
            if not copied:
                ok = False
                detail = 'when the cached head is a %s the complete flag of the last fragment is not copied to the ' \
                         'reassembled frame' % T.name
        if seen == 0:
            raise AnalysisError('%s: no merging path for head %s' % (rule, T.name))
        rep.add(rule, 'FrameFragmentCache._frame_fragment_builder / complete flag of %s' % T.name, fb, ok,
                detail or 'the complete flag of the arriving fragment is copied on all %d merging paths' % seen)
    # append(): follows -> builder result stored under the frame's stream id, nothing returned;
    #           last -> when a part is cached: builder result returned, entry dropped; otherwise the frame itself
    ap = cache.lookup('append')
    fr = ('param', ap.qualname, 'frame')
    for follows in (True, False):
        ps = [p for p in ctx.paths(ap, cache, args={'frame': AVal(fr, [payload], exact=True)},
                                   initial_heap={(fr, 'flags_follows'): const(follows)},
                                   no_inline={'_frame_fragment_builder'}) if p.outcome == 'return']
        ok = bool(ps)
        why = ''
        for p in ps:
            built = [e for e in p.events if e.kind == 'call' and e.data.get('name') == '_frame_fragment_builder']
            for bcall in built:
                if [strip_epoch(a.term) for a in bcall.data['args']] != [fr]:
                    ok, why = False, 'the reassembly step is not given the arriving fragment'
            stores = [e for e in p.events if e.kind == 'store' and e.data['target'][0] == 'item']
            popped = [e for e in p.events if e.kind == 'call' and e.data.get('name') in ('pop', '__delitem__')]
            incache = [c for c in p.events if c.kind == 'cond' and strip_epoch(c.data['key'])[0] == 'in']
            rv = p.value
            if follows:
                if not (rv.is_const() and rv.const is None):
                    ok, why = False, 'a non-final fragment is dispatched'
                good = len(built) == 1 and len(stores) == 1 and \
                    strip_epoch(stores[0].data['value'].term) == strip_epoch(built[0].data['value'].term) and \
                    strip_epoch(stores[0].data['target'][2]) == ('attr', fr, 'stream_id')
                if not good:
                    ok, why = False, 'a non-final fragment is not merged into the part cached under its stream id'
            else:
                if rv.is_const() and rv.const is None:
                    ok, why = False, 'a final fragment is not dispatched'
                cached = incache and incache[0].data['value'] is True
                if cached:
                    if len(built) != 1 or strip_epoch(rv.term) != strip_epoch(built[0].data['value'].term):
                        ok, why = False, ('the final fragment is dispatched alone: the part already cached for the '
                                          'stream is not merged into what is returned')
                    if not popped:
                        ok, why = False, 'a final fragment leaves its cache entry behind'
                elif incache:
                    if strip_epoch(rv.term) != fr:
                        ok, why = False, 'an unfragmented frame is not dispatched as it arrived'
                else:
                    ok, why = False, 'the final fragment is handled without looking for a cached part'
        rep.add(rule, 'FrameFragmentCache.append / %s fragment' % ('non-final' if follows else 'final'), ap, ok,
                ('reassembly result stored under the stream id, nothing dispatched' if follows else
                 'merged with the cached part, cache entry dropped, merged frame dispatched') if ok else why)
    # builder with a cached head: returns the head, content of the arriving fragment appended field to field
    for fld in ('data', 'metadata'):
        ok = True
        why = ''
        n_merge = 0
        ps = ctx.paths(fb, cache, args={'next_fragment': AVal(nf, [payload], exact=True)}, inline_depth=3)
        for p in ps:
            if p.outcome != 'return':
                continue
            cur = None
            for e in p.events:
                if e.kind == 'store' and e.data['target'][0] == 'local' and \
                        e.data['value'].term[0] in ('call', 'pure') and 'get' in str(e.data['value'].term[1]):
                    cur = strip_epoch(e.data['value'].term)
            if cur is None:
                continue
            none = [c for c in p.events if c.kind == 'cond' and c.data['key'][0] == 'isnone' and
                    strip_epoch(c.data['key'][1]) == cur]
            if not none or none[0].data['value'] is True:
                continue  # first fragment: nothing to merge
            same = [c for c in p.events if c.kind == 'cond' and c.data['key'][0] == 'is' and
                    cur in [strip_epoch(x) for x in c.data['key'][1:3] if isinstance(x, tuple)]]
            if same and same[-1].data['value'] is True:
                continue  # infeasible: the cached head is not the arriving object
            if strip_epoch(p.value.term) != cur:
                ok, why = False, 'with a part cached, the reassembly step does not return the cached frame'
                continue
            nstate = _content_state(p, ('attr', nf, fld))
            cstate = _content_state(p, ('attr', cur, fld))
            final = None
            for e in p.events:
                if e.kind == 'store' and e.data['target'][0] == 'attr' and \
                        strip_epoch(e.data['target'][1]) == cur and e.data['target'][2] == fld:
                    final = strip_epoch(e.data['value'].term)
            if nstate in ('nonempty', 'unknown'):
                n_merge += 1
                good = final is not None and final[0] == 'op' and final[1] == 'Add' and \
                    strip_epoch(final[3]) == ('attr', nf, fld)
                if good:
                    left = strip_epoch(final[2])
                    if left == ('attr', cur, fld):
                        good = cstate not in ('none',)
                    elif left[0] == 'const' and left[1] in (b'', bytearray()):
                        good = cstate in ('none', 'empty')
                    else:
                        good = False
                if not good:
                    ok, why = False, ('non-empty %s of the arriving fragment is not appended to the %s of the cached '
                                      'frame (result: %s)' % (fld, fld, fmt_term(final) if final else 'unchanged'))
            else:
                if final is not None and not (final[0] == 'const' and cstate in ('none', 'empty')):
                    ok, why = False, 'the %s of the cached frame is overwritten by a fragment without %s' % (fld, fld)
        rep.add(rule, 'FrameFragmentCache._frame_fragment_builder / %s appended in arrival order' % fld, fb,
                ok and n_merge > 0, why or 'cached.%s + next.%s on all %d merging paths with non-empty %s' % (
                    fld, fld, n_merge, fld))


def _content_state(p, term):
    """'none' | 'empty' | 'nonempty' | 'unknown' for a bytes-or-None value, from the tests taken along the path."""
    st = 'unknown'
    for e in p.events:
        if e.kind != 'cond':
            continue
        k = e.data['key']
        if k[0] == 'isnone' and strip_epoch(k[1]) == term:
            st = 'none' if e.data['value'] is True else (st if st in ('empty', 'nonempty') else 'notnone')
        elif k[0] in ('eq', 'ne', 'gt', 'lt', 'truth'):
            flat = repr(strip_epoch(k))
            if "'len'" in flat and repr(term) in flat and k[0] == 'eq' and ('const', 0) in [strip_epoch(x) for x in
                                                                                              k[1:3] if
                                                                                              isinstance(x, tuple)]:
                st = 'empty' if e.data['value'] is True else 'nonempty'
            elif k[0] == 'truth' and strip_epoch(k[1]) == term:
                st = 'nonempty' if e.data['value'] is True else 'empty'
    return 'unknown' if st == 'notnone' else st


def rule_d(ctx):
    rep = ctx.report
    ff = ctx.repo.cls(FRAG)
    it = ff.lookup('__iter__')
    paths = ctx.paths(it, ff, symbolic_compare=True)
    bad = None
    n = 0
    for p in paths:
        seen_data = None
        for e in p.events:
            if e.kind == 'new' and e.data['cls'].name == 'Fragment':
                n += 1
                args = list(e.data.get('args') or [])
                kw = e.data.get('kwargs') or {}
                d = args[0] if args else kw.get('data')
                md = args[1] if len(args) > 1 else kw.get('metadata')
                has_md = md is not None and not (md.is_const() and not md.const)
                has_d = d is not None and not (d.is_const() and not d.const)
                if has_md and seen_data is not None:
                    bad = 'a fragment carrying metadata (line %s) can follow a fragment carrying data (line %s)' % (
                        e.line, seen_data.line)
                if has_d and seen_data is None:
                    # data and metadata in the same fragment is the boundary fragment: allowed
                    seen_data = e
    if n == 0:
        raise AnalysisError('C03.d: no fragment yielded')
    rep.add('C03.d', 'FrameFragmenter.__iter__ / metadata precedes data', it, bad is None,
            bad or 'on every path no fragment with metadata is yielded after one with data')


def rule_e(ctx):
    rep = ctx.report
    slots = ctx.slots
    base = slots.RSocketBase
    stores = ctx.repo.attr_assignments(base, '_fragment_size_bytes')
    ok = bool(stores) and all(f.name == '__init__' for f, _, _ in stores)
    rep.add('C03.e', 'RSocketBase / fragment size stored by the constructor only', base, ok,
            'the configured fragment size is written once, in __init__' if ok else
            'the fragment size is also written by %s' % sorted({f.short for f, _, _ in stores if f.name != '__init__'}))
    init = base.methods['__init__']
    gate_ok = True
    detail = ''
    n = 0
    for p in ctx.paths(init, slots.RSocketServer, no_inline={'_setup_internals'}, inline_depth=3):
        st = [e for e in p.events if e.kind == 'store' and e.data['target'][0] == 'attr' and
              e.data['target'][2] == '_fragment_size_bytes']
        if not st:
            continue
        n += 1
        v = strip_epoch(st[0].data['value'].term)
        if v != ('param', init.qualname, 'fragment_size_bytes'):
            gate_ok, detail = False, 'the stored size is %s, not the constructor argument' % fmt_term(v)
            continue
        # dominated by: is None, or not (size < MINIMUM)
        isnone = [c for c in p.events if c.seq < st[0].seq and c.kind == 'cond' and c.data['key'][0] == 'isnone' and
                  strip_epoch(c.data['key'][1]) == v]
        lt = [c for c in p.events if c.seq < st[0].seq and c.kind == 'cond' and c.data['key'][0] == 'lt' and
              strip_epoch(c.data['key'][1]) == v]
        if isnone and isnone[0].data['value'] is True:
            continue
        if not lt:
            gate_ok, detail = False, 'a fragment size is accepted without comparing it with the minimum'
            continue
        bound = lt[0].data['key'][2]
        if not (bound[0] == 'const' and bound[1] >= 64) or lt[0].data['value'] is not False:
            gate_ok, detail = False, 'the gate accepts sizes below 64 (compares with %s)' % fmt_term(bound)
    if n == 0:
        raise AnalysisError('C03.e: the constructor never stores the fragment size')
    rep.add('C03.e', 'RSocketBase.__init__ / minimum fragment size gate', init, gate_ok,
            detail or 'a size is stored only if it is None or not below 64 (%d paths)' % n)
    # the builders receive exactly that attribute
    fbm = ctx.repo.module('rsocket.frame_builders')
    builders = {n: fs[-1] for n, fs in fbm.functions.items() if 'fragment_size_bytes' in fs[-1].params()}
    rep.require('C03.e', 'frame builders taking a fragment size', len(builders), 4)
    n_sites = 0
    bad = []
    for f in ctx.repo.all_functions():
        if not f.module.name.startswith('rsocket') or f.module.name.startswith('rsocket.cli') or f.module is fbm:
            continue
        for node in walk_local(f.node):
            if isinstance(node, ast.Call) and isinstance(node.func, ast.Name) and node.func.id in builders:
                r = ctx.repo.resolve_name(f.module, node.func.id)
                if not (isinstance(r, list) and builders[node.func.id] in r):
                    continue
                b = builders[node.func.id]
                idx = b.params().index('fragment_size_bytes')
                arg = None
                for kw in node.keywords:
                    if kw.arg == 'fragment_size_bytes':
                        arg = kw.value
                if arg is None and len(node.args) > idx:
                    arg = node.args[idx]
                n_sites += 1
                if arg is None:
                    bad.append((f, node, 'nothing (fragmentation silently off)'))
                    continue
                src = ast.unparse(arg)
                if not (src.endswith('get_fragment_size_bytes()') or src.endswith('_fragment_size_bytes')):
                    bad.append((f, node, src))
    rep.require('C03.e', 'sites passing a fragment size to a frame builder', n_sites, 5)
    # ... and every builder puts exactly what it was given into the frame it returns: whether a frame needs fragments
    # is the fragmenter's decision, taken with the frame's real length (a builder that leaves the size out for frames
    # it believes to fit sends those frames whole)
    n_builders = 0
    for name, b in sorted(builders.items()):
        ok_b, why_b, n_ret = True, '', 0
        ps = [p for p in ctx.paths(b, None, inline_depth=2) if p.outcome == 'return']
        if ps and not any(p.value is not None and p.value.types and
                          any(any(k.name == 'Frame' for k in t.mro()) for t in p.value.types) for p in ps):
            continue  # a helper that takes the size, not a builder: it returns no frame
        n_builders += 1
        for p in ps:
            n_ret += 1
            st = [e for e in p.events if e.kind == 'store' and e.data['target'][0] == 'attr' and
                  e.data['target'][2] == 'fragment_size_bytes' and e.func is b]
            if len(st) != 1:
                ok_b, why_b = False, 'a path stores the fragment size %d times' % len(st)
                continue
            v = strip_epoch(st[0].data['value'].term)
            if v != ('param', b.qualname, 'fragment_size_bytes'):
                ok_b, why_b = False, ('line %s: the frame gets %s, not the size the builder was given'
                                      % (st[0].line, fmt_term(v)[:80]))
            elif p.value is None or strip_epoch(st[0].data['target'][1]) != strip_epoch(p.value.term):
                ok_b, why_b = False, 'the size is stored in an object other than the returned frame'
        if not n_ret:
            raise AnalysisError('C03.e: no normal path through %s' % name)
        rep.add('C03.e', '%s / the frame carries the size the builder was given' % name, b, ok_b,
                why_b or 'frame.fragment_size_bytes = fragment_size_bytes on all %d paths' % n_ret)
    rep.require('C03.e', 'builders of fragmentable frames', n_builders, 5)
    rep.add('C03.e', 'frame builders / fragment size passed unmodified', base, not bad,
            'all %d call sites of fragmentable-frame builders pass the configured fragment size' % n_sites if not bad
            else '%s passes %s as fragment size at line %s' % (bad[0][0].short, bad[0][2], bad[0][1].lineno))


def rule_f(ctx):
    rep = ctx.report
    ff = ctx.repo.cls(FRAG)
    it = ff.lookup('__iter__')
    init = ff.lookup('__init__')
    # counters: attributes augmented by len(read()); totals: attributes set once in __init__ from a length
    paths = ctx.paths(it, ff, symbolic_compare=True)
    counters = set()
    for p in paths:
        for e in p.events:
            if e.kind == 'store' and e.data['target'][0] == 'attr' and e.data.get('aug') == 'Add' and \
                    'read' in repr(e.data['value'].term):
                counters.add(e.data['target'][2])
    totals = {a for f, s, v in [x for c in (ctx.repo.attr_assignments(ff, n) for n in _all_attrs(ff))
                                for x in c] for a in [s.targets[0].attr if isinstance(s, ast.Assign) else None]
              if f.name == '__init__' and v is not None and 'len' in ast.unparse(v) and a}
    if len(counters) < 2 or len(totals) < 2:
        raise AnalysisError('C03.f: cannot identify the byte counters (%s) and totals (%s)' % (counters, totals))
    problems = []
    n = 0
    for p in paths:
        frags = [e for e in p.events if e.kind == 'new' and e.data['cls'].name == 'Fragment']
        yields = [e for e in p.events if e.kind == 'yield']
        for e in frags:
            n += 1
            kw = e.data.get('kwargs') or {}
            args = e.data.get('args') or []
            il = kw.get('is_last') or (args[2] if len(args) > 2 else None)
            if il is None:
                problems.append((e, 'a fragment is yielded without an explicit last-fragment mark'))
                continue
            t = strip_epoch(il.term)
            if t[0] == 'const':
                continue
            if t[0] == 'cmp' and t[1] == 'Eq':
                sides = [t[2], t[3]]
                def mentions(x, names):
                    return any(("'%s'" % nm) in repr(x) for nm in names)
                is_counter_vs_total = any(mentions(s, counters) for s in sides) and any(
                    mentions(s, totals) and not mentions(s, counters) for s in sides)
                is_total_zero = any(s == ('const', 0) for s in sides) and any(mentions(s, totals) for s in sides)
                if is_counter_vs_total or is_total_zero:
                    continue
            problems.append((e, 'the last-fragment mark is %s, which is not an exhaustion test (cumulative bytes read '
                                '== total length): a read that ends exactly on a boundary is misjudged' %
                             fmt_term(t)[:140]))
        # nothing yielded after a fragment whose mark evaluated true on this path
        for i, y in enumerate(yields[:-1]):
            fr = [f for f in frags if f.seq < y.seq]
            if not fr:
                continue
            il = (fr[-1].data.get('kwargs') or {}).get('is_last')
            if il is None:
                continue
            t = strip_epoch(il.term)
            true_here = (t[0] == 'const' and t[1] is True) or any(
                c.kind == 'cond' and strip_epoch(c.data['key'])[0] == 'truth' and
                strip_epoch(c.data['key'])[1] == t and c.data['value'] is True for c in p.events)
            if true_here:
                problems.append((yields[i + 1], 'a fragment is yielded after the one marked last at line %s' % y.line))
    if n == 0:
        raise AnalysisError('C03.f: no fragment yielded')
    if problems:
        e, why = problems[0]
        rep.bad('C03.f', 'FrameFragmenter.__iter__ / last fragment decided by exhaustion', (it.file, e.line), why,
                extra={'problems': len(problems)})
    else:
        rep.ok('C03.f', 'FrameFragmenter.__iter__ / last fragment decided by exhaustion', it,
               'every last-fragment mark compares a cumulative read counter (%s) with a total (%s); nothing follows a '
               'fragment marked last' % (sorted(counters), sorted(totals)))
    # after a fragment that is not the last, the generator cannot end while the mark says "more follows":
    # every return/break reached after a yield must be on a path where the last mark evaluated true
    bad_end = None
    for p in paths:
        if p.outcome != 'return':
            continue
        frags = [e for e in p.events if e.kind == 'new' and e.data['cls'].name == 'Fragment']
        if not frags:
            continue
        il = (frags[-1].data.get('kwargs') or {}).get('is_last')
        if il is None:
            continue
        t = strip_epoch(il.term)
        if t[0] == 'const':
            if t[1] is not True:
                bad_end = 'the generator can end after a fragment explicitly marked not-last'
            continue
        verdict = [c for c in p.events if c.kind == 'cond' and strip_epoch(c.data['key'])[0] == 'truth' and
                   strip_epoch(c.data['key'])[1] == t]
        if verdict and verdict[-1].data['value'] is False:
            # the generator ended although the final yielded fragment said "more follow"; legitimate only when the
            # path shows nothing was left to read (a read returned b'' - len == 0)
            empty = any(c.kind == 'cond' and 'read' in repr(c.data['key']) and "('const', 0)" in repr(c.data['key'])
                        and c.seq > frags[-1].seq for c in p.events)
            if not empty:
                bad_end = 'the generator can end right after a fragment marked not-last (line %s)' % frags[-1].line
    rep.add('C03.f', 'FrameFragmenter.__iter__ / ends only after the last fragment', it, bad_end is None,
            bad_end or 'a path that ends after a not-last fragment has seen an empty read (nothing left)')


def _all_attrs(cls):
    out = set()
    for f in cls.methods.values():
        for n in walk_local(f.node):
            if isinstance(n, ast.Attribute) and isinstance(n.value, ast.Name) and n.value.id == 'self':
                out.add(n.attr)
    return sorted(out)



def _no_call_ids(t):
    """A term with the sequence numbers of its calls removed: two evaluations of one side-effect-free expression."""
    if isinstance(t, tuple):
        if t and t[0] == 'call' and len(t) == 4 and isinstance(t[3], int):
            return ('call', t[1], _no_call_ids(t[2]))
        return tuple(_no_call_ids(x) for x in t)
    return t


def _same_size(p, read_term, bound, at=10 ** 9):
    """Is `bound` the size that the read producing read_term was asked for?  A read that returns fewer bytes than it
    was asked for has reached the end of its reader; fewer bytes than some other quantity says nothing."""
    rt = strip_epoch(read_term)
    for e in p.events:
        if e.kind == 'call' and e.data.get('name') == 'read' and strip_epoch(e.data['value'].term) == rt:
            args = e.data.get('args') or []
            if not args:
                return False
            # nothing the size may depend on is stored between the read and the comparison
            if any(x.kind == 'store' and x.data['target'][0] == 'attr' and e.seq < x.seq < at and
                   not x.data.get('aug') for x in p.events):
                return False
            return _no_call_ids(strip_epoch(args[0].term)) == _no_call_ids(strip_epoch(bound))
    return False

def _flat(t):
    out = []
    if isinstance(t, tuple):
        out.append(t)
        for x in t:
            out.extend(_flat(x))
    return out


def rule_g(ctx):
    """The fragment generator hands out every byte it reads, once, in the field it came from; counts every read; marks
    exactly the first fragment as first; yields at least one fragment; and ends only with both fields exhausted."""
    rep = ctx.report
    ff = ctx.repo.cls(FRAG)
    it = ff.lookup('__iter__')
    init = ff.lookup('__init__')
    self_t = ('self',)
    # totals: self.T = safe_len(self.X) / len(self.X) in __init__
    totals = {}
    consts = {}
    for n in walk_local(init.node):
        if isinstance(n, ast.Assign) and len(n.targets) == 1 and isinstance(n.targets[0], ast.Attribute) and \
                isinstance(n.targets[0].value, ast.Name) and n.targets[0].value.id == 'self':
            a = n.targets[0].attr
            v = n.value
            if isinstance(v, ast.Call) and len(v.args) == 1 and isinstance(v.args[0], ast.Attribute) and \
                    isinstance(v.args[0].value, ast.Name) and v.args[0].value.id == 'self' and \
                    ast.unparse(v.func).split('.')[-1] in ('safe_len', 'len'):
                totals[v.args[0].attr] = a
            if isinstance(v, ast.Constant) and isinstance(v.value, (bool, int)):
                consts[a] = v.value
    if set(totals) != {'data', 'metadata'}:
        raise AnalysisError('C03.g: totals of data and metadata not found in FrameFragmenter.__init__ (%s)' % totals)
    heap = {(self_t, a): const(v) for a, v in consts.items()}
    paths = ctx.paths(it, ff, symbolic_compare=True, initial_heap=heap)
    if not paths:
        raise AnalysisError('C03.g: no path through FrameFragmenter.__iter__')

    def field_of_read(e):
        r = e.data.get('recv')
        if r is None:
            return None
        t = strip_epoch(r.term)
        if t[0] == 'call' and str(t[1]).endswith('BytesIO') and t[2] and strip_epoch(t[2][0])[0] == 'attr' and \
                strip_epoch(t[2][0])[1] == self_t:
            return strip_epoch(t[2][0])[2]
        return None

    def len_of(term):
        return [x for x in _flat(term) if x and x[0] == 'pure' and x[1] == 'len']

    def added_len_arg(value_term):
        """X in `counter += len(X)` (the right operand of the augmented store), or None"""
        t = strip_epoch(value_term)
        if t[0] == 'op' and t[1] == 'Add':
            r = strip_epoch(t[3])
            if r[0] == 'pure' and r[1] == 'len' and r[3]:
                return strip_epoch(r[3][0])
        return None

    def direct_len(x):
        """r when x is exactly len(r), else None"""
        x = strip_epoch(x) if isinstance(x, tuple) else x
        if isinstance(x, tuple) and x and x[0] == 'pure' and x[1] == 'len' and x[3]:
            return strip_epoch(x[3][0])
        return None

    def emptiness(c):
        """(read term, True if the cond says len(read) == 0 / False if it says > 0) for a direct comparison of
        len(read) with 0; None otherwise"""
        if c.kind != 'cond':
            return None
        k = strip_epoch(c.data['key'])
        if k[0] not in ('eq', 'lt', 'gt', 'ne') or len(k) < 3:
            return None
        sides = [k[1], k[2]]
        zero = [i for i, x in enumerate(sides) if isinstance(x, tuple) and strip_epoch(x) == ('const', 0)]
        if len(zero) != 1:
            return None
        r = direct_len(sides[1 - zero[0]])
        if r is None:
            return None
        v = c.data['value']
        if k[0] == 'eq':
            return r, v is True
        if k[0] == 'ne':
            return r, v is False
        # lt(0, len) / gt(len, 0): true means non-empty
        if (k[0] == 'lt' and zero[0] == 0) or (k[0] == 'gt' and zero[0] == 1):
            return r, v is False
        return None

    def reader_field(read_term):
        t = strip_epoch(read_term)
        if t and t[0] == 'call' and t[1] == 'read' and t[2]:
            recv = t[2][-1]
            for z in _flat(recv):
                if isinstance(z, tuple) and len(z) >= 3 and z[0] == 'attr' and z[1] == self_t and \
                        z[2] in ('data', 'metadata'):
                    return z[2]
        return None

    def exhausted(p, X, before=10 ** 9):
        T = ('attr', self_t, totals[X])
        for c in p.events:
            if c.kind != 'cond' or c.seq >= before:
                continue
            k = strip_epoch(c.data['key'])
            sides = [strip_epoch(x) for x in k[1:3] if isinstance(x, tuple)]
            if k[0] == 'eq' and T in sides and ('const', 0) in sides and c.data['value'] is True:
                return True
            if k[0] == 'truth' and isinstance(k[1], tuple) and k[1] and k[1][0] == 'cmp' and k[1][1] == 'Eq' and \
                    c.data['value'] is True and T in [strip_epoch(x) for x in k[1][2:4]]:
                other = [x for x in k[1][2:4] if strip_epoch(x) != T]
                if other and strip_epoch(other[0]) == ('const', 0):
                    return True
                if other and (any(isinstance(x, tuple) and x and x[0] == 'attr' and len(x) > 2 and
                                  x[2] in counters.get(X, ()) for x in _flat(other[0])) or
                              any(reader_field(strip_epoch(l[3][0])) == X for l in len_of(other[0]) if l[3])):
                    return True
            em = emptiness(c)
            if em is not None and reader_field(em[0]) == X and em[1] is True:
                return True
            if k[0] == 'lt' and len(k) >= 3 and c.data['value'] is True:
                r = direct_len(k[1])
                if r is not None and reader_field(r) == X and direct_len(k[2]) is None and \
                        strip_epoch(k[2]) != ('const', 0) and _same_size(p, r, k[2], c.seq):
                    return True  # short read: fewer bytes than that very read asked for
        return False

    problems = {}
    # the attribute the first-mark of a fragment is read from
    first_attr = None
    for n in walk_local(it.node):
        if isinstance(n, ast.keyword) and n.arg == 'is_first' and isinstance(n.value, ast.Attribute) and \
                isinstance(n.value.value, ast.Name) and n.value.value.id == 'self':
            first_attr = n.value.attr

    def bad(key, ev, why):
        problems.setdefault(key, (ev, why))

    n_reads = n_frags = 0
    counters = {}
    for p in paths:
        for e in p.events:
            if e.kind == 'store' and e.data['target'][0] == 'attr' and e.data.get('aug') == 'Add' and \
                    e.data['target'][1] == self_t:
                arg = added_len_arg(e.data['value'].term)
                for r in p.events:
                    if r.kind == 'call' and r.data.get('name') == 'read' and field_of_read(r) and r.seq < e.seq and \
                            strip_epoch(r.data['value'].term) == arg:
                        counters.setdefault(field_of_read(r), set()).add(e.data['target'][2])
    for X in ('data', 'metadata'):
        for cn in counters.get(X, ()):
            if consts.get(cn) != 0 or isinstance(consts.get(cn), bool):
                bad('count', None, 'the byte counter %s does not start at 0' % cn)
        if len(counters.get(X, ())) != 1:
            bad('count', None, 'bytes read from %s are not accumulated in one counter (%s)' % (
                X, sorted(counters.get(X, ()))))
    for p in paths:
        reads = [e for e in p.events if e.kind == 'call' and e.data.get('name') == 'read' and field_of_read(e)]
        yields = [e for e in p.events if e.kind == 'yield']
        frag_of = {}
        for e in p.events:
            if e.kind == 'new' and e.data['cls'].name == 'Fragment':
                frag_of[e.data['value'].term] = e
        yielded = [frag_of[y.data['value'].term] for y in yields if y.data['value'].term in frag_of]
        n_frags += len(yielded)
        # content of each yielded fragment
        content = {}
        for fe in yielded:
            obj = fe.data['value'].term
            st = {}
            for e in p.events:
                if e.kind == 'store' and e.data['target'][0] == 'attr' and e.data['target'][1] == obj and \
                        e.seq < [y for y in yields if y.data['value'].term == obj][0].seq:
                    st[e.data['target'][2]] = e.data['value']
            content[obj] = st
        # I4 first mark
        for i, fe in enumerate(yielded):
            v = content[fe.data['value'].term].get('is_first')
            want = (i == 0)
            if v is None or not v.is_const() or v.const is not want:
                bad('first', fe, 'fragment #%d of a frame is marked is_first=%s' % (
                    i + 1, fmt_term(v.term) if v is not None else None))
        # I4b after every yielded fragment the first-mark is cleared before anything else is read or yielded
        for y in yields:
            later = [e for e in p.events if e.seq > y.seq]
            nxt = [e for e in later if e.kind == 'yield' or (e.kind == 'call' and e.data.get('name') == 'read' and
                                                             field_of_read(e)) or
                   (e.kind == 'loop' and e.data.get('phase') in ('back', 'cut'))]
            if not nxt:
                continue
            cleared = [e for e in later if e.seq < nxt[0].seq and e.kind == 'store' and
                       e.data['target'][0] == 'attr' and e.data['target'][1] == self_t and
                       e.data['target'][2] == first_attr and e.data['value'].is_const() and
                       e.data['value'].const is False]
            if first_attr and not cleared:
                bad('first', y, 'after the fragment yielded at line %s the generator goes on (line %s) without '
                                'clearing %s: the next fragment is marked first again' % (y.line, nxt[0].line,
                                                                                        first_attr))
        for idx, r in enumerate(reads):
            n_reads += 1
            X = field_of_read(r)
            rt = strip_epoch(r.data['value'].term)
            nxt = [e.seq for e in reads[idx + 1:] if field_of_read(e) == X]
            horizon = min([y.seq for y in yields if y.seq > r.seq] + nxt + [10 ** 9])
            # I1 counted
            if X in counters and len(counters[X]) == 1:
                cname = next(iter(counters[X]))
                counted = [e for e in p.events if r.seq < e.seq < horizon and e.kind == 'store' and
                           e.data['target'][0] == 'attr' and e.data['target'][2] == cname and
                           e.data.get('aug') == 'Add' and added_len_arg(e.data['value'].term) == rt]
                complete = p.outcome == 'return' or any(e.seq >= horizon for e in p.events)
                if not counted and complete:
                    bad('count', r, 'the %s read at line %s is not added to %s before the next read / yield: the '
                                    'exhaustion test compares a stale counter' % (X, r.line, cname))
            # I2 handed out once, in its own field
            users = []
            for obj, st in content.items():
                for fld in ('data', 'metadata'):
                    v = st.get(fld)
                    if v is not None and strip_epoch(v.term) == rt:
                        users.append((obj, fld))
            if any(fld != X for obj, fld in users):
                bad('content', r, 'bytes read from %s are yielded as %s' % (X, [f for o, f in users if f != X][0]))
            if len(users) > 1:
                bad('content', r, 'the %s read at line %s is yielded %d times' % (X, r.line, len(users)))
            if not users and p.outcome == 'return':
                empty = any(em is not None and em[0] == rt and em[1] is True
                            for em in (emptiness(c) for c in p.events if c.seq > r.seq))
                if not empty:
                    bad('content', r, 'bytes read from %s at line %s can be dropped: no yielded fragment carries them '
                                      'and the read is not known to be empty' % (X, r.line))
        if p.outcome != 'return':
            continue
        # I8 at least one fragment
        if not yielded:
            # without a fragment the frame is never sent; the only such paths tolerated are those on which a read of
            # each field returned nothing (they contradict the non-zero totals tested at the top and cannot be run)
            def read_empty(X):
                return any(em is not None and reader_field(em[0]) == X and em[1] is True
                           for em in (emptiness(c) for c in p.events))
            if not (read_empty('data') and read_empty('metadata')):
                bad('atleast', None, 'the generator can end without yielding any fragment (the frame is never sent)')
        # I7 both fields exhausted
        for X in ('data', 'metadata'):
            if not exhausted(p, X):
                bad('complete', None, 'the generator can end without %s being exhausted: the remaining %s is never '
                                      'sent' % (X, X))
        # I9 a fragment is marked last only when the field its mark does not test is known to be exhausted
    for p in paths:
        yields = [e for e in p.events if e.kind == 'yield']
        for y in yields:
            fe = [e for e in p.events if e.kind == 'new' and e.data['cls'].name == 'Fragment' and
                  e.data['value'].term == y.data['value'].term]
            if not fe:
                continue
            il = None
            for e in p.events:
                if e.kind == 'store' and e.data['target'][0] == 'attr' and e.seq < y.seq and \
                        e.data['target'][1] == y.data['value'].term and e.data['target'][2] == 'is_last':
                    il = e.data['value']
            if il is None:
                continue
            t = strip_epoch(il.term)
            if t[0] == 'const' and t[1] is not True:
                continue
            verdicts = [c.data['value'] for c in p.events if c.kind == 'cond' and c.seq < y.seq and
                        strip_epoch(c.data['key'])[0] == 'truth' and strip_epoch(c.data['key'])[1] == t]
            if verdicts and verdicts[-1] is False:
                continue  # the mark is known to be false on this path
            tested = set()
            if t[0] == 'cmp':
                for X in ('data', 'metadata'):
                    if ('attr', self_t, totals[X]) in [strip_epoch(x) for x in t[2:4]]:
                        tested.add(X)
            for X in ('data', 'metadata'):
                if X not in tested and not exhausted(p, X, before=y.seq):
                    bad('mark', fe[0], 'a fragment can be marked last (%s) while %s is not known to be exhausted: the '
                                       'receiver completes the frame early and the rest arrives as a new frame' % (
                                           fmt_term(t)[:80], X))
    if n_reads < 3 or n_frags < 3:
        raise AnalysisError('C03.g: %d reads / %d fragments on the paths (vacuity guard)' % (n_reads, n_frags))
    labels = {'count': 'every read is counted before the next exhaustion test',
              'content': 'every byte read is yielded once, in its own field',
              'first': 'exactly the first fragment is marked first',
              'atleast': 'at least one fragment per frame',
              'complete': 'ends only with data and metadata exhausted',
              'mark': 'marked last only when the other field is exhausted'}
    for key, label in labels.items():
        construct = 'FrameFragmenter.__iter__ / %s' % label
        if key in problems:
            ev, why = problems[key]
            rep.bad('C03.g', construct, (it.file, ev.line) if ev is not None else it, why)
        else:
            rep.ok('C03.g', construct, it, '%d paths, %d reads, %d yielded fragments' % (len(paths), n_reads, n_frags))


def rule_h(ctx):
    """data_to_fragments_if_required: without a fragment size the payload goes out as one fragment; with one, every
    fragment of a FrameFragmenter built from the same arguments is passed on."""
    rep = ctx.report
    m = ctx.repo.module('rsocket.frame_fragmenter')
    fs = m.functions.get('data_to_fragments_if_required')
    if not fs:
        raise AnalysisError('C03.h: data_to_fragments_if_required vanished')
    f = fs[-1]
    par = lambda n: ('param', f.qualname, n)
    ps = ctx.paths(f, None, inline_depth=3)
    ok_plain = ok_frag = True
    why = ''
    n_plain = n_iter = 0
    for p in ps:
        if p.outcome != 'return':
            continue
        nn = [c for c in p.events if c.kind == 'cond' and c.data['key'][0] == 'isnone' and
              strip_epoch(c.data['key'][1]) == par('fragment_size_bytes')]
        yields = [e for e in p.events if e.kind == 'yield']
        if nn and nn[0].data['value'] is True:
            n_plain += 1
            if len(yields) != 1:
                ok_plain, why = False, 'without a fragment size %d fragments are produced' % len(yields)
                continue
            obj = yields[0].data['value'].term
            st = {}
            for e in p.events:
                if e.kind == 'store' and e.data['target'][0] == 'attr' and e.data['target'][1] == obj:
                    st[e.data['target'][2]] = strip_epoch(e.data['value'].term)
            if st.get('data') != par('data') or st.get('metadata') != par('metadata'):
                ok_plain, why = False, 'the single fragment does not carry the data and metadata passed in'
            if st.get('is_last') not in (('const', None), ('const', True)):
                ok_plain, why = False, 'the single fragment is marked not-last'
        elif nn:
            news = [e for e in p.events if e.kind == 'new' and e.data['cls'].name == 'FrameFragmenter']
            if len(news) != 1:
                ok_frag, why = False, 'with a fragment size no FrameFragmenter is built'
                continue
            obj = news[0].data['value'].term
            st = {}
            for e in p.events:
                if e.kind == 'store' and e.data['target'][0] == 'attr' and e.data['target'][1] == obj and \
                        e.data['target'][2] in ('data', 'metadata') and e.data['target'][2] not in st:
                    st[e.data['target'][2]] = strip_epoch(e.data['value'].term)
            if st.get('data') != par('data') or st.get('metadata') != par('metadata'):
                ok_frag, why = False, 'the fragmenter is not given the data and metadata passed in (%s)' % {
                    k: fmt_term(v) for k, v in st.items()}
            # the sizes it computes mention each of the three size arguments passed through, under their own names
            sizes = [strip_epoch(e.data['value'].term) for e in p.events if e.kind == 'store' and
                     e.data['target'][0] == 'attr' and e.data['target'][1] == obj and
                     e.data['target'][2] not in ('data', 'metadata')]
            flat = [x for t in sizes for x in _flat(t)]
            for need in ('fragment_size_bytes', 'first_frame_header_size'):
                if par(need) not in flat:
                    ok_frag, why = False, 'the fragmenter does not receive %s' % need
            flr = [c for c in p.events if c.kind == 'cond' and c.data['key'][0] == 'truth' and
                   strip_epoch(c.data['key'][1]) == par('frame_length_required')]
            if not flr:
                ok_frag, why = False, 'the fragmenter does not receive frame_length_required'
            entered = [e for e in p.events if e.kind == 'loop' and e.data.get('phase') == 'enter']
            if entered:
                n_iter += 1
                if len(yields) != len(entered) or any(
                        strip_epoch(y.data['value'].term)[0] not in ('elem', 'iter', 'next', 'item') and
                        'FrameFragmenter' not in repr(y.data['value'].term) for y in yields):
                    ok_frag, why = False, 'a fragment produced by the fragmenter is not passed on'
    rep.add('C03.h', 'data_to_fragments_if_required / no fragment size: one fragment with the whole payload', f,
            ok_plain and n_plain > 0, why if not ok_plain else 'Fragment(data, metadata, is_last=None) on %d paths' %
            n_plain)
    rep.add('C03.h', 'data_to_fragments_if_required / fragment size: every fragment of the fragmenter passed on', f,
            ok_frag and n_iter > 0, why if not ok_frag else 'FrameFragmenter(data, metadata, sizes…) iterated and each '
                                                            'element yielded (%d paths)' % n_iter)


def _bind_call(call, callee_node, implicit_self=False):
    """{parameter name: argument expression} for one call against one signature (positional, keyword)"""
    a = callee_node.args
    names = [x.arg for x in a.posonlyargs + a.args]
    if implicit_self and names:
        names = names[1:]
    bound = {}
    for name, arg in zip(names, call.args):
        bound[name] = arg
    for k in call.keywords:
        if k.arg is not None:
            bound[k.arg] = k.value
    return bound


def rule_i(ctx):
    """The framing mode of the transport in use reaches the size accounting: the sender asks the transport it writes
    to (`requires_length_header()`) at every `get_next_fragment` call, `get_next_fragment` hands that answer - and the
    frame's own data, metadata, header length and fragment size - to `data_to_fragments_if_required` (C03.h follows it
    from there into FrameFragmenter).  A dropped argument falls back to the 'length prefix' default and makes every
    message transport fragment 3 bytes early."""
    rep = ctx.report
    repo = ctx.repo
    mixin = repo.cls('rsocket.frame:FrameFragmentMixin')
    g = mixin.lookup('get_next_fragment')
    helper = repo.func('rsocket.frame_fragmenter:data_to_fragments_if_required')
    if g is None:
        raise AnalysisError('C03.i: FrameFragmentMixin.get_next_fragment vanished')
    gparams = [x.arg for x in g.node.args.args][1:]
    if len(gparams) != 1:
        raise AnalysisError('C03.i: get_next_fragment has %d parameters, one (the framing mode) expected' % len(gparams))
    mode = gparams[0]
    calls = [n for n in walk_local(g.node) if isinstance(n, ast.Call) and isinstance(n.func, ast.Name) and
             n.func.id == helper.node.name]
    if len(calls) != 1:
        raise AnalysisError('C03.i: %d calls of %s in get_next_fragment' % (len(calls), helper.node.name))
    hp = [x.arg for x in helper.node.args.args]
    if len(hp) != 5:
        raise AnalysisError('C03.i: %s has %d parameters, five confirmed by hand' % (helper.node.name, len(hp)))
    bound = _bind_call(calls[0], helper.node)
    # expected value per parameter, by the role C03.h gives the parameter
    expect = {hp[0]: 'self.data', hp[1]: 'self.metadata', hp[2]: 'get_header_length(self)',
              hp[3]: 'self.fragment_size_bytes', hp[4]: mode}
    ok, detail = True, ''
    for pname, want in expect.items():
        got = bound.get(pname)
        if got is None:
            ok, detail = False, '%s is not passed (its default is used whatever the transport says)' % pname
            break
        text = ast.unparse(got)
        # a single-assignment temporary is read through
        if isinstance(got, ast.Name) and got.id != mode:
            assigns = [n for n in walk_local(g.node) if isinstance(n, ast.Assign) and len(n.targets) == 1 and
                       isinstance(n.targets[0], ast.Name) and n.targets[0].id == got.id]
            if len(assigns) == 1:
                text = ast.unparse(assigns[0].value)
        if text != want:
            ok, detail = False, '%s receives %s, expected %s' % (pname, text, want)
            break
    rep.add('C03.i', 'FrameFragmentMixin.get_next_fragment / frame fields and framing mode handed to the fragmenter', g,
            ok, detail or '%s(%s)' % (helper.node.name, ', '.join('%s=%s' % kv for kv in expect.items())))
    # every caller asks the transport
    n_calls = 0
    bad = []
    for fn in repo.all_functions():
        if not fn.qualname.startswith('rsocket'):
            continue
        for n in walk_local(fn.node):
            if isinstance(n, ast.Call) and isinstance(n.func, ast.Attribute) and n.func.attr == g.node.name:
                n_calls += 1
                b = _bind_call(n, g.node, implicit_self=True)
                a = b.get(mode)
                asks = isinstance(a, ast.Call) and isinstance(a.func, ast.Attribute) and \
                    a.func.attr == 'requires_length_header' and not a.args
                if isinstance(a, ast.Name):
                    assigns = [x for x in walk_local(fn.node) if isinstance(x, ast.Assign) and len(x.targets) == 1 and
                               isinstance(x.targets[0], ast.Name) and x.targets[0].id == a.id]
                    asks = len(assigns) == 1 and isinstance(assigns[0].value, ast.Call) and \
                        isinstance(assigns[0].value.func, ast.Attribute) and \
                        assigns[0].value.func.attr == 'requires_length_header'
                if not asks:
                    bad.append('%s line %d passes %s' % (fn.short, n.lineno, ast.unparse(a) if a is not None else
                                                         'nothing'))
    if n_calls < 2:
        raise AnalysisError('C03.i: %d callers of get_next_fragment, two confirmed by hand' % n_calls)
    rep.add('C03.i', 'callers of get_next_fragment / the transport written to is asked for its framing mode', g,
            not bad, '; '.join(bad) if bad else 'all %d calls pass <transport>.requires_length_header()' % n_calls)



def rule_cache_entries_leave_when_done(ctx):
    """C03.j  A partial frame leaves the reassembly cache for two reasons only: its last fragment arrived (append pops the
    entry of the very stream it was called for and returns the frame), or its stream ended (remove(stream_id) pops the
    id it is given).  The sender interleaves one fragment per queued frame, so any number of partial frames can be
    legitimately in progress at once: an eviction by age or count (`popitem`, `clear`, a pop under another key)
    truncates a payload that is still being received, or loses the head of a request."""
    rep = ctx.report
    cache = ctx.repo.cls('rsocket.frame_fragment_cache:FrameFragmentCache')
    if cache is None:
        raise AnalysisError('C03.j: FrameFragmentCache vanished')
    store = None
    for n in walk_local(cache.methods['__init__'].node):
        t = n.targets[0] if isinstance(n, ast.Assign) else n.target if isinstance(n, ast.AnnAssign) else None
        if isinstance(t, ast.Attribute) and isinstance(getattr(n, 'value', None), (ast.Dict, ast.Call)):
            store = t.attr
    if store is None:
        raise AnalysisError('C03.j: the cache keeps its partial frames nowhere')
    n_rm = 0
    bad = []
    for name, f in cache.methods.items():
        params = [p for p in f.params() if p != 'self']
        for x in walk_local(f.node):
            key = None
            what = None
            if isinstance(x, ast.Call) and isinstance(x.func, ast.Attribute) and \
                    isinstance(x.func.value, ast.Attribute) and x.func.value.attr == store and \
                    x.func.attr in ('pop', 'popitem', 'clear'):
                what = x.func.attr
                key = x.args[0] if x.args else None
            elif isinstance(x, ast.Delete):
                for t in x.targets:
                    if isinstance(t, ast.Subscript) and isinstance(t.value, ast.Attribute) and t.value.attr == store:
                        what, key = 'del', t.slice
                    elif isinstance(t, ast.Attribute) and t.attr == store:
                        what, key = 'del-all', None
            elif isinstance(x, ast.Assign) and any(isinstance(t, ast.Attribute) and t.attr == store
                                                    for t in x.targets) and name != '__init__':
                what, key = 'replaced', None
            if what is None:
                continue
            n_rm += 1
            ok = False
            if what in ('pop', 'del') and key is not None:
                kt = ast.unparse(key)
                if name == 'remove' and kt in params:
                    ok = True
                if name in ('append',) and params and kt == '%s.stream_id' % params[0]:
                    ok = True
            if not ok:
                bad.append((f, '%s.%s: %s%s' % (cache.name, name, what, '(%s)' % ast.unparse(key) if key is not None
                                                else '')))
    for f, txt in bad:
        rep.bad('C03.j', '%s / removes an entry that is neither complete nor of a finished stream' % txt, f,
                'a partial frame is dropped from the reassembly cache for a reason other than its last fragment or the '
                'end of its stream: a frame still being received is truncated or loses its head')
    rep.require('C03.j', 'removals from the reassembly cache', n_rm, 2)
    if not bad:
        rep.ok('C03.j', 'reassembly cache / entries leave on their last fragment or with their stream',
               cache.methods['append'], '%d removals: append pops frame.stream_id, remove pops the id given' % n_rm)




def rule_read_sizes_positive(ctx):
    """C03.k  Every read of the fragmenter asks for at least one byte.  `BytesIO.read(n)` returns everything that is
    left for a negative n - one fragment of any size - and nothing for n = 0 - a fragment that carries FOLLOWS and is
    followed by nothing.  On every path of the generator the size of each read is one of the two configured body sizes,
    such a size minus the length of an empty chunk, or a body size S minus len(chunk) where that chunk was read with
    size S and the path has established len(chunk) < S; a further constant subtracted from it is not shown to stay
    positive."""
    rep = ctx.report
    ff = ctx.repo.cls('rsocket.frame_fragmenter:FrameFragmenter')
    it = ff.lookup('__iter__') if ff is not None else None
    if it is None:
        raise AnalysisError('C03.k: FrameFragmenter.__iter__ vanished')
    self_t = ('self',)
    sizes = set()
    init = ff.methods['__init__']
    for n in walk_local(init.node):
        if isinstance(n, ast.Assign) and isinstance(n.targets[0], ast.Attribute) and 'size' in n.targets[0].attr:
            sizes.add(n.targets[0].attr)
    paths = ctx.paths(it, ff, symbolic_compare=True)
    n_reads = 0
    bad = {}

    def is_size(t):
        return isinstance(t, tuple) and t[0] == 'attr' and t[1] == self_t and t[2] in sizes

    for p in paths:
        for e in p.events:
            if not (e.kind == 'call' and e.data.get('name') == 'read' and e.data.get('args')):
                continue
            n_reads += 1
            t = strip_epoch(e.data['args'][0].term)
            ok = False
            if is_size(t):
                ok = True
            elif t[0] == 'op' and t[1] == 'Sub' and is_size(strip_epoch(t[2])):
                S, sub = strip_epoch(t[2]), strip_epoch(t[3])
                if sub == ('const', 0):
                    ok = True
                elif sub[0] == 'pure' and sub[1] == 'len' and sub[3]:
                    chunk = strip_epoch(sub[3][0])
                    asked = strip_epoch(chunk[2][0]) if chunk[0] == 'call' and chunk[1] == 'read' and chunk[2] else None
                    if asked == S:
                        shorter = [c for c in p.events if c.kind == 'cond' and c.seq < e.seq and c.data['value'] is True
                                   and strip_epoch(c.data['key'])[0] == 'lt' and
                                   strip_epoch(strip_epoch(c.data['key'])[1]) == sub and
                                   strip_epoch(strip_epoch(c.data['key'])[2]) == S]
                        ok = bool(shorter)
            if not ok:
                bad.setdefault(fmt_term(t)[:120], e)
    for txt, e in sorted(bad.items()):
        rep.bad('C03.k', 'FrameFragmenter.__iter__ / read(%s) asks for at least one byte' % txt, it,
                'the size of this read is not shown to be positive: for a negative size BytesIO.read returns everything '
                'that is left (one fragment of any size), for 0 nothing (a FOLLOWS fragment with no successor)')
    rep.require('C03.k', 'reads on the paths of the fragmenter', n_reads, 20)
    if not bad:
        rep.ok('C03.k', 'FrameFragmenter.__iter__ / every read asks for at least one byte', it,
               '%d reads on %d paths: a body size, or a body size minus a chunk known to be shorter' % (
                   n_reads, len(paths)))



RULES = [('C03.a', rule_a), ('C03.b', rule_b), ('C03.c', rule_c), ('C03.d', rule_d), ('C03.e', rule_e),
         ('C03.f', rule_f), ('C03.g', rule_g), ('C03.h', rule_h), ('C03.i', rule_i), ('C03.c', rule_predicate_is_the_mixin), ('C03.j', rule_cache_entries_leave_when_done), ('C03.k', rule_read_sizes_positive)]
