"""C12 Hostile input and failing application code are contained."""
import ast

from .. import AnalysisError
from ..effects import is_enq_send, strip_epoch, signal_kind
from ..index import walk_local, ClassInfo
from ..interp import fmt_term, const, AVal
from . import COMMON_ASSUMPTIONS
from .parserlib import while_progress
from .c04 import rule_g as receive_progress

EXPLANATION = (
    'Decides containment as exception-edge and progress facts: (a) the frame decoder is called only inside a '
    'try whose catch-all handler yields the invalid-frame marker; the decoder itself converts every exception of a '
    'per-type parse into one protocol error (or ignores it when the ignore flag is set); (b) in the receive loop the '
    'exception edge of the per-frame call ends in a handler inside the loop for everything except a transport error, '
    'and each handler answers on the stream id of the frame being handled; (c) the invalid-frame marker is tested '
    'before any attribute of the frame is used; (d) a frame for an unknown stream produces no exception; (e) every '
    'parsing loop (frame parser, composite metadata, MIME-type list, tag list) shrinks its distance to the exit by at '
    'least one byte per iteration on every path - intervals with guard refinement, return values of the inlined '
    'helpers, prefix size from the closed set of call-site values; (f) failing application code is converted, not '
    'propagated: a raising feeder signals on_error and stops, the five routed entry points return the error value of '
    'their role, a failed response future becomes an ERROR frame (shared with C10.a). Not decided: that requests on '
    'other streams are afterwards served correctly (a run-time fact).')
EXPLANATION_ADDED = ('(g) an unsolicited LEASE cannot stall requests (shared C14.f); send_error puts exactly one ERROR frame with the stream id given; a request on a stream id in use is rejected before anything is registered (shared C13.d); the data of the ERROR frame built for whatever a handler raised is text for every exception object, and every construction of a protocol error passes text (C12.g), so serialising the reply cannot kill the sender task; (h) every websocket-style transport hands the frame parser bytes only - the hand-off is guarded by a test of the message type (BINARY / isinstance bytes) or the value comes from an API that returns bytes only - so a TEXT message from the peer is ignored instead of raising in the parser and ending the connection; (i) every function kept in a dispatch table (frame logger, receive dispatch) and the default handed to .get() accepts the number of positional arguments the call site of the table passes; (j) every loop that produces a peer-chosen number of elements (REQUEST_N, up to 2^31-1) suspends once per element, so one credit frame cannot keep the receiver, the sender and the keepalives from running.')
EXPLANATION = EXPLANATION.replace(' Not decided', ' ' + EXPLANATION_ADDED + ' Not decided', 1) \
    if ' Not decided' in EXPLANATION else EXPLANATION + ' ' + EXPLANATION_ADDED
ASSUMPTIONS = COMMON_ASSUMPTIONS


def rule_a(ctx):
    rep = ctx.report
    m = ctx.repo.module('rsocket.frame')
    poi = m.functions.get('parse_or_ignore')
    if not poi:
        raise AnalysisError('C12.a: parse_or_ignore vanished')
    poi = poi[-1]
    sites = []
    for f in ctx.repo.all_functions():
        if not f.module.name.startswith('rsocket') or f.module.name.startswith('rsocket.cli'):
            continue
        for n in walk_local(f.node):
            if isinstance(n, ast.Call) and isinstance(n.func, ast.Name) and n.func.id == 'parse_or_ignore':
                sites.append((f, n))
    rep.require('C12.a', 'call sites of the frame decoder', len(sites), 1)
    for f, n in sites:
        cls = f.cls
        ok = True
        detail = ''
        seen = 0
        for p in ctx.paths(f, cls, exc=('app',), no_inline={'parse_or_ignore'}):
            calls = [e for e in p.events if e.kind == 'call' and e.node is n]
            for c in calls:
                raised = [e for e in p.events if e.kind == 'raise' and e.data.get('call') == c.seq]
                if not raised:
                    continue
                seen += 1
                if p.outcome == 'raise':
                    ok, detail = False, 'an exception of the frame decoder escapes %s' % f.short
                    continue
                handled = [e for e in p.events if e.kind == 'except' and e.seq > raised[0].seq]
                ys = [e.data['value'] for e in p.events if e.kind == 'yield' and handled and e.seq > handled[0].seq]
                # ... or hands it to a queue (a feeder that decodes a message by itself)
                ys += [e.data['args'][0] for e in p.events if e.kind == 'call' and handled and
                       e.seq > handled[0].seq and e.data.get('name') in ('put_nowait', 'put') and e.data.get('args')]
                if not ys or not ys[0].types or next(iter(ys[0].types)).name != 'InvalidFrame':
                    ok, detail = False, 'a decoder exception is swallowed without yielding the invalid-frame marker'
        if seen == 0:
            raise AnalysisError('C12.a: decoder call in %s has no exception edge' % f.short)
        rep.add('C12.a', '%s / decoder exceptions become the invalid-frame marker' % f.short, (f.file, n.lineno), ok,
                detail or 'every exception of the decoder is caught in the same iteration and yields InvalidFrame')
    # the decoder: any exception of frame.parse -> one RSocketProtocolError, or nothing when the ignore flag is set
    ps = ctx.paths(poi, None, exc=('app',), no_inline={'parse', 'parse_header'})
    parse_exc = 0
    ok = True
    detail = ''
    for p in ps:
        calls = [e for e in p.events if e.kind == 'call' and e.data.get('name') == 'parse']
        for c in calls:
            raised = [e for e in p.events if e.kind == 'raise' and e.data.get('call') == c.seq]
            if not raised:
                continue
            parse_exc += 1
            if p.outcome == 'raise':
                t = p.value.types
                if not t or next(iter(t)).name != 'RSocketProtocolError':
                    ok, detail = False, 'a per-type parse failure leaves the decoder as %s' % (
                        next(iter(t)).name if t else 'a raw exception')
            elif not (p.value.is_const() and p.value.const is None):
                ok, detail = False, 'a frame whose parse failed is still returned'
    if parse_exc == 0:
        raise AnalysisError('C12.a: frame.parse has no exception edge inside the decoder')
    rep.add('C12.a', 'parse_or_ignore / parse failures converted or ignored', poi, ok,
            detail or 'a failing parse becomes RSocketProtocolError, or None when the ignore flag is set')
    # too-short input is rejected before the header is read
    short = [n for n in walk_local(poi.node) if isinstance(n, ast.Compare) and 'len(' in ast.unparse(n) and
             'HEADER_LENGTH' in ast.unparse(n)]
    rep.add('C12.a', 'parse_or_ignore / too-short frame rejected', poi, bool(short),
            'frames shorter than the header are rejected before anything is read' if short else
            'the decoder reads the header without checking that 6 bytes are there')


def rule_b(ctx, check_untouched=True):
    rep = ctx.report
    slots = ctx.slots
    f = ctx.repo.func('rsocket.rsocket_base:RSocketBase._receiver_listen')
    for cls in (slots.RSocketClient, slots.RSocketServer):
        paths = ctx.paths(f, cls, exc=('app', 'transport', 'protocol'), inline_depth=2,
                          no_inline={'_handle_next_frame', '_current_transport', 'is_server_alive', 'send_error',
                                     '_log_identifier', '_start_task_if_not_closing', 'cancel_if_task_exists'})
        seen = {'app': 0, 'transport': 0, 'protocol': 0}
        ok = True
        detail = ''
        for p in paths:
            calls = [e for e in p.events if e.kind == 'call' and e.data.get('name') == '_handle_next_frame']
            if not calls:
                continue
            c = calls[0]
            raised = [e for e in p.events if e.kind == 'raise' and e.data.get('call') == c.seq]
            if not raised:
                continue
            kind = raised[0].data.get('implicit')
            seen[kind] = seen.get(kind, 0) + 1
            replies = [e for e in p.events if e.kind == 'call' and e.data.get('name') == 'send_error' and
                       e.seq > raised[0].seq]
            leaves = not [e for e in p.events if e.kind == 'except' and e.seq > raised[0].seq and
                          e.func.name == '_receiver_listen' and e.func.cls is slots.RSocketBase] or \
                any(e.kind == 'raise' and e.data.get('reraise') and e.seq > raised[0].seq and
                    e.func.cls is slots.RSocketBase for e in p.events)
            if kind in ('app', 'protocol'):
                if leaves:
                    ok, detail = False, 'an exception raised while handling a frame leaves the receive loop: one bad ' \
                                        'frame or one failing handler takes the connection down'
                elif len(replies) != 1:
                    ok, detail = False, 'a handler failure is answered with %d error frames' % len(replies)
                else:
                    a = strip_epoch(replies[0].data['args'][0].term)
                    if not (a[0] == 'attr' and a[2] == 'stream_id' and 'frame' in repr(a[1])):
                        ok, detail = False, 'the error reply goes to %s, not to the stream of the offending frame' % \
                            fmt_term(a)
                    # answering a bad frame must not touch the stream registered under its id: the frame may be a
                    # request that was rejected precisely because that id belongs to a live stream
                    from ..effects import is_gone as _is_gone, is_finish as _is_finish
                    gone = [e for e in p.events if e.seq > raised[0].seq and (
                        _is_gone(e, slots) or _is_finish(e, slots) or
                        (e.kind == 'call' and e.data.get('name') in ('finish_stream', '_finish_stream')))]
                    if gone and check_untouched:
                        ok, detail = False, ('the branch that answers a failing frame also removes the stream registered '
                                             'under the frame\'s id (line %s): rejecting a request that reuses a live id '
                                             'un-registers the live stream' % gone[0].line)
            elif kind == 'transport':
                if not leaves:
                    ok, detail = False, 'a transport error raised inside frame handling is swallowed: the receiver ' \
                                        'keeps reading a dead connection'
        if seen['app'] == 0:
            raise AnalysisError('C12.b: the per-frame call has no exception edge')
        rep.add('C12.b', '%s._receiver_listen / per-frame exceptions contained' % cls.name, f, ok,
                detail or 'application/protocol failures: one ERROR on the frame\'s stream, loop continues (%d paths); '
                          'transport errors end the loop (%d paths)' % (seen['app'] + seen['protocol'],
                                                                        seen['transport']))
    # protocol errors keep their code: the RSocketProtocolError handler passes the exception itself
    hs = [n for n in walk_local(f.node) if isinstance(n, ast.ExceptHandler)]
    rep.require('C12.b', 'exception handlers in the receive loop', len(hs), 1)


def rule_c(ctx):
    rep = ctx.report
    slots = ctx.slots
    f = ctx.repo.func('rsocket.rsocket_base:RSocketBase._handle_next_frame')
    inv = slots.repo.cls('rsocket.frame:InvalidFrame') if hasattr(slots, 'repo') else ctx.repo.cls(
        'rsocket.frame:InvalidFrame')
    frame = AVal(('param', f.qualname, 'frame'), [inv], exact=True)
    ps = ctx.paths(f, slots.RSocketServer, args={'frame': frame}, inline_depth=2,
                   no_inline={'_handle_frame_by_type'})
    ok = True
    detail = ''
    for p in ps:
        if p.outcome != 'return':
            ok, detail = False, 'handling the invalid-frame marker raises'
        uses = [e for e in p.events if e.kind == 'call' and e.data.get('how') not in ('external',) and
                e.data.get('name') not in ('log_frame', '_log_identifier')]
        conds = [e for e in p.events if e.kind == 'cond' and 'isinstance' in repr(e.data['key'][0])]
        if uses:
            ok, detail = False, 'the invalid-frame marker reaches %s' % uses[0].data.get('name')
    rep.add('C12.c', 'RSocketBase._handle_next_frame / invalid-frame marker dropped first', f, ok,
            detail or 'an InvalidFrame marker returns before the fragment cache, the dispatch table or the stream '
                      'table see it (%d paths)' % len(ps))
    # AST side: the isinstance(InvalidFrame) test precedes every attribute use of `frame`
    first_use = None
    test_line = None
    for n in ast.walk(f.node):
        if isinstance(n, ast.Call) and isinstance(n.func, ast.Name) and n.func.id == 'isinstance' and \
                'InvalidFrame' in ast.unparse(n):
            test_line = n.lineno if test_line is None else min(test_line, n.lineno)
        if isinstance(n, ast.Attribute) and isinstance(n.value, ast.Name) and n.value.id == 'frame':
            first_use = n.lineno if first_use is None else min(first_use, n.lineno)
    ok2 = test_line is not None and (first_use is None or test_line < first_use)
    rep.add('C12.c', 'RSocketBase._handle_next_frame / marker test before attribute use', f, ok2,
            'the marker test (line %s) precedes the first attribute use of the frame' % test_line if ok2 else
            'an attribute of the frame is read (line %s) before the marker test (line %s)' % (first_use, test_line))


def rule_d(ctx):
    rep = ctx.report
    slots = ctx.slots
    sc = slots.StreamControl
    hs = sc.lookup('handle_stream')
    if hs is None:
        raise AnalysisError('C12.d: StreamControl.handle_stream vanished')
    ps = ctx.paths(hs, sc, no_inline={'frame_received'})
    ok = True
    n_unknown = 0
    for p in ps:
        absent = [e for e in p.events if e.kind == 'cond' and strip_epoch(e.data['key'])[0] == 'in' and
                  e.data['value'] is False]
        if absent:
            n_unknown += 1
            if p.outcome != 'return' or not (p.value.is_const() and p.value.const is False):
                ok = False
            if any(e.kind == 'call' and e.data.get('name') == 'frame_received' for e in p.events):
                ok = False
    rep.add('C12.d', 'StreamControl.handle_stream / unknown stream ignored', hs, ok and n_unknown > 0,
            'a frame for a stream that is not in the table returns False without touching a handler' if ok and n_unknown
            else 'a frame for an unknown stream raises or reaches a handler')
    f = ctx.repo.func('rsocket.rsocket_base:RSocketBase._handle_next_frame')
    cancel = slots.frame_classes['CancelFrame']
    ps = ctx.paths(f, slots.RSocketServer, args={'frame': AVal(('param', f.qualname, 'frame'), [cancel], exact=True)},
                   inline_depth=3, no_inline={'frame_received', '_handle_frame_by_type'})
    ok = all(p.outcome == 'return' for p in ps) and bool(ps)
    rep.add('C12.d', 'RSocketBase._handle_next_frame / frame for an unknown or finished stream', f, ok,
            'no path raises for a stream-level frame whose stream is not registered' if ok else
            'a stream-level frame for an unregistered stream raises')


PARSE_LOOPS = [
    ('rsocket.extensions.composite_metadata:CompositeMetadata.parse', 'rsocket.extensions.composite_metadata:CompositeMetadata'),
    ('rsocket.extensions.stream_data_mimetype:StreamDataMimetypes.parse', 'rsocket.extensions.stream_data_mimetype:StreamDataMimetypes'),
    ('rsocket.extensions.tagging:TaggingMetadata.parse', 'rsocket.extensions.tagging:TaggingMetadata'),
]


def rule_e(ctx):
    receive_progress(ctx)
    extension_loops_progress(ctx)


def extension_loops_progress(ctx):
    rep = ctx.report
    for fspec, cspec in PARSE_LOOPS:
        f = ctx.repo.func(fspec)
        c = ctx.repo.cls(cspec)
        loops = [n for n in walk_local(f.node) if isinstance(n, ast.While)]
        if len(loops) != 1:
            raise AnalysisError('C12.e: expected one loop in %s' % f.short)
        n, problem = while_progress(ctx, f, c, loops[0], no_inline={'require_by_id', 'get_by_name', 'item_parse'},
                                    inline_filter=lambda g: g.name not in ('parse',) or g is f, arm='except')
        if n == 0:
            raise AnalysisError('C12.e: no iteration path in %s' % f.short)
        rep.add('C12.e', '%s / every iteration consumes input' % f.short, (f.file, loops[0].lineno), problem is None,
                problem or 'the cursor advances by at least 1 on all %d iteration paths' % n)


def rule_f(ctx):
    rep = ctx.report
    slots = ctx.slots
    # routed entry points: failures of parsing/verification/routing/handler become the error value of the role
    rrh = ctx.repo.cls('rsocket.routing.routing_request_handler:RoutingRequestHandler')
    entries = {'request_channel': 'tuple', 'request_fire_and_forget': None, 'request_response': 'future',
               'request_stream': 'ErrorStream', 'on_metadata_push': None}
    for name, want in entries.items():
        f = rrh.lookup(name)
        if f is None:
            raise AnalysisError('C12.f: RoutingRequestHandler.%s vanished' % name)
        ps = ctx.paths(f, rrh, exc=('app',), no_inline={'_parse_and_route'})
        n_exc = 0
        ok = True
        detail = ''
        for p in ps:
            calls = [e for e in p.events if e.kind == 'call' and e.data.get('name') == '_parse_and_route']
            raised = [e for e in p.events if calls and e.kind == 'raise' and e.data.get('call') == calls[0].seq]
            if not raised:
                continue
            n_exc += 1
            if p.outcome == 'raise':
                ok, detail = False, 'a failure of parsing/authentication/routing/handler propagates to the receive loop'
                continue
            v = p.value
            if want == 'ErrorStream':
                if not v.types or next(iter(v.types)).name != 'ErrorStream':
                    ok, detail = False, 'a failed routed stream request does not return an error stream'
            elif want == 'future':
                if 'create_error_future' not in repr(v.term) and 'set_exception' not in repr(
                        [e.data.get('name') for e in p.events]):
                    ok, detail = False, 'a failed routed request-response does not return a failed future'
            elif want == 'tuple':
                t = v.term
                if t[0] != 'tuple' or not t[1][0].types or next(iter(t[1][0].types)).name != 'ErrorStream':
                    ok, detail = False, 'a failed routed channel request does not return an error stream'
        if n_exc == 0:
            raise AnalysisError('C12.f: %s has no exception edge from routing' % name)
        rep.add('C12.f', 'RoutingRequestHandler.%s / failure converted to the role\'s error value' % name, f, ok,
                detail or 'every failure is caught and converted (%d exception paths)' % n_exc)
    # generator feeders: a raising generator signals on_error and stops
    sfg = ctx.repo.cls('rsocket.streams.stream_from_generator:StreamFromGenerator')
    for k in ctx.repo.concrete_subclasses(sfg):
        q = k.lookup('queue_next_n')
        if q is None:
            raise AnalysisError('C12.f: %s.queue_next_n vanished' % k.name)
        ps = ctx.paths(q, k, exc=('app',), inline_depth=2, no_inline={'_cancel_feeders', '_start_generator'})
        n_exc = 0
        ok = True
        detail = ''
        for p in ps:
            raised = [e for e in p.events if e.kind == 'raise' and e.data.get('implicit') == 'app']
            if not raised:
                continue
            # an exception from on_error itself is not what this rule is about
            src = [e for e in p.events if e.seq == raised[0].data.get('call')]
            if src and src[0].data.get('name') in ('on_error', 'put_nowait'):
                continue
            n_exc += 1
            sig = [e for e in p.events if signal_kind(e) == 'error' and e.seq > raised[0].seq]
            if p.outcome == 'raise' and not sig:
                ok, detail = False, 'an exception of the application generator escapes the feeder task unreported'
            elif not sig:
                ok, detail = False, 'an exception of the application generator is swallowed without on_error'
        if n_exc == 0:
            raise AnalysisError('C12.f: %s.queue_next_n has no exception edge' % k.name)
        rep.add('C12.f', '%s.queue_next_n / generator failure becomes on_error' % k.name, q, ok,
                detail or 'the subscriber is told on all %d exception paths' % n_exc)


def rule_h(ctx):
    """The error reply really is one ERROR frame on the given stream (what C12.b's call sites rely on)."""
    from . import plumbing
    plumbing.rule_send_helpers(ctx, 'C12.b')


def rule_i(ctx):
    """A request on a stream id that is in use is answered with REJECTED and replaces nothing (shared C13.d): the
    protocol-violating frame must not disturb the stream registered under that id."""
    from .c13 import rule_d as c13d
    c13d(ctx)


_TEXT_RESOLVER = []  # (repo, module) of the expression being judged, set by the rules that can resolve helpers


def _text_ast(node, _depth=0):
    """AST expression whose value is text (str/bytes) or None whatever the operands are."""
    if isinstance(node, ast.Call) and isinstance(node.func, ast.Name) and _TEXT_RESOLVER and _depth < 2:
        repo, mod = _TEXT_RESOLVER[-1]
        r = repo.resolve_name(mod, node.func.id)
        if isinstance(r, list) and r:
            from ..astutil import returned_exprs
            rets = [x for g in r for x in returned_exprs(g.node)]
            if rets and all(_text_ast(x, _depth + 1) for x in rets):
                return True
    if isinstance(node, ast.Constant):
        return node.value is None or isinstance(node.value, (str, bytes))
    if isinstance(node, ast.JoinedStr):
        return True
    if isinstance(node, ast.Call):
        if isinstance(node.func, ast.Name) and node.func.id in ('str', 'repr', 'bytes', 'format', 'ascii'):
            return True
        if isinstance(node.func, ast.Attribute) and node.func.attr in ('decode', 'encode', 'format', 'join', 'hex'):
            return True
        if isinstance(node.func, ast.Name) and node.func.id in ('ensure_bytes', 'str_to_bytes'):
            return bool(node.args) and _text_ast(node.args[0])
    if isinstance(node, ast.BinOp) and isinstance(node.op, ast.Mod):
        return isinstance(node.left, ast.Constant) and isinstance(node.left.value, (str, bytes))
    if isinstance(node, ast.BinOp) and isinstance(node.op, ast.Add):
        return _text_ast(node.left) and _text_ast(node.right)
    if isinstance(node, ast.IfExp):
        return _text_ast(node.body) and _text_ast(node.orelse)
    return False


def _text_term(term, annotated):
    """Interpreter term whose value is text or None: str()/repr() of anything, a text constant, or an attribute the
    caller has established as text (`annotated`)."""
    term = strip_epoch(term)
    if not isinstance(term, tuple):
        return term is None or isinstance(term, (str, bytes))
    if term[0] == 'const':
        return term[1] is None or isinstance(term[1], (str, bytes))
    if term[0] == 'pure' and term[1] in ('str', 'repr', 'format', 'ascii'):
        return True
    if term[0] == 'fstring':
        return True
    if term[0] == 'op' and term[1] == 'Mod':
        left = term[2]
        return isinstance(left, tuple) and left[0] == 'const' and isinstance(left[1], (str, bytes))
    if term[0] == 'op' and term[1] == 'Add':
        return _text_term(term[2], annotated) and _text_term(term[3], annotated)
    if term[0] == 'call' and term[1] in ('decode', 'encode', 'format', 'join'):
        return True
    if term[0] == 'call' and term[1] in ('ensure_bytes', 'str_to_bytes') and term[2]:
        return _text_term(term[2][0], annotated)
    if term[0] == 'attr' and term[2] in annotated:
        return True
    return False


def rule_j(ctx):
    """The ERROR frame built for whatever a handler raised can always be serialised: its data is text or None for
    every exception object.  A non-text value (an exception argument passed through as is) makes the one sender task
    die in serialisation, after which no stream of the connection gets another frame."""
    rep = ctx.report
    repo = ctx.repo
    f = repo.func('rsocket.frame:exception_to_error_frame')
    perr = repo.cls('rsocket.exceptions:RSocketProtocolError')
    # (1) what RSocketProtocolError.data can hold: every constructor call and every super().__init__ of a subclass
    init = perr.lookup('__init__')
    if init is None:
        raise AnalysisError('C12.g: RSocketProtocolError has no __init__')
    params = [a.arg for a in init.node.args.args]
    if 'data' not in params:
        raise AnalysisError('C12.g: RSocketProtocolError.__init__ has no data parameter')
    pos = params.index('data') - 1
    stored = [n for n in ast.walk(init.node) if isinstance(n, ast.Assign) and
              ast.unparse(n.targets[0]) == 'self.data']
    direct = all(isinstance(n.value, ast.Name) and n.value.id == 'data' or _text_ast(n.value) for n in stored)
    default = init.node.args.defaults[-1] if init.node.args.defaults else None
    sub = {k.qualname for k in repo.all_classes() if perr in k.mro()}
    n_sites = 0
    bad_sites = []
    for fn in repo.all_functions():
        if not fn.qualname.startswith('rsocket'):
            continue
        if True:
            for n in ast.walk(fn.node):
                if not isinstance(n, ast.Call):
                    continue
                is_ctor = isinstance(n.func, ast.Name) and n.func.id == perr.name
                is_super = (isinstance(n.func, ast.Attribute) and n.func.attr == '__init__' and
                            isinstance(n.func.value, ast.Call) and isinstance(n.func.value.func, ast.Name) and
                            n.func.value.func.id == 'super' and fn.cls is not None and fn.cls.qualname in sub and
                            fn.cls is not perr and fn.cls.mro()[1] is perr)
                if not (is_ctor or is_super):
                    continue
                n_sites += 1
                arg = None
                for kw in n.keywords:
                    if kw.arg == 'data':
                        arg = kw.value
                if arg is None and len(n.args) > pos:
                    arg = n.args[pos]
                _TEXT_RESOLVER.append((repo, fn.module))
                try:
                    is_text = arg is None or _text_ast(arg)
                finally:
                    _TEXT_RESOLVER.pop()
                if not is_text:
                    bad_sites.append('%s line %d passes %s' % (fn.qualname, n.lineno, ast.unparse(arg)))
    if n_sites < 5:
        raise AnalysisError('C12.g: only %d constructions of the protocol error found' % n_sites)
    ok_attr = bool(stored) and direct and not bad_sites and (default is None or _text_ast(default))
    rep.add('C12.g', 'RSocketProtocolError / data is text at every construction', init, ok_attr,
            '; '.join(bad_sites) if bad_sites else
            'all %d constructions (and subclass initialisers) pass text or nothing as data' % n_sites if ok_attr else
            'the data attribute is not the constructor argument')
    # (2) the frame builder
    ps = ctx.paths(f, None, inline_depth=0)
    if not ps:
        raise AnalysisError('C12.g: exception_to_error_frame has no paths')
    ok, detail, n_store = True, '', 0
    for p in ps:
        if p.outcome != 'return':
            ok, detail = False, 'building the error frame can itself raise'
            continue
        is_protocol = any(e.kind == 'cond' and 'isinstance' in repr(e.data['key']) and
                          'RSocketProtocolError' in repr(e.data['key']) and e.data['value'] for e in p.events)
        last = None
        for e in p.events:
            if e.kind == 'store' and e.data['target'][0] == 'attr' and e.data['target'][2] == 'data':
                last = e
        if last is None:
            ok, detail = False, 'a path builds the error frame without data'
            continue
        n_store += 1
        if not _text_term(last.data['value'].term, {'data'} if (is_protocol and ok_attr) else set()):
            ok, detail = False, 'the error data is %s, which is text only for some exceptions' % \
                fmt_term(strip_epoch(last.data['value'].term))
    rep.add('C12.g', 'exception_to_error_frame / error data is text for every exception', f, ok,
            detail or 'on all %d paths the data is the text of the exception (or a protocol error\'s text)' % n_store)


def rule_k(ctx):
    """A websocket peer's TEXT message cannot take the connection down: every message transport hands the frame
    parser bytes only (rules/msgtransports.py)."""
    from .msgtransports import rule_only_bytes_reach_the_parser
    rule_only_bytes_reach_the_parser(ctx, 'C12.h')


def rule_l(ctx):
    """Every function stored in a dispatch table accepts the arguments its table is called with (rules/binding.py):
    the frame logger runs inside the receive loop, before the invalid-frame marker is dropped, so a logger entry with
    another signature raises there."""
    from .binding import rule_dispatch_table_arity
    rule_dispatch_table_arity(ctx, 'C12.i', ['rsocket'], 'library dispatch tables')


def rule_m(ctx):
    """A REQUEST_N cannot monopolise the event loop: the credited production loops suspend per element (rule in
    rules/c06.py next to C06.b, which decides how many elements such a loop produces)."""
    from .c06 import rule_credit_loops_yield_the_loop
    rule_credit_loops_yield_the_loop(ctx, 'C12.j')


def rule_g(ctx):
    """An unsolicited LEASE frame cannot stall the victim's requests (shared C14.f)."""
    from .c14 import rule_gate_scope
    rule_gate_scope(ctx)


def _str_ast(node, text_names=()):
    """AST expression whose value is a str whatever the operands are (bytes do not count: __str__ must return str)."""
    if isinstance(node, ast.Constant):
        return isinstance(node.value, str)
    if isinstance(node, ast.JoinedStr):
        return True
    if isinstance(node, ast.Name):
        return node.id in text_names
    if isinstance(node, ast.Call):
        if isinstance(node.func, ast.Name) and node.func.id in ('str', 'repr', 'format', 'ascii'):
            return True
        if isinstance(node.func, ast.Attribute) and node.func.attr in ('decode', 'format', 'join', 'hex', '__str__',
                                                                       '__repr__', 'strip', 'lower', 'upper'):
            return True
    if isinstance(node, ast.BinOp) and isinstance(node.op, ast.Mod):
        return isinstance(node.left, ast.Constant) and isinstance(node.left.value, str)
    if isinstance(node, ast.BinOp) and isinstance(node.op, ast.Add):
        return _str_ast(node.left, text_names) and _str_ast(node.right, text_names)
    if isinstance(node, ast.IfExp):
        return _str_ast(node.body, text_names) and _str_ast(node.orelse, text_names)
    if isinstance(node, ast.BoolOp):
        return all(_str_ast(v, text_names) for v in node.values)
    return False


def rule_exception_text(ctx):
    """C12.k  str() of a library exception cannot fail.  The receive loop builds its ERROR reply inside the `except`
    clause (send_error -> exception_to_error_frame -> str(exception)); a __str__ that returns something other than a
    str raises TypeError there, outside the per-frame try: the receiver task dies without the close sequence and the
    connection is wedged.  Every __str__ / __repr__ of a library exception class returns an expression that is a str
    whatever its operands are, or a constructor argument (self.args[i], or an attribute __init__ fills from a
    parameter) that every construction of the class - and of each subclass that inherits the method - passes as text
    (a text expression, or a parameter annotated str)."""
    rep = ctx.report
    repo = ctx.repo
    from ..astutil import returned_exprs

    def is_exception(k):
        text = ' '.join(ast.unparse(b) for kk in k.mro() for b in kk.node.bases)
        return any(w in text for w in ('Exception', 'Error'))

    classes = [k for k in repo.all_classes() if k.module.name.startswith(('rsocket.', 'reactivestreams.')) and
               not k.module.name.startswith('rsocket.cli') and is_exception(k)]
    rep.require('C12.k', 'library exception classes', len(classes), 12)

    def sites(k):
        """Constructions K(...) of k in the library."""
        out = []
        for fn in repo.all_functions():
            if not fn.module.name.startswith(('rsocket.', 'reactivestreams.')):
                continue
            for n in walk_local(fn.node):
                if isinstance(n, ast.Call) and isinstance(n.func, (ast.Name, ast.Attribute)):
                    name = n.func.id if isinstance(n.func, ast.Name) else n.func.attr
                    if name == k.name:
                        t = repo.resolve_expr(fn.module, n.func)
                        if t is k:
                            out.append((fn, n))
        return out

    def arg_is_text(fn, e):
        names = set()
        a = fn.node.args
        for arg in a.posonlyargs + a.args + a.kwonlyargs:
            if arg.annotation is not None and ast.unparse(arg.annotation) == 'str':
                names.add(arg.arg)
        return _str_ast(e, names)

    n = 0
    for k in classes:
        for name in ('__str__', '__repr__'):
            f = k.methods.get(name)
            if f is None:
                continue
            n += 1
            users = [c for c in classes if k in c.mro() and c.lookup(name) is f]
            bad = []
            for r in returned_exprs(f.node):
                if _str_ast(r):
                    continue
                # the parts that are not evidently text
                parts = []

                def collect(e):
                    if isinstance(e, ast.IfExp):
                        collect(e.body), collect(e.orelse)
                    elif isinstance(e, ast.BoolOp):
                        for v in e.values:
                            collect(v)
                    elif not _str_ast(e):
                        parts.append(e)
                collect(r)
                for e in parts:
                    idx = None
                    if isinstance(e, ast.Subscript) and ast.unparse(e.value) == 'self.args' and \
                            isinstance(e.slice, ast.Constant) and isinstance(e.slice.value, int):
                        idx = e.slice.value
                    elif isinstance(e, ast.Attribute) and isinstance(e.value, ast.Name) and e.value.id == 'self':
                        idx = ('attr', e.attr)
                    if idx is None:
                        bad.append('%s is not a str for every operand' % ast.unparse(e))
                        continue
                    for c in users:
                        pos = idx
                        if isinstance(idx, tuple):
                            init = c.lookup('__init__')
                            pos = None
                            if init is not None:
                                ps_ = [x for x in init.params() if x != 'self']
                                for st in walk_local(init.node):
                                    if isinstance(st, ast.Assign) and ast.unparse(st.targets[0]) == 'self.' + idx[1] \
                                            and isinstance(st.value, ast.Name) and st.value.id in ps_:
                                        pos = ps_.index(st.value.id)
                            if pos is None:
                                bad.append('self.%s of %s is not a constructor argument' % (idx[1], c.name))
                                continue
                        for fn, call in sites(c):
                            if len(call.args) > pos:
                                if not arg_is_text(fn, call.args[pos]):
                                    bad.append('%s(%s) in %s passes %s, which is not text' % (
                                        c.name, ', '.join(ast.unparse(x) for x in call.args), fn.name,
                                        ast.unparse(call.args[pos])))
                            elif not isinstance(idx, tuple):
                                guarded = isinstance(r, ast.IfExp) and 'self.args' in ast.unparse(r.test)
                                if not guarded:
                                    bad.append('%s() in %s passes no argument %d' % (c.name, fn.name, pos))
            rep.add('C12.k', '%s.%s / returns text for every instance' % (k.name, name), f, not bad,
                    'every returned expression is a str by construction' if not bad else
                    '%s: str(exception) raises TypeError inside the receive loop\'s except clause and the receiver '
                    'task dies' % '; '.join(sorted(set(bad))[:4]))
    rep.require('C12.k', '__str__ / __repr__ definitions of library exceptions', n, 2)


def rule_error_conversion(ctx, rule='C12.l'):
    """C12.l  The error a peer is told is the error that was raised, and the error a requester is handed is the error
    the peer sent.  exception_to_error_frame: for a protocol error the frame carries the exception's own error code
    and data, for anything else APPLICATION_ERROR and the exception's text, on the stream id given.
    error_frame_to_exception: an APPLICATION_ERROR frame becomes a generic exception with the frame's text, every other
    code a protocol error constructed with the frame's code and text.  RSocketProtocolError keeps the code and the
    data it was constructed with.  (REJECTED_SETUP / UNSUPPORTED_SETUP / REJECTED / CONNECTION_ERROR reach the wire and
    the application only through these two functions.)"""
    rep = ctx.report
    repo = ctx.repo
    f = repo.func('rsocket.frame:exception_to_error_frame')
    g = repo.func('rsocket.frame:error_frame_to_exception')
    perr = repo.cls('rsocket.exceptions:RSocketProtocolError')
    if f is None or g is None or perr is None:
        raise AnalysisError('%s: the error conversions vanished' % rule)
    exc = ('param', f.qualname, f.params()[1])
    sid = ('param', f.qualname, f.params()[0])
    ps = [p for p in ctx.paths(f, None, inline_depth=0) if p.outcome == 'return']
    ok, detail = len(ps) >= 2, '' if len(ps) >= 2 else 'expected a protocol-error and a generic path'
    seen = set()
    for p in ps:
        is_protocol = None
        for e in p.events:
            if e.kind == 'cond':
                k = strip_epoch(e.data['key'])
                if k[0] == 'isinstance' and k[1] == exc and any('RSocketProtocolError' in str(c) for c in k[2]):
                    is_protocol = bool(e.data['value'])
        if is_protocol is None:
            ok, detail = False, 'a path does not distinguish protocol errors from other exceptions'
            continue
        seen.add(is_protocol)
        last = {}
        for e in p.events:
            if e.kind == 'store' and e.data['target'][0] == 'attr' and \
                    strip_epoch(e.data['target'][1]) == strip_epoch(p.value.term):
                last[e.data['target'][2]] = strip_epoch(e.data['value'].term)
        if last.get('stream_id') != sid:
            ok, detail = False, 'the frame is not put on the stream id given (%s)' % fmt_term(last.get('stream_id'))
        code = last.get('error_code')
        data = last.get('data')
        if is_protocol:
            if code != ('attr', exc, 'error_code'):
                ok, detail = False, 'a protocol error is announced with %s, not with its own error code' % fmt_term(code)
            if data is None or ('attr', exc, 'data') not in _flatten(data):
                ok, detail = False, 'a protocol error\'s data is not what the frame carries'
        else:
            if not (isinstance(code, tuple) and code[0] == 'enum' and code[2] == 'APPLICATION_ERROR'):
                ok, detail = False, 'an application failure is announced with %s, not APPLICATION_ERROR' % fmt_term(code)
            if data is None or not any(_text_term(t, set()) and exc in _flatten(t) for t in _flatten(data)):
                ok, detail = False, 'the text of the failure is not what the frame carries'
    if ok and seen != {True, False}:
        ok, detail = False, 'one of the two cases is missing'
    rep.add(rule, 'exception_to_error_frame / own code and data for protocol errors, APPLICATION_ERROR otherwise', f, ok,
            detail or 'stream id, code and data as raised on both paths')
    # the reverse direction
    fr = ('param', g.qualname, g.params()[0])
    ps = [p for p in ctx.paths(g, None, inline_depth=2) if p.outcome == 'return']
    ok, detail = len(ps) >= 2, '' if len(ps) >= 2 else 'expected two paths'
    seen = set()
    for p in ps:
        app = None
        for e in p.events:
            if e.kind == 'cond':
                k = strip_epoch(e.data['key'])
                if k[0] == 'eq' and ('attr', fr, 'error_code') in k[1:3] and any(
                        isinstance(x, tuple) and x[0] == 'enum' and x[2] == 'APPLICATION_ERROR' for x in k[1:3]):
                    app = bool(e.data['value'])
        if app is None:
            ok, detail = False, 'a path does not test the frame\'s code against APPLICATION_ERROR'
            continue
        seen.add(app)
        t = strip_epoch(p.value.term)
        news = [e for e in p.events if e.kind == 'new' and strip_epoch(e.data['value'].term) == t]
        carries_text = False
        if app:
            if news and news[0].data['cls'].is_subclass_of(perr):
                ok, detail = False, 'an APPLICATION_ERROR frame becomes a protocol error'
            carries_text = ('attr', fr, 'data') in _flatten(t)
        else:
            if not news or not news[0].data['cls'].is_subclass_of(perr):
                ok, detail = False, 'a frame with a protocol error code becomes %s' % fmt_term(t)
                continue
            args = [strip_epoch(a.term) for a in news[0].data['args']]
            kw = {k2: strip_epoch(v.term) for k2, v in news[0].data['kwargs'].items()}
            code = kw.get('error_code', args[0] if args else None)
            data = kw.get('data', args[1] if len(args) > 1 else None)
            if code != ('attr', fr, 'error_code'):
                ok, detail = False, 'the protocol error is built with %s, not the frame\'s code' % fmt_term(code)
            carries_text = data is not None and ('attr', fr, 'data') in _flatten(data)
        if not carries_text:
            ok, detail = False, detail or 'the exception does not carry the frame\'s text'
    if ok and seen != {True, False}:
        ok, detail = False, 'one of the two cases is missing'
    rep.add(rule, 'error_frame_to_exception / APPLICATION_ERROR -> generic, any other code -> protocol error with it', g,
            ok, detail or 'code and text of the frame on both paths')
    # the exception keeps what it was constructed with
    init = perr.lookup('__init__')
    ok = init is not None
    detail = ''
    if ok:
        kept = {}
        for n in walk_local(init.node):
            if isinstance(n, ast.Assign) and isinstance(n.targets[0], ast.Attribute) and \
                    isinstance(n.targets[0].value, ast.Name) and n.targets[0].value.id == 'self' and \
                    isinstance(n.value, ast.Name):
                kept[n.targets[0].attr] = n.value.id
        if kept.get('error_code') != 'error_code' or kept.get('data') != 'data':
            ok, detail = False, 'RSocketProtocolError.__init__ keeps %s' % kept
    rep.add(rule, 'RSocketProtocolError.__init__ / keeps the code and the data it is constructed with', init or perr, ok,
            detail or 'self.error_code = error_code; self.data = data')


def _flatten(t):
    out = []
    if isinstance(t, tuple):
        out.append(t)
        for x in t:
            out.extend(_flatten(x))
    return out



def rule_decoder_entry(ctx):
    """Truncated and undecodable frames: the decoder entry refuses a short buffer with ParseError and an undecodable frame with CONNECTION_ERROR - or drops it when it carries the ignore flag - and otherwise hands back the frame it decoded (shared C02.h)."""
    from .c02 import rule_decoder_entry as de
    de(ctx, 'C02.h')



def rule_empty_messages(ctx):
    """C12.m  An empty message does not end a message transport's feeder (rules/msgtransports.py)."""
    from .msgtransports import rule_empty_message_is_not_the_end as r
    r(ctx, 'C12.m')



def rule_marker_queues(ctx):
    """(shared C04.j)  An undecodable message is contained on the message transports too: the marker the parser yields
    for it is not an exception, so the queue reader that raises exception items does not take it for the end of the
    connection (rules/msgtransports.py)."""
    from .msgtransports import rule_marker_queues_read_item_by_item as r
    r(ctx, 'C04.j')



def rule_future_inspection(ctx):
    """C12.n  Looking at an application future cannot end the receive loop.  Future.exception() and Future.result()
    raise CancelledError for a cancelled future - a BaseException, which passes the receive loop's `except Exception`
    and is taken by the receiver for its own cancellation: the whole connection is torn down without a word to the peer.
    Every call of .exception() / .result() in the library is dominated, on every path that reaches it, by a test that
    the same future is not cancelled (`.cancelled()` false), or sits in a `try` that catches CancelledError /
    BaseException."""
    rep = ctx.report
    n = 0
    for f in ctx.repo.all_functions():
        if not f.module.name.startswith(('rsocket.', 'reactivestreams.')) or f.module.name.startswith('rsocket.cli'):
            continue
        sites = [x for x in walk_local(f.node) if isinstance(x, ast.Call) and isinstance(x.func, ast.Attribute) and
                 x.func.attr in ('exception', 'result') and not x.args and not x.keywords]
        if not sites:
            continue
        for x in sites:
            n += 1
            subject = ast.unparse(x.func.value)
            # lexical protection by a try that catches the cancellation
            protected = False
            for t in walk_local(f.node):
                if isinstance(t, ast.Try) and any(y is x for b in t.body for y in ast.walk(b)):
                    for h in t.handlers:
                        ht = ast.unparse(h.type) if h.type is not None else 'BaseException'
                        if 'CancelledError' in ht or 'BaseException' in ht:
                            protected = True
            ok = protected
            if not ok:
                # dominated, on every path that reaches the call, by `<future>.cancelled()` having come out false
                ok = True
                reached = 0
                for p in ctx.paths(f, f.cls, inline_depth=0):
                    evs = [e for e in p.events if e.kind == 'call' and e.data.get('name') == x.func.attr and
                           e.node is x]
                    if not evs:
                        continue
                    reached += 1
                    tests = [c for c in p.events if c.kind == 'cond' and c.seq < evs[0].seq and
                             'cancelled' in repr(strip_epoch(c.data['key']))]
                    not_cancelled = [c for c in tests if (strip_epoch(c.data['key'])[0] == 'truth' and
                                                          not c.data['value']) or
                                     (strip_epoch(c.data['key'])[0] == 'not' and c.data['value'])]
                    if not not_cancelled:
                        ok = False
                if reached == 0:
                    ok = _cancel_tested_before(f.node, x, subject)
            rep.add('C12.n', '%s / %s.%s() only for a future known not to be cancelled' % (
                f.qualname.split(':')[-1], subject, x.func.attr), (f.file, x.lineno), ok,
                'behind a cancelled() test' if ok else
                '%s.%s() raises CancelledError for a cancelled future: a BaseException, which the receive loop takes for '
                'its own cancellation - one cancelled application future ends the connection' % (subject, x.func.attr))
    rep.require('C12.n', 'inspections of a future\'s result or exception', n, 2)


def _cancel_tested_before(fnode, call, subject):
    """True when on every way to `call` a test `<x>.cancelled()` of the same future (or of an alias named like the
    subject's last component) came out false."""
    def is_cancel_test(e):
        return any(isinstance(c, ast.Call) and isinstance(c.func, ast.Attribute) and c.func.attr == 'cancelled'
                   for c in ast.walk(e))

    def contains(node):
        return any(y is call for y in ast.walk(node))

    def search(stmts):
        for i, s in enumerate(stmts):
            if not contains(s):
                continue
            if isinstance(s, ast.If):
                if contains(s.test):
                    # the inspection is itself in a test: what precedes it in the chain counts (handled by caller)
                    return False
                if any(contains(b) for b in s.body):
                    neg = isinstance(s.test, ast.UnaryOp) and isinstance(s.test.op, ast.Not) and is_cancel_test(s.test)
                    return neg or search(s.body)
                # in the orelse: this if's own test came out false
                if is_cancel_test(s.test) and not (isinstance(s.test, ast.UnaryOp) and isinstance(s.test.op, ast.Not)):
                    return True
                return search_orelse(s)
            for field in ('body', 'orelse', 'finalbody'):
                sub = getattr(s, field, None)
                if isinstance(sub, list) and any(contains(b) for b in sub if isinstance(b, ast.AST)):
                    return search(sub)
            for h in getattr(s, 'handlers', []) or []:
                if any(contains(b) for b in h.body):
                    return search(h.body)
            # earlier guard clause in the same block: `if x.cancelled(): return`
            for prev in stmts[:i]:
                if isinstance(prev, ast.If) and is_cancel_test(prev.test) and prev.body and \
                        isinstance(prev.body[-1], (ast.Return, ast.Raise, ast.Continue)):
                    return True
            return False
        return False

    def search_orelse(ifnode):
        # elif chain: the call may be in the test or body of a later arm
        for s in ifnode.orelse:
            if isinstance(s, ast.If) and (contains(s.test) or any(contains(b) for b in s.body + s.orelse)):
                if contains(s.test):
                    return True if False else _earlier_cancel(ifnode)
                if any(contains(b) for b in s.body):
                    return _earlier_cancel(ifnode) or search(s.body)
                return _earlier_cancel(ifnode) or (is_cancel_test(s.test) and not isinstance(s.test, ast.UnaryOp)) \
                    or search_orelse(s)
        return _earlier_cancel(ifnode) and any(contains(b) for b in ifnode.orelse)

    def _earlier_cancel(ifnode):
        return is_cancel_test(ifnode.test) and not (isinstance(ifnode.test, ast.UnaryOp) and
                                                    isinstance(ifnode.test.op, ast.Not))

    return search(fnode.body)




def rule_short_fields_fail(ctx):
    """(shared C04.l)  truncated frames are refused, not decoded with invented values (rules/c04.py)."""
    from .c04 import rule_short_fields_fail as r
    r(ctx)



def rule_error_codes_are_members(ctx):
    """C12.o  An error code is a member of ErrorCode wherever one is produced.  The receive loop formats the exception
    it caught inside its `except` clause (RSocketProtocolError.__str__ reads error_code.name and .value), the logger
    and exception_to_error_frame read `.value`: a bare integer there raises AttributeError outside the per-frame
    containment - the receiver task ends without the close sequence and the connection is wedged.  The decoder is the
    place where a peer chooses the number: a code outside the enumeration has to fail *inside* the decoder, where the
    failure becomes the invalid-frame marker.  Every store to an attribute named error_code, and the error-code
    argument of every construction of a library protocol-error class, is ErrorCode(<x>), ErrorCode.<NAME>, another
    object's .error_code, a parameter annotated ErrorCode (or defaulted to a member), or a call of a library function
    all of whose returns are of these forms."""
    rep = ctx.report
    repo = ctx.repo
    from ..astutil import returned_exprs

    def member(f, e, depth=0):
        if isinstance(e, ast.Attribute):
            if e.attr == 'error_code':
                return True
            return isinstance(e.value, ast.Name) and e.value.id == 'ErrorCode'
        if isinstance(e, ast.Call):
            if isinstance(e.func, ast.Name) and e.func.id == 'ErrorCode':
                return True
            if isinstance(e.func, ast.Attribute) and isinstance(e.func.value, ast.Name) and \
                    e.func.value.id == 'ErrorCode' and e.func.attr != 'value':
                return False  # no classmethods on the enumeration are known to return members
            if depth < 2 and isinstance(e.func, ast.Name):
                gs = repo.resolve_name(f.module, e.func.id)
                if isinstance(gs, list) and gs:
                    ok = True
                    for g in gs:
                        rets = list(returned_exprs(g.node))
                        ok = ok and bool(rets) and all(member(g, r, depth + 1) for r in rets)
                    return ok
            return False
        if isinstance(e, ast.IfExp):
            return member(f, e.body, depth) and member(f, e.orelse, depth)
        if isinstance(e, ast.Name):
            a = f.node.args
            allp = a.posonlyargs + a.args + a.kwonlyargs
            for i, x in enumerate(allp):
                if x.arg == e.id:
                    if x.annotation is not None and 'ErrorCode' in ast.unparse(x.annotation) and \
                            'int' not in ast.unparse(x.annotation):
                        return True
                    pos = a.posonlyargs + a.args
                    if x in pos:
                        k = pos.index(x) - (len(pos) - len(a.defaults))
                        if k >= 0 and member(f, a.defaults[k], depth + 1):
                            return True
                    return False
            vals = []
            for n in walk_local(f.node):
                if not isinstance(n, ast.Assign):
                    continue
                for t in n.targets:
                    if isinstance(t, ast.Name) and t.id == e.id:
                        vals.append(n.value)
                    elif isinstance(t, (ast.Tuple, ast.List)):
                        for i, x in enumerate(t.elts):
                            if isinstance(x, ast.Name) and x.id == e.id:
                                same = isinstance(n.value, (ast.Tuple, ast.List)) and len(n.value.elts) == len(t.elts)
                                vals.append(n.value.elts[i] if same else ast.Constant(value=None))
            return bool(vals) and all(member(f, v, depth + 1) for v in vals) and depth < 3
        return False

    base = repo.cls('rsocket.exceptions:RSocketProtocolError')
    if base is None:
        raise AnalysisError('C12.o: RSocketProtocolError vanished')
    coded = {k.name: k for k in repo.all_classes() if k is base or k.is_subclass_of(base)}
    n_store = n_ctor = 0
    bad = []
    for f in repo.all_functions():
        if not f.module.name.startswith('rsocket.') or f.module.name.startswith('rsocket.cli'):
            continue
        for n in walk_local(f.node):
            if isinstance(n, ast.Assign):
                for t in n.targets:
                    if isinstance(t, ast.Attribute) and t.attr == 'error_code':
                        n_store += 1
                        if not member(f, n.value):
                            bad.append((f, n, 'error_code = %s' % ast.unparse(n.value)))
            elif isinstance(n, ast.Call) and isinstance(n.func, ast.Name) and n.func.id in coded:
                k = coded[n.func.id]
                init = k.lookup('__init__')
                if init is None or 'error_code' not in init.params():
                    continue
                idx = [p for p in init.params() if p != 'self'].index('error_code')
                arg = None
                for kw in n.keywords:
                    if kw.arg == 'error_code':
                        arg = kw.value
                if arg is None and idx < len(n.args):
                    arg = n.args[idx]
                if arg is None:
                    continue
                n_ctor += 1
                if not member(f, arg):
                    bad.append((f, n, '%s(%s, ...)' % (n.func.id, ast.unparse(arg))))
    rep.require('C12.o', 'stores to .error_code', n_store, 4)
    rep.require('C12.o', 'constructions of coded exceptions', n_ctor, 5)
    for f, n, what in bad:
        rep.bad('C12.o', '%s / %s' % (f.qualname.split(':')[-1], what), f,
                'line %d: not shown to be a member of ErrorCode: __str__ of the exception, the logger and '
                'exception_to_error_frame read .name / .value of it outside the per-frame containment' % n.lineno)
    if not bad:
        rep.ok('C12.o', 'error codes / members of ErrorCode wherever produced', base,
               '%d stores, %d constructions' % (n_store, n_ctor))




def rule_queue_items(ctx):
    """(C04.m, rules/msgtransports.py)  What a message transport queues for the receive loop comes from the frame
    parser (or is the end-of-connection marker)."""
    from .msgtransports import rule_queue_items_come_from_the_parser
    rule_queue_items_come_from_the_parser(ctx, 'C04.m')




def rule_transport_errors_come_from_transports(ctx):
    """C12.p  The receive loop has two kinds of failure: a transport error ends the connection (it is re-raised past
    the per-frame containment and the close sequence runs), anything else raised while a frame is handled is answered
    with an ERROR on the offending stream.  Which branch an exception takes is decided by its class, so the class
    hierarchy is part of the containment: RSocketTransportError and its subclasses are raised by the transport layer
    only (rsocket.transports.*, wrap_transport_exception, _close_transport) - an exception that the frame-handling code
    raises for what the peer sent (a fragment of another type, an id in use, an unknown frame type) must not be one."""
    rep = ctx.report
    repo = ctx.repo
    base = repo.cls('rsocket.exceptions:RSocketTransportError')
    if base is None:
        raise AnalysisError('C12.p: RSocketTransportError vanished')
    n = 0
    bad = []
    for f in repo.all_functions():
        mod = f.module.name
        if not mod.startswith('rsocket.') or mod.startswith(('rsocket.cli', 'rsocket.transports')):
            continue
        if f.name in ('wrap_transport_exception', '_close_transport'):
            continue
        for r in walk_local(f.node):
            if not isinstance(r, ast.Raise) or r.exc is None:
                continue
            e = r.exc.func if isinstance(r.exc, ast.Call) else r.exc
            if not isinstance(e, ast.Name):
                continue
            k = repo.resolve_name(f.module, e.id)
            if not isinstance(k, ClassInfo):
                continue
            n += 1
            if k is base or k.is_subclass_of(base):
                bad.append((f, r, k))
    rep.require('C12.p', 'explicit raises of library exception classes outside the transports', n, 12)
    for f, r, k in bad:
        rep.bad('C12.p', '%s / raises %s' % (f.short, k.name), f,
                'line %d: %s is a transport error: raised while a frame of the peer is handled it takes the branch of '
                'the receive loop that ends the connection instead of being answered with an ERROR on that stream'
                % (r.lineno, k.name))
    if not bad:
        rep.ok('C12.p', 'exception hierarchy / transport errors are raised by the transport layer only', base,
               '%d raise sites outside the transports, none of a transport error class' % n)




def rule_text_can_be_encoded_again(ctx):
    """C12.q  Text the library decodes from the wire can be put on the wire again.  The text of a received ERROR frame
    travels in the exception the application is handed; when application code fails with it, the receive loop's
    `except` branches turn the failure into an ERROR reply with exception_to_error_frame, which encodes the text strictly
    - outside the per-frame containment.  `bytes.decode(errors='surrogateescape' / 'surrogatepass')` produces lone
    surrogates that `str.encode()` rejects: one ERROR frame with non-UTF-8 data would end the receiver task.  No decode
    in the library uses those error handlers (strict, replace and ignore all give text that encodes)."""
    rep = ctx.report
    n = 0
    bad = []
    for f in ctx.repo.all_functions():
        if not f.module.name.startswith(('rsocket.', 'reactivestreams.')) or f.module.name.startswith('rsocket.cli'):
            continue
        for c in walk_local(f.node):
            if isinstance(c, ast.Call) and isinstance(c.func, ast.Attribute) and c.func.attr == 'decode':
                n += 1
                mode = None
                for kw in c.keywords:
                    if kw.arg == 'errors':
                        mode = kw.value
                if mode is None and len(c.args) > 1:
                    mode = c.args[1]
                if mode is None:
                    continue
                if not isinstance(mode, ast.Constant) or mode.value in ('surrogateescape', 'surrogatepass'):
                    bad.append((f, c, ast.unparse(mode)))
    rep.require('C12.q', 'decode() calls in the library', n, 5)
    for f, c, mode in bad:
        rep.bad('C12.q', '%s / decode(errors=%s)' % (f.short, mode), f,
                'line %d: the decoded text can contain lone surrogates; exception_to_error_frame encodes error text '
                'strictly from inside the receive loop\'s except branch - UnicodeEncodeError there ends the receiver'
                % c.lineno)
    if not bad:
        rep.ok('C12.q', 'decoded text / can be encoded again', ctx.repo.func('rsocket.frame:exception_to_error_frame'),
               '%d decode() calls, none with a surrogate error handler' % n)



RULES = [('C12.a', rule_a), ('C12.b', rule_b), ('C12.c', rule_c), ('C12.d', rule_d), ('C12.e', rule_e),
         ('C12.f', rule_f), ('C14.f', rule_g), ('C12.b', rule_h), ('C13.d', rule_i), ('C12.g', rule_j), ('C12.h', rule_k), ('C12.i', rule_l), ('C12.j', rule_m), ('C12.k', rule_exception_text), ('C12.l', rule_error_conversion), ('C02.h', rule_decoder_entry), ('C12.m', rule_empty_messages), ('C04.j', rule_marker_queues), ('C12.n', rule_future_inspection), ('C04.l', rule_short_fields_fail), ('C12.o', rule_error_codes_are_members), ('C04.m', rule_queue_items), ('C12.p', rule_transport_errors_come_from_transports), ('C12.q', rule_text_can_be_encoded_again)]
