"""C05 Per-stream wire order and fragment contiguity under multiplexing."""
import ast

from .. import AnalysisError
from ..callgraph import callgraph
from ..effects import is_enq_send, is_deq_send, strip_epoch, recv_attr
from ..index import walk_local, ClassInfo
from ..interp import fmt_term
from . import COMMON_ASSUMPTIONS

EXPLANATION = (
    'Decides the structural facts on which per-stream order rests. (a) Displacement of a half-sent source: in the '
    'function that picks the next frame, a re-insertion (the dequeued head put back at the tail) moves the remaining '
    'fragments behind everything queued, which preserves per-stream order only if nothing else of that stream is '
    'queued; so every re-insertion must be control-dependent on a test over the queued items that compares their '
    'stream id with the source\'s stream id and is not narrowed by further conjuncts, must happen on the branch where '
    'that test found none, and no suspension point may lie between the test and the re-insertion (a frame queued '
    'in between would be overtaken). (b) Every other enqueue is a tail insertion; the head insertion re-queues the '
    'drained items in their original order and (with C08.e) carries SETUP only; the queue\'s internal deque is '
    'touched by the queue class alone. (c) No bypass: transports are written to only by the sender, with the value '
    'the picker yielded, and the fragment generator of a source is advanced only by the picker. (e) Queue balance '
    'of the picker: a path that yields a non-final fragment leaves the source queued exactly once, every other path '
    'removes exactly one element. (d) The receiving side is C03.c. Not decided: behaviour for all queue contents and '
    'drain timings beyond these facts.')
EXPLANATION_ADDED = ('(f) the queue class gives the picker what it assumes (peek = element the next get returns, only when not empty; any_other = some other queued element satisfies the predicate); head insertion puts the frame in only after the queue was seen empty and re-queues every drained element; the send helpers put exactly one frame with the stream id given; only the picker dequeues (shared C01.c). (g) only the sender task, fed by the frame picker, awaits transport.send_frame(): no other method of the socket classes writes to the transport past the send queue.')
EXPLANATION = EXPLANATION.replace(' Not decided', ' ' + EXPLANATION_ADDED + ' Not decided', 1) \
    if ' Not decided' in EXPLANATION else EXPLANATION + ' ' + EXPLANATION_ADDED
ASSUMPTIONS = COMMON_ASSUMPTIONS

PICKER = 'rsocket.rsocket_base:RSocketBase._get_next_frame_to_send'


def _picker_paths(ctx):
    f = ctx.repo.func(PICKER)
    return f, ctx.paths(f, ctx.slots.RSocketClient, no_inline={'peek', 'get_next_fragment', 'any_other'},
                        inline_depth=3)


def _lambda_of(call_ev):
    for a in ast.walk(call_ev.node):
        if isinstance(a, ast.Lambda):
            return a
    return None


def _guard_quality(lam: ast.Lambda, sid_names):
    """'exact' (or wider), 'narrowed', 'unrelated' for the predicate a guard call applies to queued items."""
    if lam is None or not lam.args.args:
        return 'unrelated', 'no predicate over queued items'
    q = lam.args.args[0].arg

    def is_sid_eq(n):
        if isinstance(n, ast.Compare) and len(n.ops) == 1 and isinstance(n.ops[0], ast.Eq):
            sides = [n.left, n.comparators[0]]
            a = [s for s in sides if isinstance(s, ast.Attribute) and s.attr == 'stream_id' and
                 isinstance(s.value, ast.Name) and s.value.id == q]
            b = [s for s in sides if s not in a]
            if a and b:
                other = b[0]
                if isinstance(other, ast.Name) and other.id in sid_names:
                    return True
                if isinstance(other, ast.Attribute) and other.attr == 'stream_id':
                    return True
        return False

    body = lam.body
    if is_sid_eq(body):
        return 'exact', ''
    if isinstance(body, ast.BoolOp) and isinstance(body.op, ast.Or) and any(is_sid_eq(v) for v in body.values):
        return 'exact', ''
    if isinstance(body, ast.BoolOp) and isinstance(body.op, ast.And) and any(is_sid_eq(v) for v in body.values):
        extra = [ast.unparse(v) for v in body.values if not is_sid_eq(v)]
        return 'narrowed', 'the same-stream test is narrowed by %s: a queued frame of the same stream that fails ' \
                           'it can overtake the remaining fragments' % extra
    if 'stream_id' in ast.unparse(body):
        return 'narrowed', 'the predicate %s is not a plain same-stream test' % ast.unparse(body)
    return 'unrelated', 'the predicate %s does not look at stream ids' % ast.unparse(body)


def rule_a(ctx, rule='C05.a'):
    rep = ctx.report
    slots = ctx.slots
    f, paths = _picker_paths(ctx)
    reins = 0
    problems = []
    for p in paths:
        for e in p.events:
            if not is_enq_send(e, slots):
                continue
            a = e.data['args'][0] if e.data.get('args') else None
            if a is None:
                continue
            # re-insertion: the argument is the value just dequeued from the same queue
            src = [d for d in p.events if is_deq_send(d, slots) and d.seq < e.seq and
                   d.data['value'].term == a.term]
            if not src:
                continue
            reins += 1
            # names bound to the source's stream id on this path
            sid_names = set()
            for s in p.events:
                if s.kind == 'store' and s.data['target'][0] == 'local' and s.seq < e.seq:
                    t = strip_epoch(s.data['value'].term)
                    if t[0] == 'attr' and t[2] == 'stream_id':
                        sid_names.add(s.data['target'][1])
            guards = [g for g in p.events if g.kind == 'call' and g.seq < src[0].seq and _lambda_of(g) is not None and
                      recv_attr(g) == slots.send_queue_attr]
            if not guards:
                problems.append((e, 'the half-sent source is moved behind everything queued without testing whether '
                                    'another frame of the same stream is queued (the guard reads %s only)' % (
                                        sorted({fmt_term(c.data['key'])[:60] for c in p.events if c.kind == 'cond' and
                                                not c.data.get('static') and c.seq < e.seq}) or 'nothing')))
                continue
            g = guards[-1]
            q, why = _guard_quality(_lambda_of(g), sid_names)
            if q != 'exact':
                problems.append((e, why))
                continue
            # polarity: re-insertion only when the test found no other frame of the stream
            verdict = [c for c in p.events if c.kind == 'cond' and g.seq < c.seq < e.seq and
                       strip_epoch(c.data['key'])[0] == 'truth' and
                       strip_epoch(c.data['key'])[1] == strip_epoch(g.data['value'].term)]
            if not verdict or verdict[-1].data['value'] is not False:
                problems.append((e, 'the source is displaced on the branch where the same-stream test did not come '
                                    'out false'))
                continue
            susp = [x for x in p.events if g.seq < x.seq < e.seq and x.kind in ('await', 'yield')]
            if susp:
                problems.append((e, 'a suspension point (line %s) lies between the same-stream test (line %s) and the '
                                    'displacement (line %s): a frame of that stream queued in between is overtaken by '
                                    'the stale decision' % (susp[0].line, g.line, e.line)))
    c = 'RSocketBase._get_next_frame_to_send / re-insertion'
    if problems:
        e, why = problems[0]
        rep.bad(rule, c, (f.file, e.line), why, extra={'problems': len(problems)})
    else:
        rep.ok(rule, c, f, '%d re-insertion path(s), each decided atomically by an un-narrowed same-stream test' %
               reins if reins else 'a half-sent source is never displaced', nontrivial=True)


def rule_b(ctx):
    rep = ctx.report
    slots = ctx.slots
    # who touches the deque of the send queue
    qp = ctx.repo.cls('rsocket.queue_peekable:QueuePeekable')
    offenders = []
    for fn in ctx.repo.all_functions():
        if not fn.module.name.startswith('rsocket') or fn.module.name.startswith('rsocket.cli'):
            continue
        if fn.cls is not None and (fn.cls is qp or fn.cls.is_subclass_of(qp)):
            continue
        for n in walk_local(fn.node):
            if isinstance(n, ast.Attribute) and n.attr in ('_queue', 'appendleft', '_put', '_get') and \
                    slots.send_queue_attr in ast.unparse(n):
                offenders.append((fn, n))
    rep.add('C05.b', 'send queue / internal deque touched by the queue class only', qp, not offenders,
            'no function outside QueuePeekable reaches into the send queue' if not offenders else
            '%s manipulates the internals of the send queue at line %s' % (offenders[0][0].short,
                                                                          offenders[0][1].lineno))
    # head insertion re-queues the drained items in order
    spf = ctx.repo.func('rsocket.rsocket_base:RSocketBase.send_priority_frame')
    loops = [n for n in walk_local(spf.node) if isinstance(n, ast.For)]
    appends = [n for n in walk_local(spf.node) if isinstance(n, ast.Call) and isinstance(n.func, ast.Attribute) and
               n.func.attr in ('append', 'insert', 'appendleft')]
    ok = len(loops) == 1 and isinstance(loops[0].iter, ast.Name) and all(
        n.func.attr == 'append' and isinstance(n.func.value, ast.Name) and n.func.value.id == loops[0].iter.id
        for n in appends) and bool(appends)
    rep.add('C05.b', 'RSocketBase.send_priority_frame / drained items re-queued in order', spf, ok,
            'items are collected with append() and re-queued by iterating the same list forwards' if ok else
            'the drained items are not re-queued in the order they were taken')
    callers = {c for c, _ in callgraph(ctx).callers(spf)}
    okc = bool(callers) and all(c.name == 'connect' for c in callers)
    rep.add('C05.b', 'RSocketBase.send_priority_frame / used by connect() only', spf, okc,
            'the head insertion is reserved for the SETUP frame queued by connect()' if okc else
            'the head insertion is also used by %s: frames queued through it overtake everything already queued' %
            sorted(c.short for c in callers if c.name != 'connect'))
    from . import plumbing
    plumbing.rule_priority_insert(ctx, 'C05.b')
    plumbing.rule_send_helpers(ctx, 'C05.b')
    # every enqueue site of the send queue outside the picker/priority path is a plain tail insertion
    n_sites = 0
    bad = []
    for fn in slots.RSocketBase.methods.values():
        for n in walk_local(fn.node):
            if isinstance(n, ast.Call) and isinstance(n.func, ast.Attribute) and isinstance(n.func.value, ast.Attribute) \
                    and n.func.value.attr == slots.send_queue_attr:
                if n.func.attr in ('put_nowait', 'put'):
                    n_sites += 1
                elif n.func.attr not in ('get_nowait', 'get', 'empty', 'peek', 'peek_nowait', 'any_other', 'qsize',
                                         'task_done', 'full'):
                    bad.append((fn, n))
    rep.require('C05.b', 'enqueue sites of the send queue', n_sites, 3)
    rep.add('C05.b', 'send queue / only tail insertions', slots.RSocketBase, not bad,
            '%d enqueue sites, all put_nowait at the tail' % n_sites if not bad else
            '%s uses %s on the send queue' % (bad[0][0].short, bad[0][1].func.attr))


def rule_c(ctx):
    rep = ctx.report
    slots = ctx.slots
    cg = callgraph(ctx)
    # transports are written by the sender only
    writers = set()
    n_impl = 0
    for c in [slots.Transport] + ctx.repo.subclasses(slots.Transport):
        sf = c.methods.get('send_frame')
        if sf is None:
            continue
        n_impl += 1
        for caller, node in cg.callers(sf):
            if caller.cls is not None and (caller.cls is c or caller.cls.is_subclass_of(slots.Transport)):
                continue  # a transport delegating to itself
            writers.add(caller)
    rep.require('C05.c', 'transport send_frame implementations', n_impl, 5)
    ok = {w.name for w in writers} == {'_sender'} and all(w.cls is slots.RSocketBase for w in writers)
    rep.add('C05.c', 'Transport.send_frame / called by the sender only', slots.RSocketBase.methods['_sender'], ok,
            'the only caller of a transport\'s send_frame is RSocketBase._sender' if ok else
            'send_frame of a transport is also called from %s' % sorted(w.short for w in writers
                                                                        if w.name != '_sender'))
    # what the sender writes is what the picker yielded
    s = slots.RSocketBase.methods['_sender']
    paths = ctx.paths(s, slots.RSocketClient, inline_depth=2,
                      no_inline={'_before_sender', '_finally_sender', 'is_server_alive', '_current_transport',
                                 '_log_identifier', 'peek', 'get_next_fragment', 'any_other', '_fail_sent_future'})
    ok = True
    n = 0
    for p in paths:
        ys = [e for e in p.events if e.kind == 'yield' and e.func.name == '_get_next_frame_to_send']
        sends = [e for e in p.events if e.kind == 'call' and e.data.get('name') == 'send_frame' and
                 e.func.name == '_sender']
        for sd in sends:
            n += 1
            prev = [y for y in ys if y.seq < sd.seq]
            if not prev or not sd.data.get('args') or sd.data['args'][0].term != prev[-1].data['value'].term:
                ok = False
    if n == 0:
        raise AnalysisError('C05.c: the sender never writes a frame')
    rep.add('C05.c', 'RSocketBase._sender / writes the yielded frame', s, ok,
            'the frame written is the value yielded by the picker on all %d write paths' % n if ok else
            'the sender writes something other than the frame the picker yielded')
    # fragment generators are advanced by the picker only
    gnf = ctx.repo.func('rsocket.frame:FrameFragmentMixin.get_next_fragment')
    callers = {c for c, _ in cg.callers(gnf)}
    ok = {c.qualname for c in callers} <= {ctx.repo.func(PICKER).qualname}
    rep.add('C05.c', 'FrameFragmentMixin.get_next_fragment / advanced by the picker only', gnf, ok and bool(callers),
            'fragments are produced only where the send order is decided' if ok and callers else
            'the fragment generator is also advanced from %s' % sorted(c.short for c in callers))


def rule_e(ctx):
    rep = ctx.report
    slots = ctx.slots
    f, paths = _picker_paths(ctx)
    ok = True
    detail = ''
    n = 0
    for p in paths:
        if p.outcome != 'return':
            continue
        ys = [e for e in p.events if e.kind == 'yield']
        if len(ys) != 1:
            ok, detail = False, 'a path yields %d frames' % len(ys)
            continue
        n += 1
        deq = len([e for e in p.events if is_deq_send(e, slots)])
        enq = len([e for e in p.events if is_enq_send(e, slots)])
        follows = None
        for c in p.events:
            if c.kind == 'cond' and 'flags_follows' in repr(c.data['key']):
                follows = c.data['value']
        net = deq - enq
        if follows is True:
            if net != 0:
                ok, detail = False, 'after a non-final fragment the source is %s' % (
                    'removed from the queue: its remaining fragments are never sent' if net > 0 else
                    'queued %d times' % (1 - net))
        else:
            if net != 1:
                ok, detail = False, 'after the last fragment / an unfragmented frame the queue loses %d elements ' \
                                    '(expected exactly 1)' % net
    if n == 0:
        raise AnalysisError('C05.e: the picker has no yielding path')
    rep.add('C05.e', 'RSocketBase._get_next_frame_to_send / queue balance', f, ok,
            detail or 'non-final fragment: source stays queued once; otherwise exactly one element removed '
                      '(%d paths)' % n)
    # the yielded value of a fragmentable source is the result of get_next_fragment on the peeked source
    ok = True
    for p in paths:
        if p.outcome != 'return':
            continue
        ys = [e for e in p.events if e.kind == 'yield']
        frag = [e for e in p.events if e.kind == 'call' and e.data.get('name') == 'get_next_fragment']
        isfrag = [c for c in p.events if c.kind == 'cond' and 'FrameFragmentMixin' in repr(c.data['key'])]
        if isfrag and isfrag[0].data['value'] is True:
            if not frag or ys[0].data['value'].term != frag[0].data['value'].term:
                ok = False
        elif isfrag:
            peek = [e for e in p.events if e.kind == 'call' and e.data.get('name') in ('peek', 'peek_nowait')]
            if not peek or strip_epoch(ys[0].data['value'].term) != strip_epoch(('awaited', peek[0].data['value'].term)) \
                    and ys[0].data['value'].term != peek[0].data['value'].term:
                ok = False
    rep.add('C05.e', 'RSocketBase._get_next_frame_to_send / yields the head (or its next fragment)', f, ok,
            'a fragmentable head yields its next fragment, any other head is yielded itself' if ok else
            'the picker yields something other than the head of the queue / its next fragment')


def _search_shape(fn):
    """(iterated expr, set of normalised conjuncts, loop variable) of a function that answers "does any element of X
    satisfy C" either as `return any(C for v in X)` or as an explicit loop returning True / False; None otherwise."""
    from ..astutil import resolve_temp

    def noise(n):
        if isinstance(n, ast.Expr) and isinstance(n.value, ast.Constant):
            return True
        if isinstance(n, ast.Expr) and isinstance(n.value, ast.Call):
            t = ast.unparse(n.value.func)
            if all(isinstance(a, ast.Constant) for a in n.value.args) and t in ('len', 'print', 'repr', 'str'):
                return True
            return t.startswith(('logger()', 'logging.', 'log.', 'print'))
        return False

    body = [n for n in fn.node.body if not noise(n)]
    # `tmp = <expr>; return tmp`
    if len(body) == 2 and isinstance(body[0], ast.Assign) and isinstance(body[1], ast.Return) and \
            isinstance(body[1].value, ast.Name) and len(body[0].targets) == 1 and \
            isinstance(body[0].targets[0], ast.Name) and body[0].targets[0].id == body[1].value.id:
        body = [ast.Return(value=body[0].value)]

    def conj(e, neg=False):
        if isinstance(e, ast.BoolOp) and isinstance(e.op, ast.And) and not neg:
            out = set()
            for v in e.values:
                c = conj(v)
                if c is None:
                    return None
                out |= c
            return out
        if isinstance(e, ast.UnaryOp) and isinstance(e.op, ast.Not):
            inner = e.operand
            if isinstance(inner, ast.Compare) and len(inner.ops) == 1 and isinstance(inner.ops[0], ast.Is):
                return {'isnot:' + '|'.join(sorted([ast.unparse(inner.left), ast.unparse(inner.comparators[0])]))}
            return {'not:' + ast.unparse(inner)}
        if isinstance(e, ast.Compare) and len(e.ops) == 1 and isinstance(e.ops[0], (ast.IsNot, ast.Is)):
            tag = 'isnot:' if isinstance(e.ops[0], ast.IsNot) else 'is:'
            return {tag + '|'.join(sorted([ast.unparse(e.left), ast.unparse(e.comparators[0])]))}
        return {'expr:' + ast.unparse(e)}

    if len(body) == 1 and isinstance(body[0], ast.Return) and isinstance(body[0].value, ast.Call) and \
            isinstance(body[0].value.func, ast.Name) and body[0].value.func.id == 'any' and \
            len(body[0].value.args) == 1 and isinstance(body[0].value.args[0], (ast.GeneratorExp, ast.ListComp)):
        g = body[0].value.args[0]
        if len(g.generators) != 1 or not isinstance(g.generators[0].target, ast.Name):
            return None
        gen = g.generators[0]
        c = conj(g.elt)
        for cond in gen.ifs:
            c2 = conj(cond)
            if c is None or c2 is None:
                return None
            c |= c2
        if c is not None and 'expr:True' in c and gen.ifs:
            c.discard('expr:True')
        return ast.unparse(gen.iter), c, gen.target.id
    if len(body) == 2 and isinstance(body[0], ast.For) and isinstance(body[0].target, ast.Name) and \
            not body[0].orelse and isinstance(body[1], ast.Return) and isinstance(body[1].value, ast.Constant) and \
            body[1].value.value is False and len(body[0].body) == 1 and isinstance(body[0].body[0], ast.If) and \
            not body[0].body[0].orelse and len(body[0].body[0].body) == 1 and \
            isinstance(body[0].body[0].body[0], ast.Return) and \
            isinstance(body[0].body[0].body[0].value, ast.Constant) and body[0].body[0].body[0].value.value is True:
        return ast.unparse(body[0].iter), conj(body[0].body[0].test), body[0].target.id
    return None


def rule_f(ctx):
    """The queue class gives the picker what it assumes: peek = the element the next get returns; any_other = some
    queued element other than the given one satisfies the predicate."""
    rep = ctx.report
    qp = ctx.repo.cls('rsocket.queue_peekable:QueuePeekable')
    pn = qp.lookup('peek_nowait')
    pk = qp.lookup('peek')
    ao = qp.lookup('any_other')
    if pn is None or pk is None or ao is None:
        raise AnalysisError('C05.f: QueuePeekable.peek / peek_nowait / any_other vanished')
    # peek_nowait: empty -> raises; otherwise returns self._queue[0] (asyncio.Queue._get is self._queue.popleft())
    ps = ctx.paths(pn, qp, inline_depth=0)
    ok = bool(ps)
    why = ''
    n_ret = 0
    for p in ps:
        emp = [e for e in p.events if e.kind == 'cond' and e.data['key'][0] == 'truth' and
               'empty' in repr(e.data['key'])]
        if p.outcome == 'return':
            n_ret += 1
            t = strip_epoch(p.value.term)
            head = t[0] == 'item' and strip_epoch(t[1]) == ('attr', ('self',), '_queue') and \
                strip_epoch(t[2]) == ('const', 0)
            if not head:
                ok, why = False, 'peek_nowait returns %s, not self._queue[0]' % fmt_term(t)
            if not emp or emp[-1].data['value'] is not False:
                ok, why = False, 'peek_nowait reads the head without the queue being known non-empty'
        elif p.outcome == 'raise':
            if not emp or emp[-1].data['value'] is not True:
                ok, why = False, 'peek_nowait raises although the queue is not empty'
    rep.add('C05.f', 'QueuePeekable.peek_nowait / returns the element the next get returns', pn, ok and n_ret > 0,
            why or 'self._queue[0] when not empty, QueueEmpty otherwise')
    # peek: waits while empty, then peek_nowait()
    ps = ctx.paths(pk, qp, inline_depth=0, no_inline={'peek_nowait'})
    ok = True
    why = ''
    n_ret = 0
    for p in ps:
        if p.outcome != 'return':
            continue
        n_ret += 1
        emp = [e for e in p.events if e.kind == 'cond' and e.data['key'][0] == 'truth' and
               'empty' in repr(e.data['key'])]
        calls = [e for e in p.events if e.kind == 'call' and e.data.get('name') == 'peek_nowait']
        if not emp or emp[-1].data['value'] is not False:
            ok, why = False, 'peek can return while the queue is empty'
        if len(calls) != 1 or strip_epoch(p.value.term) != strip_epoch(calls[0].data['value'].term):
            ok, why = False, 'peek does not return peek_nowait()'
    rep.add('C05.f', 'QueuePeekable.peek / waits while empty, then the head', pk, ok and n_ret > 0,
            why or 'returns peek_nowait() only after empty() was False (%d paths)' % n_ret)
    # any_other
    shape = _search_shape(ao)
    params = ao.params()
    ok = False
    why = 'any_other is not a search over self._queue for an element other than the given one satisfying the predicate'
    if shape is not None and len(params) == 3:
        it, conjuncts, var = shape
        want = {'isnot:' + '|'.join(sorted([var, params[1]])), 'expr:%s(%s)' % (params[2], var)}
        if it == 'self._queue' and conjuncts == want:
            ok = True
        elif it != 'self._queue':
            why = 'any_other searches %s, not the queued elements' % it
        else:
            why = 'any_other tests %s instead of "other is not item and predicate(other)"' % sorted(conjuncts or [])
    rep.add('C05.f', 'QueuePeekable.any_other / some other queued element satisfies the predicate', ao, ok,
            'any(other is not item and predicate(other) for other in self._queue)' if ok else why)


def rule_d(ctx):
    from .c03 import rule_c as c03c
    c03c(ctx)


def rule_g(ctx):
    """Only the frame picker takes frames out of the send queue (shared C01.c): a second consumer - a purge on cancel,
    say - can remove a fragment source whose first fragments are already on the wire."""
    from .c01 import rule_c as c01c
    c01c(ctx)


def rule_single_writer(ctx):
    """Only the sender task writes to the transport: every frame goes through the send queue, which is what makes
    "queued order = wire order" and "nothing of a stream between the fragments of its frame" decidable at the picker.
    An `await transport.send_frame(...)` anywhere else in the socket classes - an error reply written straight from
    the receive loop, say - overtakes what is queued and can land between two fragments."""
    rep = ctx.report
    slots = ctx.slots
    writers = []
    n_methods = 0
    for k in (slots.RSocketBase, slots.RSocketClient, slots.RSocketServer):
        for name, m in k.methods.items():
            n_methods += 1
            for n in walk_local(m.node):
                if isinstance(n, ast.Await) and isinstance(n.value, ast.Call) and \
                        isinstance(n.value.func, ast.Attribute) and n.value.func.attr == 'send_frame' and \
                        not (isinstance(n.value.func.value, ast.Name) and n.value.func.value.id == 'self'):
                    writers.append((k, m, n))
    if not writers:
        raise AnalysisError('C05.g: nothing in the socket classes writes to the transport')
    # the sender: the coroutine that takes frames from the picker
    senders = {m.qualname for k, m, n in writers
               if any(isinstance(c, ast.Call) and isinstance(c.func, ast.Attribute) and
                      c.func.attr == '_get_next_frame_to_send' for c in ast.walk(m.node))}
    if len(senders) != 1:
        raise AnalysisError('C05.g: %d coroutines both pick frames and write them' % len(senders))
    others = [(k, m, n) for k, m, n in writers if m.qualname not in senders]
    rep.add('C05.g', 'socket classes / only the sender task writes to the transport', writers[0][1], not others,
            'the only awaited transport.send_frame() is in %s, fed by the frame picker (%d methods scanned)' % (
                sorted(senders)[0].split(':')[-1], n_methods) if not others else
            '%s (line %d) writes a frame straight to the transport, past the send queue and the sender: it overtakes '
            'queued frames of its stream and can land between the fragments of one' % (
                others[0][1].short, others[0][2].lineno))



def rule_builders_fresh(ctx):
    """C05.h  Every frame builder hands out a frame object of its own: frames wait in the send queue as objects and are
    serialised later, so a shared frame goes out with the fields of the last call (rules/plumbing.py)."""
    from .plumbing import rule_builders_fresh as rb
    rb(ctx, 'C05.h')



def rule_tcp_writer(ctx):
    """(shared C02.e)  Wire order is queue order also inside the transport: TransportTCP.send_frame writes the frame it is
    given - prefix, header, metadata, data - to the StreamWriter completely before it returns; a transport that keeps
    small frames in a buffer of its own lets a later large frame overtake them (rules/c02.py)."""
    from .c02 import rule_tcp_writer as r
    r(ctx)



def rule_every_dequeued_frame_is_written(ctx):
    """C05.i  What the sender takes from the queue it writes.  _get_next_frame_to_send hands out the next frame *or the
    next fragment* of the source at the head of the queue; the fragments of one frame are separate hand-outs, and only
    the last one carries the sent-future.  A sender that skips a hand-out on some condition of the frame (its future
    was cancelled, say) writes a fragment sequence that starts and never ends - the peer keeps the partial frame and
    every later frame of the stream is glued to it.  In `_sender`, inside the `async with
    self._get_next_frame_to_send(...) as frame` block, `await transport.send_frame(frame)` is reached unconditionally:
    nothing before it can leave the block, and it is not nested in a test (a `try` around it is fine)."""
    rep = ctx.report
    s = ctx.repo.func('rsocket.rsocket_base:RSocketBase._sender')
    if s is None:
        raise AnalysisError('C05.i: RSocketBase._sender vanished')
    blocks = []
    for n in walk_local(s.node):
        if isinstance(n, ast.AsyncWith):
            for it in n.items:
                c = it.context_expr
                if isinstance(c, ast.Call) and isinstance(c.func, ast.Attribute) and \
                        c.func.attr == '_get_next_frame_to_send' and isinstance(it.optional_vars, ast.Name):
                    blocks.append((n, it.optional_vars.id))
    if len(blocks) != 1:
        raise AnalysisError('C05.i: %d hand-out blocks in _sender' % len(blocks))
    blk, var = blocks[0]

    def is_send(x):
        return isinstance(x, ast.Call) and isinstance(x.func, ast.Attribute) and x.func.attr == 'send_frame' and \
            len(x.args) == 1 and isinstance(x.args[0], ast.Name) and x.args[0].id == var

    def leaves(st):
        return [x for x in ast.walk(st) if isinstance(x, (ast.Continue, ast.Break, ast.Return, ast.Raise))]

    def reach(stmts):
        """-> (found, why-not)"""
        for st in stmts:
            has = any(is_send(x) for x in ast.walk(st))
            if not has:
                out = leaves(st)
                if out:
                    return False, ('line %d: the block can be left before the write (%s): the hand-out - possibly one '
                                   'fragment of a frame whose other fragments are written - is dropped'
                                   % (out[0].lineno, type(out[0]).__name__.lower()))
                continue
            if isinstance(st, ast.Expr) and isinstance(st.value, ast.Await) and is_send(st.value.value):
                return True, ''
            if isinstance(st, ast.Try):
                return reach(st.body)
            if isinstance(st, (ast.With, ast.AsyncWith)):
                return reach(st.body)
            return False, 'line %d: the write is conditional (%s)' % (st.lineno, type(st).__name__)
        return False, 'the hand-out is never passed to transport.send_frame'

    ok, why = reach(blk.body)
    rep.add('C05.i', 'RSocketBase._sender / every hand-out of the queue is written', s, ok,
            why or 'await transport.send_frame(%s) is reached unconditionally inside the hand-out block' % var)



RULES = [('C05.a', rule_a), ('C05.b', rule_b), ('C05.c', rule_c), ('C05.e', rule_e), ('C05.f', rule_f),
         ('C01.c', rule_g), ('C05.g', rule_single_writer), ('C05.h', rule_builders_fresh), ('C02.e', rule_tcp_writer), ('C05.i', rule_every_dequeued_frame_is_written)]
