"""C20 Rx/ReactiveX adapters are transparent."""
import ast

from .. import AnalysisError
from ..effects import strip_epoch
from ..index import walk_local, ClassInfo
from ..interp import fmt_term, const, AVal
from . import COMMON_ASSUMPTIONS
from .c06 import rule_a as c06a, rule_b as c06b

EXPLANATION = (
    'Every rule is evaluated on both adapter packages (rx_support for Rx 3, reactivex for ReactiveX 4). Decides: '
    '(a) delegation - every RequestHandler method of a handler adapter calls, on all paths, the delegate\'s method of '
    'the same name with its own arguments and never itself; the client adapters call the wrapped socket\'s method of '
    'the same name; the subscriber adapter maps on_next/on_error/on_completed to on_next/on_error/on_complete; '
    '(b) the request limit given to the client adapters reaches both the initial request-n and the re-request size '
    '(shared with C06.a); (c) elements of a handler observable are produced only inside the credited loop, at most '
    'one per unit of credit, and a back-pressure-aware factory receives exactly the credited amounts (shared with '
    'C06.a/b); (d) disposing the result observable cancels both helper tasks, and the cancelled subscription task '
    'cancels the RSocket subscription unless the stream already terminated; terminal signals of the stream mark it '
    'done; (e) the channel handler adapter wires the observable to a publisher and the observer to a subscriber with '
    'the channel\'s limit. Not decided: element-for-element equivalence with the core API.')
EXPLANATION_ADDED = ("(g) the observable-to-publisher feeders turn every notification into its signal once (OnNext/OnError/OnCompleted, generator values, end and failure), credit published on the feedback subject reaches the feeder's queue and its completion cancels the feeder, the publisher wrapper subscribes the subscriber through its adapter and forwards request/cancel; the request is sent from inside the task whose cancellation sends CANCEL; batch counting of the Rx subscribers (C06.a). No call of a library coroutine function is dropped as a statement or returned un-awaited from another coroutine function (C15.d): the call-backs the library awaits - keepalive timeout included - reach the application through the handler adapters. (i) credit enters the feedback Subject of an observable-backed publisher from request(n) only, carrying the requester's n. (j) each request-response served through a handler adapter gets a future of its own: the to_future() operator (which allocates its Future on creation) is created inside request_response, not kept on the adapter. (k) no function that builds and returns an object of a library class (publisher, subscriber, adapter) carries a memoising decorator: each interaction gets an object of its own.")
EXPLANATION = EXPLANATION.replace(' Not decided', ' ' + EXPLANATION_ADDED + ' Not decided', 1) \
    if ' Not decided' in EXPLANATION else EXPLANATION + ' ' + EXPLANATION_ADDED
ASSUMPTIONS = COMMON_ASSUMPTIONS

PKGS = ('reactivex', 'rx_support')
HANDLER_ADAPTERS = {'reactivex': 'rsocket.reactivex.reactivex_handler_adapter:ReactivexHandlerAdapter',
                    'rx_support': 'rsocket.rx_support.rx_handler_adapter:RxHandlerAdapter'}
CLIENTS = {'reactivex': 'rsocket.reactivex.reactivex_client:ReactiveXClient',
           'rx_support': 'rsocket.rx_support.rx_rsocket:RxRSocket'}


def _delegate_calls(f, attr):
    """Calls self.<attr>.<m>(...) in f: [(method name, call node)]; and self-calls [(name, node)]."""
    dele = []
    selfc = []
    for n in walk_local(f.node):
        if isinstance(n, ast.Call) and isinstance(n.func, ast.Attribute):
            v = n.func.value
            if isinstance(v, ast.Attribute) and isinstance(v.value, ast.Name) and v.value.id == 'self' and \
                    v.attr == attr:
                dele.append((n.func.attr, n))
            if isinstance(v, ast.Name) and v.id == 'self':
                selfc.append((n.func.attr, n))
    return dele, selfc



def _swallowing_try(fn_node, call):
    """The innermost enclosing `try` of `call` inside fn_node whose handlers can end without re-raising, or None."""
    parents = {}
    for x in ast.walk(fn_node):
        for ch in ast.iter_child_nodes(x):
            parents[ch] = x
    x = call
    while x in parents:
        p = parents[x]
        if isinstance(p, ast.Try) and any(x is b or x in list(ast.walk(b)) for b in p.body):
            for h in p.handlers:
                names = ast.unparse(h.type) if h.type is not None else 'BaseException'
                broad = any(w in names for w in ('Exception', 'BaseException'))
                reraises = any(isinstance(y, ast.Raise) for y in ast.walk(ast.Module(body=h.body, type_ignores=[])))
                if broad and not reraises:
                    return p
        x = p
    return None


def _helper_forward(c, f, name):
    """(helper FuncInfo, the helper's call of its call-back parameter, the call site in f) when f hands
    self.delegate.<name> and its own parameters, in order, to a method of c that calls what it is given with the
    remaining arguments; else None."""
    own = f.params()[1:]
    for n in walk_local(f.node):
        if not (isinstance(n, ast.Call) and isinstance(n.func, ast.Attribute) and isinstance(n.func.value, ast.Name) and
                n.func.value.id == 'self' and n.args):
            continue
        a0 = n.args[0]
        if not (isinstance(a0, ast.Attribute) and a0.attr == name and isinstance(a0.value, ast.Attribute) and
                a0.value.attr == 'delegate' and isinstance(a0.value.value, ast.Name) and a0.value.value.id == 'self'):
            continue
        rest = [x.id if isinstance(x, ast.Name) else None for x in n.args[1:]]
        if rest != own[:len(rest)] or len(rest) < len(own) - len(f.node.args.defaults):
            continue
        h = c.lookup(n.func.attr)
        if h is None or len(h.params()) < 2 or h.node.args.vararg is None:
            continue
        cb, star = h.params()[1], h.node.args.vararg.arg
        for x in walk_local(h.node):
            if isinstance(x, ast.Call) and isinstance(x.func, ast.Name) and x.func.id == cb and len(x.args) == 1 and \
                    isinstance(x.args[0], ast.Starred) and isinstance(x.args[0].value, ast.Name) and \
                    x.args[0].value.id == star:
                return h, x, n
    return None


def _forwarded_through_helper(c, f, name):
    return _helper_forward(c, f, name) is not None


def rule_delegations_propagate(ctx):
    """C20.p  The adapters are transparent to failures of the delegate: what a delegate method raises reaches the
    caller of the adapter's method.  The core reacts to those exceptions - on_setup raising is the rejection of the
    SETUP (ERROR[REJECTED_SETUP] on stream 0), a request method raising becomes the ERROR frame of that stream; an
    adapter that catches and logs them accepts every connection and answers nothing.  In each of the ten
    RequestHandler methods of both handler adapters the call of the delegate's method - direct, or through a helper
    of the class that calls what it is handed - is not inside a `try` whose handler for Exception / BaseException can
    end without re-raising."""
    rep = ctx.report
    rh = ctx.repo.cls('rsocket.request_handler:RequestHandler')
    abstract = [n for n, f in rh.methods.items() if any('abstractmethod' in d for d in f.decorators)]
    n = 0
    for pkg in PKGS:
        c = ctx.repo.cls(HANDLER_ADAPTERS[pkg])
        for name in sorted(abstract):
            f = c.methods.get(name)
            if f is None:
                continue
            sites = []
            for x in walk_local(f.node):
                if isinstance(x, ast.Call) and isinstance(x.func, ast.Attribute) and x.func.attr == name and \
                        isinstance(x.func.value, ast.Attribute) and x.func.value.attr == 'delegate':
                    sites.append((f, x))
            hf = _helper_forward(c, f, name)
            if hf is not None:
                sites.append((hf[0], hf[1]))
                sites.append((f, hf[2]))
            if not sites:
                continue  # C20.a reports a method that does not delegate
            n += 1
            bad = None
            for g, call in sites:
                t = _swallowing_try(g.node, call)
                if t is not None:
                    bad = (g, t)
            rep.add('C20.p', '%s.%s / a failure of the delegate reaches the caller' % (c.name, name), f, bad is None,
                    'the delegate is called outside any handler that swallows' if bad is None else
                    'line %d (%s): the delegate\'s exception is caught and not re-raised%s' % (
                        bad[1].lineno, bad[0].short,
                        ' - an on_setup that rejects the SETUP is taken for an acceptance' if name == 'on_setup' else
                        ' - the core never learns that the call failed'))
    rep.require('C20.p', 'adapter delegations', n, 18)



def rule_a(ctx):
    rep = ctx.report
    rh = ctx.repo.cls('rsocket.request_handler:RequestHandler')
    abstract = [n for n, f in rh.methods.items() if any('abstractmethod' in d for d in f.decorators)]
    rep.require('C20.a', 'RequestHandler interface methods', len(abstract), 10)
    for pkg in PKGS:
        c = ctx.repo.cls(HANDLER_ADAPTERS[pkg])
        for name in sorted(abstract):
            f = c.methods.get(name)
            if f is None:
                rep.bad('C20.a', '%s.%s / delegates to the same-named method' % (c.name, name), c,
                        'the adapter does not implement %s: the delegate never sees it' % name)
                continue
            paths = ctx.paths(f, c, inline_depth=1)
            ok = True
            detail = ''
            for p in paths:
                if p.outcome == 'cut':
                    continue
                calls = [e for e in p.events if e.kind == 'call' and e.data.get('recv') is not None and
                         strip_epoch(e.data['recv'].term) == ('attr', ('self',), 'delegate')]
                same = [e for e in calls if e.data.get('name') == name]
                selfcalls = [e for e in p.events if e.kind == 'call' and e.data.get('name') == name and
                             e.data.get('recv') is not None and e.data['recv'].term == ('self',)]
                if selfcalls:
                    ok, detail = False, 'the adapter calls its own %s (unbounded recursion), not the delegate\'s' % name
                elif not same and _forwarded_through_helper(c, f, name):
                    pass  # self.<helper>(self.delegate.<name>, <own arguments>), the helper calling what it is given
                elif not same:
                    others = sorted({e.data.get('name') for e in calls})
                    ok, detail = False, 'a path through %s does not call delegate.%s%s' % (
                        name, name, (' (calls delegate.%s instead)' % others[0]) if others else '')
                else:
                    # arguments are the adapter's own parameters, in order
                    params = [('param', f.qualname, pn) for pn in f.params()[1:]]
                    got = [strip_epoch(a.term) for a in same[0].data.get('args') or []]
                    if got != params[:len(got)] or len(got) < len([pn for pn in f.params()[1:]
                                                                   if f.node.args.defaults == [] or True]) - len(
                            f.node.args.defaults):
                        ok, detail = False, 'delegate.%s is called with %s, not with the adapter\'s own arguments' % (
                            name, [fmt_term(g) for g in got])
            rep.add('C20.a', '%s.%s / delegates to the same-named method' % (c.name, name), f, ok,
                    detail or 'delegate.%s(<own arguments>) on all %d paths' % (name, len(paths)))
    # client adapters: same-named method of the wrapped socket
    for pkg in PKGS:
        c = ctx.repo.cls(CLIENTS[pkg])
        for name in ('request_stream', 'request_response', 'request_channel', 'fire_and_forget', 'metadata_push',
                     'connect', 'close'):
            f = c.methods.get(name)
            if f is None:
                rep.bad('C20.a', '%s.%s / calls the wrapped socket' % (c.name, name), c, 'method missing')
                continue
            dele, _ = _delegate_calls(f, '_rsocket')
            ok = len(dele) == 1 and dele[0][0] == name
            first_ok = True
            if ok and f.params()[1:]:
                a = dele[0][1].args
                first_ok = bool(a) and isinstance(a[0], ast.Name) and a[0].id == f.params()[1]
            rep.add('C20.a', '%s.%s / calls the wrapped socket' % (c.name, name), f, ok and first_ok,
                    'self._rsocket.%s(<request>)' % name if ok and first_ok else
                    'does not call exactly self._rsocket.%s with the caller\'s request (%s)' % (
                        name, [d[0] for d in dele]))
    # subscriber adapters
    want = {'on_next': 'on_next', 'on_error': 'on_error', 'on_completed': 'on_complete'}
    for pkg in PKGS:
        c = ctx.repo.cls('rsocket.%s.subscriber_adapter:SubscriberAdapter' % pkg)
        for src, dst in want.items():
            f = c.methods.get(src)
            dele, _ = _delegate_calls(f, '_subscriber') if f is not None else ([], [])
            ok = f is not None and len(dele) == 1 and dele[0][0] == dst
            if ok and f.params()[1:]:
                a = dele[0][1].args
                ok = len(a) == 1 and isinstance(a[0], ast.Name) and a[0].id == f.params()[1]
            rep.add('C20.a', '%s SubscriberAdapter.%s -> subscriber.%s' % (pkg, src, dst), f or c, ok,
                    'forwards to subscriber.%s' % dst if ok else 'does not forward to subscriber.%s' % dst)


def rule_d(ctx):
    rep = ctx.report
    for pkg in PKGS:
        m = ctx.repo.module('rsocket.%s.from_rsocket_publisher' % pkg)
        frp = m.functions['from_rsocket_publisher'][-1]
        onsub = frp.children.get('on_subscribe')
        if onsub is None:
            raise AnalysisError('C20.d: %s from_rsocket_publisher.on_subscribe vanished' % pkg)
        tasks = [n.targets[0].id for n in walk_local(onsub.node) if isinstance(n, ast.Assign) and
                 isinstance(n.value, ast.Call) and 'create_task' in ast.unparse(n.value.func) and
                 isinstance(n.targets[0], ast.Name)]
        # what the returned disposable does when it is disposed: Disposable(<action>) with the action a nested
        # function, a lambda or a bound method such as task.cancel
        from ..astutil import returned_exprs
        actions = []
        for v in returned_exprs(onsub.node):
            if isinstance(v, ast.Call) and 'Disposable' in ast.unparse(v.func) and v.args:
                actions.append(v.args[0])
        cancelled = set()
        where = onsub
        for a in actions:
            if isinstance(a, ast.Name) and a.id in onsub.children:
                where = onsub.children[a.id]
                body = where.node
            elif isinstance(a, ast.Lambda):
                body = a.body
            elif isinstance(a, ast.Attribute) and a.attr == 'cancel' and isinstance(a.value, ast.Name):
                cancelled.add(a.value.id)
                continue
            else:
                continue
            for n in ast.walk(body):
                if isinstance(n, ast.Call) and isinstance(n.func, ast.Attribute) and n.func.attr == 'cancel' and \
                        isinstance(n.func.value, ast.Name):
                    cancelled.add(n.func.value.id)
        rep.add('C20.d', '%s from_rsocket_publisher / the disposable returned runs dispose' % pkg, onsub,
                len(actions) == 1,
                'on_subscribe returns Disposable(<action>)' if len(actions) == 1 else
                'the subscription function does not return one disposable bound to an action')
        ok = len(tasks) >= 2 and set(tasks) <= cancelled
        rep.add('C20.d', '%s from_rsocket_publisher / dispose cancels both helper tasks' % pkg, where, ok,
                'tasks %s are cancelled by dispose()' % sorted(tasks) if ok else
                'disposing does not itself cancel %s: a task left running until a later call-back can still send '
                'REQUEST_N after the CANCEL' % sorted(set(tasks) - cancelled))
        # the subscription task: on cancellation, cancel the RSocket subscription unless the stream is done
        aio = m.functions['_aio_sub'][-1]
        paths = ctx.paths(aio, None, exc=('cancel',), inline_depth=1)
        ok = True
        n_cancel = 0
        detail = ''
        for p in paths:
            cancelled_ = [e for e in p.events if e.kind == 'raise' and e.data.get('implicit') == 'cancel']
            if not cancelled_:
                continue
            n_cancel += 1
            if p.outcome == 'raise':
                continue  # propagating the cancellation is also fine for the task itself
            done = [c for c in p.events if c.kind == 'cond' and 'is_set' in repr(c.data['key']) and
                    c.seq > cancelled_[0].seq]
            sub_cancel = [e for e in p.events if e.kind == 'call' and e.data.get('name') == 'cancel' and
                          'subscription' in repr(e.data['recv'].term) and e.seq > cancelled_[0].seq]
            if not done:
                ok, detail = False, 'a cancelled subscription task does not look at whether the stream is done'
            elif done[0].data['value'] is False and not sub_cancel:
                ok, detail = False, 'disposing while the stream is still open does not cancel the RSocket subscription'
            elif done[0].data['value'] is True and sub_cancel:
                ok, detail = False, 'the RSocket subscription is cancelled although the stream already terminated'
        rep.add('C20.d', '%s _aio_sub / cancellation cancels the stream unless done' % pkg, aio, ok and n_cancel > 0,
                detail or 'on cancellation: subscription.cancel() exactly when the done event is not set')
        # the request is sent from inside the guarded region of that task: a dispose that arrives before the task has
        # run cancels it without running its body, and then nothing may have been sent yet
        sites = []
        for fn in ctx.repo.all_functions():
            if fn.module is not m:
                continue
            for node in walk_local(fn.node):
                if isinstance(node, ast.Call) and isinstance(node.func, ast.Attribute) and \
                        node.func.attr == 'subscribe' and isinstance(node.func.value, ast.Name) and \
                        node.func.value.id == 'publisher':
                    sites.append((fn, node))
        oks = bool(sites)
        why = 'the adapter never subscribes to the RSocket publisher' if not sites else ''
        for fn, node in sites:
            guarded = False
            if fn is aio:
                for t in walk_local(fn.node):
                    if isinstance(t, ast.Try) and any(node in ast.walk(b) for b in t.body) and any(
                            h.type is not None and 'CancelledError' in ast.unparse(h.type) and
                            any(isinstance(c, ast.Call) and isinstance(c.func, ast.Attribute) and
                                c.func.attr == 'cancel' and 'subscription' in ast.unparse(c.func.value)
                                for c in ast.walk(h)) for h in t.handlers):
                        guarded = True
            if not guarded:
                oks = False
                why = ('%s subscribes to the RSocket publisher (sending the request) outside the task whose '
                       'cancellation sends CANCEL: a dispose before that task has started leaves the request '
                       'uncancelled' % fn.short)
        rep.add('C20.d', '%s from_rsocket_publisher / the request is sent inside the cancellable task' % pkg,
                sites[0][0] if sites else frp, oks,
                why or 'publisher.subscribe() is in the try block of _aio_sub whose CancelledError handler cancels the '
                       'subscription')
        # terminal signals mark the stream done
        c = m.classes['RxSubscriber'][-1]
        for name, kw in (('on_complete', {}), ('on_error', {}), ('on_next', {'is_complete': const(True)})):
            f = c.methods[name]
            ok = True
            for p in ctx.paths(f, c, args=kw or None):
                if p.outcome != 'return':
                    continue
                sets = [e for e in p.events if e.kind == 'call' and e.data.get('name') == 'set' and
                        'done' in repr(e.data['recv'].term)]
                if not sets:
                    ok = False
            rep.add('C20.d', '%s RxSubscriber.%s%s / terminal signal marks the stream done' % (
                pkg, name, '(is_complete)' if kw else ''), f, ok,
                'done event set' if ok else 'a terminal signal leaves the done event unset: dispose would send a '
                                            'CANCEL for a finished stream')


def rule_e(ctx):
    rep = ctx.report
    for pkg in PKGS:
        c = ctx.repo.cls(HANDLER_ADAPTERS[pkg])
        f = c.methods['request_channel']
        src = ast.unparse(f.node)
        var = [n.targets[0].id for n in walk_local(f.node) if isinstance(n, ast.Assign) and
               isinstance(n.value, ast.Await) and 'delegate.request_channel' in ast.unparse(n.value)]
        ok = bool(var)
        if ok:
            v = var[0]
            ok = 'observable_to_publisher(%s.observable)' % v in src and \
                'RxSubscriberFromObserver(%s.observer, %s.limit_rate)' % (v, v) in src.replace('\n', '').replace(
                    '  ', '').replace(',' + ' ' * 1, ', ')
            if not ok:
                flat = ' '.join(src.split())
                ok = 'observable_to_publisher(%s.observable)' % v in flat and \
                    'RxSubscriberFromObserver(%s.observer, %s.limit_rate)' % (v, v) in flat
        rep.add('C20.e', '%s.request_channel / observable -> publisher, observer -> subscriber with its limit' % c.name,
                f, ok, 'channel.observable feeds the publisher, channel.observer receives with channel.limit_rate'
                if ok else 'the channel returned by the delegate is not wired as observable->publisher / '
                           'observer->subscriber(limit_rate)')
        fs = c.methods['request_stream']
        flat = ' '.join(ast.unparse(fs.node).split())
        ok = 'observable_to_publisher(await self.delegate.request_stream(payload))' in flat
        rep.add('C20.e', '%s.request_stream / observable -> publisher' % c.name, fs, ok,
                'the delegate\'s observable is wrapped by observable_to_publisher' if ok else
                'the delegate\'s observable is not passed to observable_to_publisher')
        # observable_to_publisher: None stays None, a back-pressure factory is used as such, else buffered publisher
        m = ctx.repo.module('rsocket.%s.back_pressure_publisher' % pkg)
        o2p = m.functions['observable_to_publisher'][-1]
        ps = ctx.paths(o2p, None, inline_depth=2)
        kinds = set()
        for p in ps:
            if p.outcome != 'return':
                continue
            if p.value.is_const() and p.value.const is None:
                kinds.add('none')
            elif p.value.types:
                kinds.add(getattr(next(iter(p.value.types)), 'name', 'observable'))
            else:
                kinds.add(fmt_term(p.value.term)[:40])
        ok = kinds == {'none', 'InternalBackPressurePublisher', 'BackPressurePublisher'} or \
            kinds == {'observable', 'InternalBackPressurePublisher', 'BackPressurePublisher'}
        # ... and which case gives which: decided per path from the tests on the argument
        arg = ('param', o2p.qualname, o2p.params()[0])
        for p in ps:
            if p.outcome != 'return':
                continue
            is_none = is_factory = None
            for e in p.events:
                if e.kind != 'cond':
                    continue
                kk = strip_epoch(e.data['key'])
                if kk[0] == 'isnone' and kk[1] == arg:
                    is_none = bool(e.data['value'])
                elif kk[0] == 'isinstance' and kk[1] == arg and 'Factory' in repr(kk[2]):
                    is_factory = bool(e.data['value'])
            kind = 'none' if (p.value.is_const() and p.value.const is None) or strip_epoch(p.value.term) == arg else \
                getattr(next(iter(p.value.types)), 'name', '?') if p.value.types else '?'
            want = 'none' if is_none else 'InternalBackPressurePublisher' if is_factory else \
                'BackPressurePublisher' if is_factory is False else None
            if is_none is None or want is None or kind != want:
                ok = False
        rep.add('C20.e', '%s observable_to_publisher / three cases' % pkg, o2p, ok,
                'None -> None; back-pressure factory -> feedback publisher; plain observable -> buffering publisher'
                if ok else 'observable_to_publisher returns %s' % sorted(kinds))


def rule_f(ctx):
    """Completion and errors preserved by the subscriber adapters: an element flagged complete is forwarded and
    followed by exactly one on_completed, whatever the batch counters say; an unflagged element never completes."""
    rep = ctx.report
    for pkg in PKGS:
        m = ctx.repo.module('rsocket.%s.from_rsocket_publisher' % pkg)
        for cname in ('RxSubscriber', 'RxSubscriberFromObserver'):
            c = m.classes[cname][-1]
            f = c.methods['on_next']
            value = ('param', f.qualname, f.params()[1])
            for flag in (True, False):
                ok = True
                detail = ''
                paths = [p for p in ctx.paths(f, c, args={'is_complete': const(flag)}) if p.outcome == 'return']
                if not paths:
                    raise AnalysisError('C20.f: %s.on_next has no returning path' % cname)
                for p in paths:
                    nexts = [e for e in p.events if e.kind == 'call' and e.data.get('name') == 'on_next' and
                             'observer' in repr(e.data['recv'].term)]
                    dones = [e for e in p.events if e.kind == 'call' and e.data.get('name') == 'on_completed' and
                             'observer' in repr(e.data['recv'].term)]
                    if len(nexts) != 1 or strip_epoch(nexts[0].data['args'][0].term) != value:
                        ok, detail = False, 'the element is not forwarded to the observer exactly once, unmodified'
                    elif flag and len(dones) != 1:
                        ok = False
                        detail = 'an element flagged complete reaches the observer but on_completed is called %d ' \
                                 'times on a path (completion lost at a batch boundary)' % len(dones)
                    elif flag and dones[0].seq < nexts[0].seq:
                        ok, detail = False, 'on_completed precedes the last element'
                    elif not flag and dones:
                        ok, detail = False, 'an element without the complete flag completes the observer'
                rep.add('C20.f', '%s %s.on_next(is_complete=%s) / element and completion forwarded' % (
                    pkg, cname, flag), f, ok, detail or 'observer.on_next(value)%s on all %d paths' % (
                    ' then on_completed()' if flag else ', no completion', len(paths)))
            for name, target in (('on_complete', 'on_completed'), ('on_error', 'on_error')):
                g = c.methods[name]
                ok = True
                for p in ctx.paths(g, c):
                    if p.outcome != 'return':
                        continue
                    calls = [e for e in p.events if e.kind == 'call' and e.data.get('name') == target and
                             'observer' in repr(e.data['recv'].term)]
                    if len(calls) != 1:
                        ok = False
                rep.add('C20.f', '%s %s.%s -> observer.%s exactly once' % (pkg, cname, name, target), g, ok,
                        'forwarded once' if ok else 'the terminal signal is not forwarded exactly once')
    # the collector used by the awaitable API: complete flag ends the collection, every element is kept
    c = ctx.repo.cls('rsocket.awaitable.collector_subscriber:CollectorSubscriber')
    f = c.methods['on_next']
    for flag in (True, False):
        ok = True
        for p in ctx.paths(f, c, args={'is_complete': const(flag)}):
            if p.outcome != 'return':
                continue
            kept = [e for e in p.events if e.kind == 'call' and e.data.get('name') == 'append']
            done = [e for e in p.events if e.kind == 'call' and e.data.get('name') == 'set' and
                    'is_done' in repr(e.data['recv'].term)]
            limited = any(c_.kind == 'cond' and '_limit_count' in repr(c_.data['key']) and c_.data['key'][0] == 'eq'
                          and c_.data['value'] for c_ in p.events)
            if len(kept) != 1:
                ok = False
            if flag and not done:
                ok = False
            if not flag and done and not limited:
                ok = False
        rep.add('C20.f', 'CollectorSubscriber.on_next(is_complete=%s) / element kept, completion ends the collection' %
                flag, f, ok, 'value appended%s' % (', done set' if flag else '') if ok else
                'the collector loses an element or the completion')


def rule_h(ctx):
    """The handler adapters' channel: what the application returned is what the core gets - publisher from its
    observable, subscriber (with its limit) from its observer exactly when it gave one."""
    rep = ctx.report
    for pkg in PKGS:
        c = ctx.repo.cls(HANDLER_ADAPTERS[pkg])
        f = c.methods['request_channel']
        ok = True
        why = ''
        seen = set()
        for p in ctx.paths(f, c, inline_depth=0):
            if p.outcome != 'return':
                continue
            dele = [e for e in p.events if e.kind == 'call' and e.data.get('name') == 'request_channel' and
                    e.data.get('awaited')]
            if len(dele) != 1:
                ok, why = False, 'the delegate is not asked exactly once'
                continue
            ch = ('awaited', strip_epoch(dele[0].data['value'].term))

            def of(t, attr):
                t = strip_epoch(t)
                return t[0] == 'attr' and t[2] == attr and strip_epoch(t[1]) in (ch, ch[1])
            pubs = [e for e in p.events if e.kind == 'call' and e.data.get('name') == 'observable_to_publisher']
            none = [x for x in p.events if x.kind == 'cond' and x.data['key'][0] == 'isnone' and
                    of(x.data['key'][1], 'observer')]
            news = [e for e in p.events if e.kind == 'new' and e.data['cls'].name == 'RxSubscriberFromObserver']
            rv = strip_epoch(p.value.term)
            if len(pubs) != 1 or not of(pubs[0].data['args'][0].term, 'observable'):
                ok, why = False, 'the publisher is not built from the observable the application returned'
                continue
            if not none:
                ok, why = False, 'the observer the application returned is not looked at'
                continue
            has = none[-1].data['value'] is False
            seen.add(has)
            if has:
                if len(news) != 1 or not of(news[0].data['args'][0].term, 'observer') or \
                        len(news[0].data['args']) < 2 or not of(news[0].data['args'][1].term, 'limit_rate'):
                    ok, why = False, 'with an observer, the subscriber is not RxSubscriberFromObserver(observer, limit_rate)'
                    continue
                want_sub = strip_epoch(news[0].data['value'].term)
            else:
                if news:
                    ok, why = False, 'without an observer a subscriber is built'
                    continue
                want_sub = ('const', None)
            if not (rv[0] == 'tuple' and len(rv[1]) == 2 and
                    strip_epoch(rv[1][0]) == strip_epoch(pubs[0].data['value'].term) and
                    strip_epoch(rv[1][1]) == want_sub):
                ok, why = False, 'what is returned is not (publisher, subscriber)'
        if ok and seen != {True, False}:
            ok, why = False, 'no path for a channel %s observer' % ('with' if True not in seen else 'without')
        rep.add('C20.e', '%s handler adapter request_channel / observable -> publisher, observer -> subscriber' % pkg,
                f, ok, why or '(observable_to_publisher(channel.observable), RxSubscriberFromObserver(channel.observer, '
                              'channel.limit_rate) or None)')
        # the event queue between the observable and the feeder
        mod = 'rsocket.%s.back_pressure_publisher' % pkg
        g = ctx.repo.module(mod).functions['observable_to_async_event_generator'][-1]
        ok = True
        why = ''
        n_y = n_stop = 0
        marker = None
        for n_ in walk_local(g.node):
            if isinstance(n_, ast.Assign) and isinstance(n_.value, ast.Call) and ast.unparse(n_.value) == 'object()':
                marker = n_.targets[0].id
        for p in ctx.paths(g, None, inline_depth=0):
            gets = [e for e in p.events if e.kind == 'call' and e.data.get('name') == 'get' and e.data.get('awaited')]
            ys = [e for e in p.events if e.kind == 'yield']
            for gi, ge in enumerate(gets):
                hi = gets[gi + 1].seq if gi + 1 < len(gets) else 10 ** 9
                v = ('awaited', strip_epoch(ge.data['value'].term))
                conds = [x for x in p.events if x.kind == 'cond' and ge.seq < x.seq < hi and x.data['key'][0] == 'is']
                mine = [y for y in ys if ge.seq < y.seq < hi]
                if not conds:
                    if p.outcome != 'cut' or mine:
                        ok, why = False, 'a dequeued notification is not compared with the completion marker'
                    continue
                if conds[0].data['value'] is True:
                    n_stop += 1
                    if mine or gi + 1 < len(gets) or p.outcome != 'return':
                        ok, why = False, 'the generator goes on after the completion marker'
                else:
                    if mine:
                        n_y += 1
                        if len(mine) != 1 or strip_epoch(mine[0].data['value'].term) not in (v, v[1]):
                            ok, why = False, 'what is yielded is not the dequeued notification'
                    elif gi + 1 < len(gets) or p.outcome == 'return':
                        ok, why = False, 'a dequeued notification is dropped'
        subs = [n_ for n_ in walk_local(g.node) if isinstance(n_, ast.Call) and isinstance(n_.func, ast.Attribute) and
                n_.func.attr == 'subscribe' and 'materialize' in ast.unparse(n_.func.value)]
        wired = False
        if len(subs) == 1 and marker:
            kw = {k.arg: k.value for k in subs[0].keywords}
            on = kw.get('on_next')
            oc = kw.get('on_completed')
            put_ev = False
            if isinstance(on, ast.Name) and on.id in g.children:
                ch = g.children[on.id]
                put_ev = any(isinstance(x, ast.Call) and isinstance(x.func, ast.Attribute) and
                             x.func.attr in ('put_nowait', 'put') and len(x.args) == 1 and
                             isinstance(x.args[0], ast.Name) and x.args[0].id == ch.params()[0]
                             for x in ast.walk(ch.node))
            elif isinstance(on, ast.Lambda):
                put_ev = 'put_nowait(%s)' % on.args.args[0].arg in ast.unparse(on.body)
            put_mk = oc is not None and ('put_nowait(%s)' % marker) in ast.unparse(oc)
            wired = put_ev and put_mk
        if not wired:
            ok, why = False, 'the materialized observable is not subscribed with "queue every notification, then the ' \
                             'completion marker"'
        rep.add('C20.g', '%s observable_to_async_event_generator / notifications queued and yielded in order' % pkg, g,
                ok and n_y > 0 and n_stop > 0, why or 'every notification queued, every dequeued one yielded, ends on the '
                                                      'marker')


def rule_g(ctx):
    """The observable -> publisher feeders hand every notification on, once, as the matching signal: OnNext ->
    on_next(value), OnError -> on_error(exception) and stop, OnCompleted -> on_completed() and stop; a value of the plain
    async-generator feeder -> on_next(value), StopAsyncIteration -> on_completed(), another exception -> on_error; the
    credit published on the feedback subject reaches the feeder's queue; cancellation of the subject cancels the feeder;
    the publisher wrapper subscribes the subscriber, forwards request(n) and cancel() to the feedback subject."""
    rep = ctx.report
    for pkg in PKGS:
        mod = 'rsocket.%s.back_pressure_publisher' % pkg
        m = ctx.repo.module(mod)
        # ---- event feeder
        f = ctx.repo.func(mod + ':from_async_event_iterator.<locals>.on_subscribe.<locals>._aio_next')
        ok = True
        why = ''
        seen = set()
        for p in ctx.paths(f, None, inline_depth=0):
            takes = [e for e in p.events if e.kind == 'call' and e.data.get('name') == '__anext__']
            for ti, t in enumerate(takes):
                ev = ('awaited', strip_epoch(t.data['value'].term))
                hi = takes[ti + 1].seq if ti + 1 < len(takes) else 10 ** 9
                kinds = {}
                for c in p.events:
                    if c.kind == 'cond' and t.seq < c.seq < hi and c.data['key'][0] == 'isinstance' and \
                            strip_epoch(c.data['key'][1]) in (ev, ev[1]):
                        for nm in c.data['key'][2]:
                            kinds[nm.split(':')[-1].split('.')[-1]] = c.data['value']
                sig = [e for e in p.events if e.kind == 'call' and t.seq < e.seq < hi and
                       e.data.get('name') in ('on_next', 'on_error', 'on_completed')]
                which = [k for k, v in kinds.items() if v is True]
                complete = ti + 1 < len(takes) or p.outcome == 'return' or any(
                    e.kind == 'loop' and e.data.get('phase') == 'back' and t.seq < e.seq < hi for e in p.events)
                if not complete:
                    continue
                if not which:
                    if sig:
                        ok, why = False, 'a notification of unknown kind produces a signal'
                    continue
                k = which[0]
                seen.add(k)
                want = {'OnNext': ('on_next', 'value', False), 'OnError': ('on_error', 'exception', True),
                        'OnCompleted': ('on_completed', None, True)}.get(k)
                if want is None:
                    continue
                name, attr, stops = want
                if [e.data['name'] for e in sig] != [name]:
                    ok, why = False, 'an %s notification produces %s' % (k, [e.data['name'] for e in sig] or 'nothing')
                    continue
                if attr is not None:
                    a = strip_epoch(sig[0].data['args'][0].term) if sig[0].data.get('args') else None
                    if not (a and a[0] == 'attr' and a[2] == attr and strip_epoch(a[1]) in (ev, ev[1])):
                        ok, why = False, 'the %s signal does not carry the notification\'s %s' % (name, attr)
                if stops and (ti + 1 < len(takes) or p.outcome != 'return'):
                    ok, why = False, 'the feeder goes on after a terminal notification'
                if not stops and p.outcome == 'return' and ti + 1 == len(takes):
                    ok, why = False, 'the feeder ends after an OnNext notification'
        if ok and seen != {'OnNext', 'OnError', 'OnCompleted'}:
            ok, why = False, 'no path handles %s' % sorted({'OnNext', 'OnError', 'OnCompleted'} - seen)
        rep.add('C20.g', '%s from_async_event_iterator / each notification becomes its signal' % pkg, f, ok,
                why or 'OnNext -> on_next(value); OnError -> on_error(exception), stop; OnCompleted -> on_completed(), '
                       'stop')
        # ---- plain async-generator feeder
        g = ctx.repo.func(mod + ':observable_from_async_generator.<locals>.on_subscribe.<locals>._aio_next')
        ok = True
        why = ''
        n_next = 0
        for p in ctx.paths(g, None, inline_depth=0):
            takes = [e for e in p.events if e.kind == 'call' and e.data.get('name') == '__anext__']
            for ti, t in enumerate(takes):
                hi = takes[ti + 1].seq if ti + 1 < len(takes) else 10 ** 9
                sig = [e for e in p.events if e.kind == 'call' and t.seq < e.seq < hi and
                       e.data.get('name') in ('on_next', 'on_error', 'on_completed')]
                complete = ti + 1 < len(takes) or p.outcome == 'return' or any(
                    e.kind == 'loop' and e.data.get('phase') == 'back' and t.seq < e.seq < hi for e in p.events)
                if not complete:
                    continue
                ev = ('awaited', strip_epoch(t.data['value'].term))
                if [e.data['name'] for e in sig] != ['on_next'] or \
                        strip_epoch(sig[0].data['args'][0].term) not in (ev, ev[1]):
                    ok, why = False, 'a value taken from the generator is not handed to on_next once'
                else:
                    n_next += 1
        handlers = {}
        for t in walk_local(g.node):
            if isinstance(t, ast.Try) and any(isinstance(x, ast.Await) and '__anext__' in ast.unparse(x)
                                              for b in t.body for x in ast.walk(b)):
                for h in t.handlers:
                    nm = ast.unparse(h.type).split('.')[-1] if h.type is not None else 'BaseException'
                    calls = [c.func.attr for c in ast.walk(h) if isinstance(c, ast.Call) and
                             isinstance(c.func, ast.Attribute) and c.func.attr in ('on_next', 'on_error',
                                                                                   'on_completed')]
                    ends = any(isinstance(x, (ast.Return, ast.Raise)) for x in h.body)
                    handlers[nm] = (calls, ends)
        if handlers.get('StopAsyncIteration') != (['on_completed'], True):
            ok, why = False, 'the end of the generator is not turned into on_completed() and a stop'
        if handlers.get('Exception') != (['on_error'], True):
            ok, why = False, 'a failure of the generator is not turned into on_error() and a stop'
        rep.add('C20.g', '%s observable_from_async_generator / values, end and failure become signals' % pkg, g,
                ok and n_next > 0, why or 'value -> on_next; StopAsyncIteration -> on_completed, stop; Exception -> '
                                          'on_error, stop')
        # ---- wiring of credit and cancellation (both feeders)
        for outer in ('from_async_event_iterator', 'observable_from_async_generator'):
            o = ctx.repo.func(mod + ':%s.<locals>.on_subscribe' % outer)
            outer_f = ctx.repo.func(mod + ':%s' % outer)
            bp_name = outer_f.params()[1]
            # the local names involved, taken from their roles (a rename must not matter)
            aio = o.children.get('_aio_next') or [ch for ch in o.children.values() if ch.is_async][0]
            q_name = None
            for x in walk_local(aio.node):
                if isinstance(x, ast.Await) and isinstance(x.value, ast.Call) and \
                        isinstance(x.value.func, ast.Attribute) and x.value.func.attr == 'get' and \
                        isinstance(x.value.func.value, ast.Name):
                    q_name = x.value.func.value.id
            s_name = None
            from ..astutil import resolve_temp
            for x in walk_local(o.node):
                if isinstance(x, ast.Assign) and isinstance(x.targets[0], ast.Name) and \
                        isinstance(x.value, ast.Call) and 'create_task' in ast.unparse(x.value.func) and \
                        (aio.node.name + '()') in ' '.join(ast.unparse(resolve_temp(o.node, a))
                                                          for a in x.value.args):
                    s_name = x.targets[0].id
            subs = [n for n in walk_local(o.node) if isinstance(n, ast.Call) and isinstance(n.func, ast.Attribute)
                    and n.func.attr == 'subscribe' and isinstance(n.func.value, ast.Name) and
                    n.func.value.id == bp_name]
            ok = len(subs) == 1
            why = 'the feeder does not subscribe to the feedback subject exactly once' if not ok else ''
            if ok:
                kw = {k.arg: k.value for k in subs[0].keywords}

                def body_of(v):
                    if isinstance(v, ast.Lambda):
                        return [v.body], [a.arg for a in v.args.args]
                    if isinstance(v, ast.Name) and v.id in o.children:
                        ch = o.children[v.id]
                        return ch.node.body, ch.params()
                    return None, None
                b, ps_ = body_of(kw.get('on_next'))
                good = False
                if b is not None and ps_:
                    for x in b:
                        for c in ast.walk(x):
                            if isinstance(c, ast.Call) and isinstance(c.func, ast.Attribute) and \
                                    c.func.attr in ('put_nowait', 'put') and q_name is not None and \
                                    ast.unparse(c.func.value) == q_name and len(c.args) == 1 and isinstance(c.args[0], ast.Name) and \
                                    c.args[0].id == ps_[0]:
                                good = True
                if not good:
                    ok, why = False, 'credit published on the feedback subject is not put into the feeder\'s queue'
                b, ps_ = body_of(kw.get('on_completed'))
                good = False
                if b is not None:
                    for x in b:
                        for c in ast.walk(x):
                            if isinstance(c, ast.Call) and isinstance(c.func, ast.Attribute) and \
                                    c.func.attr == 'cancel' and isinstance(c.func.value, ast.Name) and \
                                    c.func.value.id == s_name:
                                good = True
                if not good:
                    ok, why = False, 'completion of the feedback subject (cancel) does not cancel the feeder task'
                spawned = [n for n in walk_local(o.node) if isinstance(n, ast.Assign) and
                           isinstance(n.targets[0], ast.Name) and n.targets[0].id == s_name and
                           'create_task' in ast.unparse(n.value)]
                if len(spawned) != 1:
                    ok, why = False, 'the feeder task is not started exactly once'
            rep.add('C20.g', '%s %s / credit and cancellation wired to the feeder' % (pkg, outer), o, ok,
                    why or 'backpressure.subscribe(on_next: queue n, on_completed: cancel the feeder); feeder started')
        # ---- publisher wrapper
        c = m.classes['InternalBackPressurePublisher'][-1]
        sub = c.methods['subscribe']
        ok = False
        for p in ctx.paths(sub, c, inline_depth=3, no_inline={'_factory'}):
            if p.outcome != 'return':
                continue
            onsub = [e for e in p.events if e.kind == 'call' and e.data.get('name') == 'on_subscribe']
            adapters = [e for e in p.events if e.kind == 'new' and e.data['cls'].name == 'SubscriberAdapter']
            subs = [e for e in p.events if e.kind == 'call' and e.data.get('name') == 'subscribe' and
                    e.data.get('args') and adapters and
                    strip_epoch(e.data['args'][0].term) == strip_epoch(adapters[0].data['value'].term)]
            fb = [e for e in p.events if e.kind == 'store' and e.data['target'][0] == 'attr' and
                  e.data['target'][2] == '_feedback']
            fac = [e for e in p.events if e.kind == 'call' and e.data.get('name') == '_factory']
            ok = len(onsub) == 1 and len(adapters) == 1 and len(subs) == 1 and len(fb) == 1 and len(fac) == 1 and \
                strip_epoch(adapters[0].data['args'][0].term) == ('param', sub.qualname, 'subscriber') and \
                strip_epoch(fac[0].data['args'][0].term) in (strip_epoch(fb[0].data['value'].term),
                                                              ('attr', ('self',), '_feedback'))
        rep.add('C20.g', '%s InternalBackPressurePublisher.subscribe / subscriber wired to the observable' % pkg, sub,
                ok, 'on_subscribe; feedback subject; factory(feedback).subscribe(SubscriberAdapter(subscriber))' if ok
                else 'the subscriber is not subscribed (through its adapter) to the observable built from the feedback '
                     'subject')
        can = c.methods['cancel']
        ok = False
        for p in ctx.paths(can, c, inline_depth=0):
            calls = [e for e in p.events if e.kind == 'call' and e.data.get('name') == 'on_completed' and
                     e.data.get('recv') is not None and strip_epoch(e.data['recv'].term) == ('attr', ('self',),
                                                                                             '_feedback')]
            ok = p.outcome == 'return' and len(calls) == 1
        rep.add('C20.g', '%s InternalBackPressurePublisher.cancel / completes the feedback subject' % pkg, can, ok,
                'self._feedback.on_completed()' if ok else 'cancel() does not complete the feedback subject: the feeder '
                                                           'keeps producing')


def rule_i(ctx):
    """Credit reaches an observable-backed publisher from one place only: the Subject that carries REQUEST_N values to
    the feeder gets on_next(n) from the subscription's request(n) with the requester's n.  Any other producer of credit
    (a 'top-up' for terminal events, a priming value) lets elements past what the peer granted."""
    rep = ctx.report
    for pkg in PKGS:
        m = ctx.repo.module('rsocket.%s.back_pressure_publisher' % pkg)
        sites = []
        for fn in ctx.repo.all_functions():
            if fn.module is not m:
                continue
            # names that denote a credit channel inside this function: parameters annotated Subject (also of the
            # enclosing functions) and self attributes annotated / assigned Subject
            chan = set()
            g = fn
            while g is not None:
                a = g.node.args
                for x in a.posonlyargs + a.args + a.kwonlyargs:
                    if x.annotation is not None and 'Subject' in ast.unparse(x.annotation):
                        chan.add(x.arg)
                g = g.parent
            for n in walk_local(fn.node):
                if isinstance(n, ast.Call) and isinstance(n.func, ast.Attribute) and n.func.attr == 'on_next':
                    r = n.func.value
                    is_chan = isinstance(r, ast.Name) and r.id in chan
                    if isinstance(r, ast.Attribute) and isinstance(r.value, ast.Name) and r.value.id == 'self' and \
                            fn.cls is not None:
                        for k in fn.cls.mro():
                            for f2 in k.methods.values():
                                for st in walk_local(f2.node):
                                    if isinstance(st, ast.AnnAssign) and ast.unparse(st.target) == ast.unparse(r) and \
                                            'Subject' in ast.unparse(st.annotation):
                                        is_chan = True
                                    if isinstance(st, ast.Assign) and ast.unparse(st.targets[0]) == ast.unparse(r) and \
                                            'Subject(' in ast.unparse(st.value):
                                        is_chan = True
                    if is_chan:
                        sites.append((fn, n))
        ok, detail = True, ''
        if not sites:
            raise AnalysisError('C20.i: %s: nothing puts credit into the feedback subject' % pkg)
        for fn, n in sites:
            params = fn.params()[1:] if fn.cls is not None else fn.params()
            good = fn.node.name == 'request' and len(n.args) == 1 and isinstance(n.args[0], ast.Name) and \
                params and n.args[0].id == params[0]
            if not good:
                ok, detail = False, ('%s (line %d) puts %s into the credit channel: credit the peer did not grant' % (
                    fn.short, n.lineno, ast.unparse(n.args[0]) if n.args else 'a value'))
        # the channel itself must not remember credit: a replaying subject hands every REQUEST_N seen so far to a
        # source that attaches later, which then emits that many elements without new credit
        ctors = []
        for fn in ctx.repo.all_functions():
            if fn.module is not m:
                continue
            for st in walk_local(fn.node):
                if isinstance(st, ast.Assign) and isinstance(st.value, ast.Call) and \
                        'feedback' in ast.unparse(st.targets[0]).lower():
                    ctors.append((fn, st))
        if not ctors:
            raise AnalysisError('C20.i: %s: the feedback subject is created nowhere' % pkg)
        for fn, st in ctors:
            callee = ast.unparse(st.value.func).split('.')[-1]
            good = callee == 'Subject' and not st.value.args and not st.value.keywords
            rep.add('C20.i', '%s %s / the credit channel does not replay' % (pkg, fn.short), (fn.file, st.lineno), good,
                    'the feedback channel is a plain Subject(): credit is seen only by who is subscribed when it is '
                    'granted' if good else
                    'the feedback channel is %s: a source attaching later is handed credit that was already spent' %
                    ast.unparse(st.value))
        # cancel(): the source is told through the channel it listens on - completing the feedback subject while
        # the source's subscription to it is still alive (disposed first, the completion reaches nobody and a
        # credit-aware source keeps producing for the outstanding credit)
        pubc = m.classes['InternalBackPressurePublisher'][-1]
        canc = pubc.methods.get('cancel')
        if canc is None:
            raise AnalysisError('C20.i: InternalBackPressurePublisher.cancel vanished')
        okc, whyc = True, ''
        npaths = 0
        for p in ctx.paths(canc, pubc, inline_depth=1):
            if p.outcome != 'return':
                continue
            npaths += 1
            calls = [e for e in p.events if e.kind == 'call']
            comp = [e for e in calls if e.data.get('name') == 'on_completed' and e.data.get('recv') is not None and
                    'feedback' in repr(strip_epoch(e.data['recv'].term)).lower()]
            if not comp:
                okc, whyc = False, 'cancel() does not complete the feedback subject: the source is never told'
                continue
            early = [e for e in calls if e.seq < comp[0].seq and e.data.get('name') in ('dispose', 'unsubscribe')]
            if early:
                okc, whyc = False, ('cancel() disposes a subscription (line %s) before it completes the feedback '
                                    'subject: the completion - what stops a credit-aware source - reaches nobody' %
                                    early[0].line)
        rep.add('C20.i', '%s InternalBackPressurePublisher.cancel / the source is told to stop' % pkg, canc,
                okc and npaths > 0, whyc or 'feedback.on_completed() with every subscription still in place')
        rep.add('C20.i', '%s back_pressure_publisher / credit comes from request(n) only' % pkg,
                (sites[0][0].file, sites[0][1].lineno), ok,
                detail or 'the only on_next on a credit Subject is request(n) forwarding its n (%d site)' % len(sites))


def rule_j(ctx):
    """Each request-response served through a handler adapter gets its own future: the Rx `to_future()` operator
    allocates its Future when the operator object is created, so the operator must be created inside
    request_response() - per request - and not kept on the adapter and re-applied (every later request on the
    connection would share, and find resolved, the first request's Future)."""
    from ..astutil import returned_exprs
    rep = ctx.report
    for pkg in PKGS:
        c = ctx.repo.cls(HANDLER_ADAPTERS[pkg])
        f = c.methods.get('request_response')
        if f is None:
            raise AnalysisError('C20.j: %s.request_response vanished' % c.name)
        rets = [r for r in returned_exprs(f.node)]
        ok, detail = bool(rets), ''
        for r in rets:
            if not (isinstance(r, ast.Call) and isinstance(r.func, ast.Attribute) and r.func.attr == 'pipe'):
                ok, detail = False, 'request_response does not return <observable>.pipe(...)'
                continue
            fresh = [a for a in r.args if isinstance(a, ast.Call) and ast.unparse(a.func).split('.')[-1] == 'to_future']
            shared = [a for a in r.args if isinstance(a, ast.Starred) or (
                not isinstance(a, ast.Call) and 'self.' in ast.unparse(a))]
            if shared:
                ok, detail = False, ('the operator chain applied to the response is %s, built outside the request: '
                                     'every request served by this adapter shares one to_future() Future' %
                                     ast.unparse(shared[0]))
            elif len(fresh) != 1:
                ok, detail = False, 'the response observable is not turned into a future by a to_future() created here'
        rep.add('C20.j', '%s %s.request_response / a future of its own per request' % (pkg, c.name), f, ok,
                detail or 'observable.pipe(..., to_future()) with the operator created inside the call')


def rule_k(ctx):
    """The adapters build a new publisher / subscriber per interaction: no factory of a library object is memoised
    (rules/binding.py)."""
    from .binding import rule_no_memoised_factories
    rule_no_memoised_factories(ctx, 'C20.k', ['rsocket', 'reactivestreams'], 'library factories')


def rule_coroutines(ctx):
    """Every coroutine the library creates is run: the keepalive-timeout (and every other) call-back reaches the
    application through the handler adapters only if the adapter awaits the delegate (rules/binding.py)."""
    from .binding import rule_coroutines_run
    rule_coroutines_run(ctx, 'C15.d', ['rsocket', 'reactivestreams'], 'library coroutine calls')


def rule_queue_sources(ctx):
    """(shared C06.e) observable_from_queue / the back-pressure factories of both Rx adapters drain their queue through
    async_generator_from_queue: every dequeued value is yielded and only the stop value - recognised by identity, not by
    the elements' own __eq__ - ends the generator (rules/sources.py)."""
    from .sources import rule_small_sources
    rule_small_sources(ctx, 'C06.e')


def rule_empty_filter(ctx):
    """C20.l  The one element a client adapter may withhold is the empty response.  request_response of both client
    adapters pipes the response future through filter(is_non_empty_payload) and nothing else; that predicate is false
    exactly when data and metadata are both empty (None or length 0) - a response that carries only metadata, or only
    data, is an element and is delivered."""
    rep = ctx.report
    repo = ctx.repo
    g = repo.func('rsocket.helpers:is_non_empty_payload')
    if g is None:
        raise AnalysisError('C20.l: is_non_empty_payload vanished')
    pay = ('param', g.qualname, g.params()[0])
    ps = ctx.paths(g, None, inline_depth=2, symbolic_compare=True, no_inline={'safe_len'})
    ok, detail = bool(ps), ''
    rows = set()
    for p in ps:
        if p.outcome != 'return' or not p.value.is_const() or not isinstance(p.value.const, bool):
            ok, detail = False, 'the predicate does not come out as a decided boolean on a path'
            continue
        empty = {}
        for e in p.events:
            if e.kind != 'cond':
                continue
            k = strip_epoch(e.data['key'])
            if k[0] == 'truth' and k[1] in (('attr', pay, 'data'), ('attr', pay, 'metadata')):
                # `not payload.data`: a bytes value is false exactly when it is None or empty
                empty[k[1][2]] = not bool(e.data['value'])
                continue
            if k[0] == 'truth' and isinstance(k[1], tuple) and k[1][0] == 'cmp':
                op, a, b = k[1][1], k[1][2], k[1][3]
            elif k[0] in ('eq', 'ne', 'gt', 'lt') and len(k) == 3:
                op, a, b = {'eq': 'Eq', 'ne': 'NotEq', 'gt': 'Gt', 'lt': 'Lt'}[k[0]], k[1], k[2]
            else:
                continue
            field = None
            for which in ('data', 'metadata'):
                if ('attr', pay, which) in _flat20(a) and b == ('const', 0):
                    field = which
            if field is None:
                continue
            v = bool(e.data['value'])
            empty[field] = v if op == 'Eq' else (not v) if op in ('NotEq', 'Gt') else None
        d, m = empty.get('data'), empty.get('metadata')
        result = p.value.const
        # the result must be right for every completion of the facts the path did not look at
        for dd in ([d] if d is not None else [True, False]):
            for mm in ([m] if m is not None else [True, False]):
                rows.add((dd, mm))
                if result != (not (dd and mm)):
                    ok, detail = False, ('a payload with %s data and %s metadata is %s' % (
                        'no' if dd else 'some', 'no' if mm else 'some',
                        'delivered' if result else 'withheld: an element of the response is lost'))
    if ok and len(rows) != 4:
        ok, detail = False, 'the predicate does not look at both data and metadata'
    rep.add('C20.l', 'is_non_empty_payload / false exactly when data and metadata are both empty', g, ok,
            detail or 'truth table over (data empty, metadata empty) decided on %d paths' % len(ps))
    for pkg, mod, cname in (('reactivex', 'rsocket.reactivex.reactivex_client', 'ReactiveXClient'),
                            ('rx_support', 'rsocket.rx_support.rx_rsocket', 'RxRSocket')):
        c = repo.cls('%s:%s' % (mod, cname))
        f = c.methods.get('request_response') if c is not None else None
        if f is None:
            raise AnalysisError('C20.l: %s.request_response vanished' % cname)
        filters = [n for n in walk_local(f.node) if isinstance(n, ast.Call) and isinstance(n.func, ast.Attribute) and
                   n.func.attr in ('filter', 'skip', 'take', 'skip_while', 'take_while', 'distinct',
                                   'distinct_until_changed', 'first', 'last', 'element_at', 'debounce', 'sample')]
        ok = len(filters) == 1 and filters[0].func.attr == 'filter' and len(filters[0].args) == 1 and \
            isinstance(filters[0].args[0], ast.Name) and filters[0].args[0].id == 'is_non_empty_payload'
        rep.add('C20.l', '%s %s.request_response / withholds nothing but the empty response' % (pkg, cname), f, ok,
                'filter(is_non_empty_payload) is the only element-dropping operator' if ok else
                'the response passes through %s' % [ast.unparse(x) for x in filters])


def _flat20(t):
    out = []
    if isinstance(t, tuple):
        out.append(t)
        for x in t:
            out.extend(_flat20(x))
    return out



def rule_handler_per_connection(ctx):
    """C20.m  The wrapped handler factory is a factory: the core calls it once per connection and each connection owns
    its handler, so what `reactivex_handler_factory(f)` / `rx_handler_factory(f)` return must build a new adapter
    around a new delegate - `Adapter(f())` evaluated inside the returned function - on every call, not hand out an
    adapter (or a delegate) created when the wrapper was made."""
    from .c19 import _creates_instance
    rep = ctx.report
    repo = ctx.repo
    n = 0
    for modname in ('rsocket.reactivex.reactivex_handler_adapter', 'rsocket.rx_support.rx_handler_adapter'):
        m = repo.module(modname)
        if m is None:
            raise AnalysisError('C20.m: %s vanished' % modname)
        for name, lst in m.functions.items():
            f = lst[-1]
            if not name.endswith('handler_factory'):
                continue
            n += 1
            param = f.params()[0]
            inner = [x for x in f.node.body if isinstance(x, (ast.FunctionDef, ast.AsyncFunctionDef))]
            from ..astutil import returned_exprs
            rets = list(returned_exprs(f.node))
            ok, detail = True, ''
            target = None
            for r in rets:
                if isinstance(r, ast.Name):
                    target = next((x for x in inner if x.name == r.id), None)
                elif isinstance(r, ast.Lambda):
                    target = r
            if target is None:
                ok, detail = False, 'the wrapper does not return a function defined in it'
            else:
                class _Shim:
                    pass
                shim = _Shim()
                shim.node = target if not isinstance(target, ast.Lambda) else ast.FunctionDef(
                    name='<lambda>', args=target.args, body=[ast.Return(value=target.body)], decorator_list=[])
                shim.name = getattr(target, 'name', '<lambda>')
                shim.module = m
                inner_rets = list(returned_exprs(shim.node))
                if not inner_rets:
                    ok, detail = False, 'the returned function returns nothing'
                for r in inner_rets:
                    good, why = _creates_instance(repo, m, shim, r)
                    if not good:
                        ok, detail = False, ('every call returns %s: %s - all connections share one adapter and one '
                                             'delegate' % (ast.unparse(r), why))
                        continue
                    # the delegate is built in the call too
                    e = r
                    if isinstance(e, ast.Name):
                        e = next((a.value for a in walk_local(shim.node) if isinstance(a, ast.Assign) and any(
                            isinstance(t, ast.Name) and t.id == e.id for t in a.targets)), e)
                    made = [c for c in ast.walk(e) if isinstance(c, ast.Call) and isinstance(c.func, ast.Name) and
                            c.func.id == param]
                    local_made = [a for a in walk_local(shim.node) if isinstance(a, ast.Assign) and
                                  isinstance(a.value, ast.Call) and isinstance(a.value.func, ast.Name) and
                                  a.value.func.id == param]
                    if not made and not local_made:
                        ok, detail = False, ('the adapter is built around a delegate that is not created by calling %s() '
                                             'in the same call: connections share one delegate' % param)
            rep.add('C20.m', '%s / a new adapter around a new delegate per call' % name, f, ok,
                    detail or 'the returned function evaluates Adapter(%s()) on every call' % param)
    rep.require('C20.m', 'handler factory wrappers', n, 2)




def rule_feeder_errors(ctx):
    """C20.n  Errors are preserved by the feeders of the observable-backed publishers: in every `_aio_next` task of the
    two back_pressure_publisher modules, each handler that catches Exception / BaseException hands the caught
    exception to observer.on_error, a StopAsyncIteration of the wrapped generator becomes on_completed (or is logged
    where the event stream itself carries the completion), and a materialised OnError / OnCompleted event is forwarded
    and ends the task."""
    rep = ctx.report
    n = 0
    for pkg in PKGS:
        m = ctx.repo.module('rsocket.%s.back_pressure_publisher' % pkg)
        for top in m.tree.body:
            if not isinstance(top, ast.FunctionDef):
                continue
            for fn in [x for x in ast.walk(top) if isinstance(x, ast.AsyncFunctionDef) and x.name == '_aio_next']:
                n += 1
                problems = []
                broad = 0
                for h in [x for x in ast.walk(fn) if isinstance(x, ast.ExceptHandler)]:
                    t = ast.unparse(h.type) if h.type is not None else 'BaseException'
                    if t in ('Exception', 'BaseException'):
                        broad += 1
                        calls = [c for st in h.body for c in ast.walk(st) if isinstance(c, ast.Call) and
                                 isinstance(c.func, ast.Attribute) and c.func.attr == 'on_error']
                        if not calls or not h.name or not any(
                                c.args and isinstance(c.args[0], ast.Name) and c.args[0].id == h.name for c in calls):
                            problems.append('the handler `except %s` at line %d does not pass the exception to '
                                            'observer.on_error: a failing source ends in silence' % (t, h.lineno))
                if broad == 0:
                    problems.append('no handler for the failures of the wrapped source')
                for test in [x for x in ast.walk(fn) if isinstance(x, ast.If)]:
                    tt = ast.unparse(test.test)
                    for ev, sig in (('OnError', 'on_error'), ('OnCompleted', 'on_completed')):
                        if 'isinstance' in tt and ev in tt:
                            body = [c for st in test.body for c in ast.walk(st) if isinstance(c, ast.Call) and
                                    isinstance(c.func, ast.Attribute) and c.func.attr == sig]
                            ends = any(isinstance(st, ast.Return) for st in test.body)
                            if not body or not ends:
                                problems.append('a materialised %s event is not forwarded as %s followed by return' % (
                                    ev, sig))
                rep.add('C20.n', '%s %s._aio_next / failures and terminal events reach the observer' % (pkg, top.name),
                        (m.relpath, fn.lineno), not problems,
                        '; '.join(problems) or '%d broad handlers pass the exception to observer.on_error' % broad)
    rep.require('C20.n', 'feeder tasks of the observable-backed publishers', n, 4)




def rule_empty_response_default(ctx):
    """C20.o  A handler observable that completes empty answers with an empty payload - as a core handler that has
    nothing to say does: the default_if_empty() of both handler adapters' request_response is Payload() built there,
    not the request or anything else the adapter holds."""
    rep = ctx.report
    n = 0
    for pkg, mod, cname in (('reactivex', 'rsocket.reactivex.reactivex_handler_adapter', 'ReactivexHandlerAdapter'),
                            ('rx_support', 'rsocket.rx_support.rx_handler_adapter', 'RxHandlerAdapter')):
        c = ctx.repo.cls('%s:%s' % (mod, cname))
        f = c.methods.get('request_response') if c is not None else None
        if f is None:
            raise AnalysisError('C20.o: %s.request_response vanished' % cname)
        sites = [x for x in walk_local(f.node) if isinstance(x, ast.Call) and isinstance(x.func, ast.Attribute) and
                 x.func.attr == 'default_if_empty']
        n += len(sites)
        ok = bool(sites) and all(len(x.args) == 1 and isinstance(x.args[0], ast.Call) and
                                 isinstance(x.args[0].func, ast.Name) and x.args[0].func.id == 'Payload' and
                                 not x.args[0].args and not x.args[0].keywords for x in sites)
        rep.add('C20.o', '%s %s.request_response / an empty observable answers with an empty payload' % (pkg, cname), f,
                ok, 'default_if_empty(Payload())' if ok else
                'the default is %s' % ', '.join(ast.unparse(x.args[0]) if x.args else 'missing' for x in sites))
    rep.require('C20.o', 'default_if_empty sites', n, 2)



RULES = [('C20.a', rule_a), ('C20.b', c06a), ('C20.c', c06b), ('C20.d', rule_d), ('C20.e', rule_e), ('C20.f', rule_f), ('C20.g', rule_g), ('C20.e+C20.g', rule_h), ('C15.d', rule_coroutines), ('C20.i', rule_i), ('C20.j', rule_j), ('C20.k', rule_k), ('C06.e', rule_queue_sources), ('C20.l', rule_empty_filter), ('C20.m', rule_handler_per_connection), ('C20.n', rule_feeder_errors), ('C20.o', rule_empty_response_default), ('C20.p', rule_delegations_propagate)]
