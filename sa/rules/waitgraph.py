"""Who waits for whom: the wait graph of the library's own tasks has no cycle.

The socket runs a handful of long-lived tasks (receiver, sender, keepalive emitter, keepalive watchdog, reconnect
listener).  Several functions wait for the *end* of one of them - `await cancel_if_task_exists(task)` - and those
functions run inside other tasks: the close sequence runs inside the receiver, `close()` may be called by application
code from any call-back the library awaits (and each call-back runs inside one of the tasks), the reconnect listener
closes the old connection itself.  If task T can come to wait for the end of task U while U can come to wait for the end
of T, the two wait for each other for ever: close() never returns, nothing pending is failed, on_close is not
delivered.

The graph is built from the syntax trees:
  nodes   the coroutine methods handed to create_task / _start_task_if_not_closing / ensure_future by a socket class,
          with the attribute or local that holds the task;
  edges   T -> U when, starting at T's coroutine and following calls of methods of the class (super() included, with
          constant arguments propagated into `if <parameter>` tests) and the application call-outs (an awaited
          `self._handler.<call-back>(...)` may call the public close()), an `await cancel_if_task_exists(<holder of
          U>)` or `await <holder of U>` is reached.  A wait that sits behind `<holder> is not asyncio.current_task()`
          gives no edge to T itself.  `<holder>.cancel()` without an await gives no edge.
Every cycle is reported with the chain of functions along each edge."""
import ast

from .. import AnalysisError
from ..index import walk_local

SPAWNERS = ('create_task', '_start_task_if_not_closing', 'ensure_future')
PUBLIC_REENTRY = ('close',)  # what an application call-back may call that waits for tasks


def _spawned_coro(call):
    """The coroutine method name handed to a spawner call, or None."""
    fn = call.func
    name = fn.attr if isinstance(fn, ast.Attribute) else (fn.id if isinstance(fn, ast.Name) else '')
    if name not in SPAWNERS or not call.args:
        return None
    a = call.args[0]
    if isinstance(a, ast.Call) and isinstance(a.func, ast.Name) and a.func.id == 'partial' and a.args:
        a = a.args[0]
    if isinstance(a, ast.Lambda):
        a = a.body
    if isinstance(a, ast.Call):
        a = a.func
    if isinstance(a, ast.Attribute) and isinstance(a.value, ast.Name) and a.value.id == 'self':
        return a.attr
    return None


class WaitGraph:
    def __init__(self, cls):
        self.cls = cls
        self.holders = {}  # ('attr', name) / ('local', method, name) -> coroutine method name
        self.edges = {}  # coro -> {coro: chain}
        self._discover()
        for coro in sorted(set(self.holders.values())):
            self.edges[coro] = {}
            f = cls.lookup(coro)
            if f is not None:
                self._walk(coro, f, {}, [coro], set(), 0)

    def _methods(self):
        seen = {}
        for k in self.cls.mro():
            for name, f in getattr(k, 'methods', {}).items():
                seen.setdefault((k, name), f)
        return seen.values()

    def _discover(self):
        for f in self._methods():
            for n in walk_local(f.node):
                if isinstance(n, ast.Assign) and isinstance(n.value, ast.Call) and len(n.targets) == 1:
                    coro = _spawned_coro(n.value)
                    if coro is None:
                        continue
                    t = n.targets[0]
                    if isinstance(t, ast.Attribute) and isinstance(t.value, ast.Name) and t.value.id == 'self':
                        self.holders[('attr', t.attr)] = coro
                    elif isinstance(t, ast.Name):
                        self.holders[('local', f.name, t.id)] = coro

    def _holder_of(self, f, e, aliases):
        """The coroutine whose task the expression e holds (in method f), or None."""
        if isinstance(e, ast.Attribute) and isinstance(e.value, ast.Name) and e.value.id == 'self':
            return self.holders.get(('attr', e.attr))
        if isinstance(e, ast.Name):
            if ('local', f.name, e.id) in self.holders:
                return self.holders[('local', f.name, e.id)]
            return aliases.get(e.id)
        return None

    def _walk(self, origin, f, consts, chain, seen, depth):
        key = (f.cls.name if f.cls else None, f.name, tuple(sorted(consts.items())))
        if key in seen or depth > 10:
            return
        seen.add(key)
        # locals that alias a task attribute: `receiver_task = self._receiver_task`, tuple form included
        aliases = {}
        for n in walk_local(f.node):
            if isinstance(n, ast.Assign) and len(n.targets) == 1:
                t, v = n.targets[0], n.value
                pairs = []
                if isinstance(t, ast.Name):
                    pairs = [(t, v)]
                elif isinstance(t, ast.Tuple) and isinstance(v, ast.Tuple) and len(t.elts) == len(v.elts):
                    pairs = list(zip(t.elts, v.elts))
                for tt, vv in pairs:
                    if isinstance(tt, ast.Name) and isinstance(vv, ast.Attribute) and isinstance(vv.value, ast.Name) \
                            and vv.value.id == 'self' and ('attr', vv.attr) in self.holders:
                        aliases[tt.id] = self.holders[('attr', vv.attr)]
        self._block(origin, f, f.node.body, consts, chain, seen, depth, aliases, guarded=set())

    def _const_test(self, test, consts):
        """True / False when the test is decided by a constant parameter, else None."""
        if isinstance(test, ast.Name) and test.id in consts:
            return bool(consts[test.id])
        if isinstance(test, ast.UnaryOp) and isinstance(test.op, ast.Not):
            v = self._const_test(test.operand, consts)
            return None if v is None else not v
        return None

    def _not_current(self, f, test, aliases):
        """The coroutine that `test` shows not to be the current task (`x is not asyncio.current_task()`), or None."""
        if isinstance(test, ast.Compare) and len(test.ops) == 1 and isinstance(test.ops[0], ast.IsNot):
            sides = [test.left, test.comparators[0]]
            if any('current_task' in ast.unparse(s) for s in sides):
                for s in sides:
                    h = self._holder_of(f, s, aliases)
                    if h is not None:
                        return h
        return None

    def _block(self, origin, f, stmts, consts, chain, seen, depth, aliases, guarded):
        for s in stmts:
            if isinstance(s, (ast.FunctionDef, ast.AsyncFunctionDef, ast.ClassDef)):
                continue
            if isinstance(s, ast.If):
                decided = self._const_test(s.test, consts)
                self._exprs(origin, f, s.test, consts, chain, seen, depth, aliases, guarded)
                nc = self._not_current(f, s.test, aliases)
                if decided is not False:
                    self._block(origin, f, s.body, consts, chain, seen, depth, aliases,
                                guarded | ({nc} if nc else set()))
                if decided is not True:
                    self._block(origin, f, s.orelse, consts, chain, seen, depth, aliases, guarded)
                continue
            # compound statements
            handled = False
            for field in ('body', 'orelse', 'finalbody'):
                sub = getattr(s, field, None)
                if isinstance(sub, list) and sub and isinstance(sub[0], ast.stmt):
                    handled = True
            if handled:
                for field in ('test', 'iter', 'items'):
                    sub = getattr(s, field, None)
                    if isinstance(sub, ast.AST):
                        self._exprs(origin, f, sub, consts, chain, seen, depth, aliases, guarded)
                    elif isinstance(sub, list):
                        for it in sub:
                            self._exprs(origin, f, it, consts, chain, seen, depth, aliases, guarded)
                for field in ('body', 'orelse', 'finalbody'):
                    sub = getattr(s, field, None)
                    if isinstance(sub, list):
                        self._block(origin, f, sub, consts, chain, seen, depth, aliases, guarded)
                for h in getattr(s, 'handlers', []) or []:
                    self._block(origin, f, h.body, consts, chain, seen, depth, aliases, guarded)
                continue
            self._exprs(origin, f, s, consts, chain, seen, depth, aliases, guarded)

    def _exprs(self, origin, f, node, consts, chain, seen, depth, aliases, guarded):
        for n in ast.walk(node):
            if isinstance(n, (ast.FunctionDef, ast.AsyncFunctionDef, ast.Lambda)) and n is not node:
                continue
            if isinstance(n, ast.Await):
                v = n.value
                target = None
                if isinstance(v, ast.Call) and isinstance(v.func, ast.Name) and v.func.id == 'cancel_if_task_exists' \
                        and v.args:
                    target = self._holder_of(f, v.args[0], aliases)
                elif isinstance(v, (ast.Name, ast.Attribute)):
                    target = self._holder_of(f, v, aliases)
                if target is not None:
                    if target == origin and target in guarded:
                        continue
                    self.edges[origin].setdefault(target, chain + ['%s waits for the %s task' % (f.name, target)])
            if isinstance(n, ast.Call):
                fn = n.func
                # application call-out: may re-enter the public API
                if isinstance(fn, ast.Attribute) and isinstance(fn.value, ast.Attribute) and \
                        fn.value.attr in ('_handler', 'handler') and isinstance(fn.value.value, ast.Name) and \
                        fn.value.value.id == 'self':
                    for api in PUBLIC_REENTRY:
                        g = self.cls.lookup(api)
                        if g is not None:
                            self._walk(origin, g, {}, chain + ['%s awaits the application\'s %s(), which may call %s()' % (
                                f.name, fn.attr, api)], seen, depth + 1)
                    continue
                g = None
                if isinstance(fn, ast.Attribute) and isinstance(fn.value, ast.Name) and fn.value.id == 'self':
                    g = self.cls.lookup(fn.attr)
                elif isinstance(fn, ast.Attribute) and isinstance(fn.value, ast.Call) and \
                        isinstance(fn.value.func, ast.Name) and fn.value.func.id == 'super' and f.cls is not None:
                    mro = self.cls.mro()
                    if f.cls in mro:
                        for k in mro[mro.index(f.cls) + 1:]:
                            if fn.attr in getattr(k, 'methods', {}):
                                g = k.methods[fn.attr]
                                break
                if g is not None and _spawned_coro(n) is None:
                    params = [p for p in g.params() if p != 'self']
                    bound = {}
                    for p, a in zip(params, n.args):
                        if isinstance(a, ast.Constant):
                            bound[p] = a.value
                    for kw in n.keywords:
                        if kw.arg and isinstance(kw.value, ast.Constant):
                            bound[kw.arg] = kw.value.value
                    # defaults for parameters not given
                    d = g.node.args.defaults
                    for p, dv in zip(params[len(params) - len(d):], d):
                        if p not in bound and isinstance(dv, ast.Constant) and \
                                p not in [kw.arg for kw in n.keywords] and params.index(p) >= len(n.args):
                            bound[p] = dv.value
                    self._walk(origin, g, bound, chain + ['%s calls %s(%s)' % (f.name, g.name, ', '.join(
                        '%s=%r' % kv for kv in sorted(bound.items())))], seen, depth + 1)

    def cycles(self):
        out = []
        nodes = sorted(self.edges)
        # a task that waits for itself is not reported here: `await <current task>` raises RuntimeError at once (the
        # helper swallows it) and nobody blocks.  What it does to *other* waiters of that task is C17.h's business.
        # two-node and longer cycles by DFS (small graph)
        def dfs(start, cur, path):
            for nxt in sorted(self.edges.get(cur, {})):
                if nxt == start and len(path) > 1:
                    cyc = path[:]
                    if min(cyc) == start and cyc not in out:
                        out.append(cyc)
                elif nxt not in path and nxt in self.edges and len(path) < 6:
                    dfs(start, nxt, path + [nxt])
        for a in nodes:
            dfs(a, a, [a])
        return out


def rule_wait_graph(ctx, rule):
    rep = ctx.report
    slots = ctx.slots
    n_nodes = n_edges = 0
    reported = set()
    for cls in (slots.RSocketClient, slots.RSocketServer):
        g = WaitGraph(cls)
        n_nodes += len(g.edges)
        n_edges += sum(len(v) for v in g.edges.values())
        for cyc in g.cycles():
            key = ' <-> '.join(sorted(cyc)) if len(cyc) > 1 else cyc[0]
            if (key) in reported:
                continue
            reported.add(key)
            legs = []
            for i, a in enumerate(cyc):
                b = cyc[(i + 1) % len(cyc)]
                legs.append('%s -> %s: %s' % (a, b, '; '.join(g.edges[a][b][1:])))
            f = cls.lookup(cyc[0])
            rep.bad(rule, 'wait cycle / %s' % (' -> '.join(cyc + [cyc[0]])), f,
                    'these tasks can wait for each other\'s end: %s. Neither finishes: close() never returns, nothing '
                    'pending is failed, on_close is not delivered' % ' | '.join(legs))
        if cls is slots.RSocketClient:
            rep.ok(rule, 'wait graph of %s / built' % cls.name, cls.lookup('_stop_tasks'),
                   '; '.join('%s -> {%s}' % (a, ', '.join(sorted(b))) for a, b in sorted(g.edges.items())))
    rep.require(rule, 'task coroutines of the socket classes', n_nodes, 6)
    rep.require(rule, 'wait edges', n_edges, 4)
