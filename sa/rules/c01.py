"""C01 End-to-end payload delivery and request/response correlation."""
import ast

from .. import AnalysisError
from ..callgraph import callgraph
from ..effects import (strip_epoch, is_register, is_enq_send, is_enq_lease, is_deq_send, signal_kind, is_resolve,
                       is_spawn)
from ..index import walk_local, ClassInfo
from ..interp import fmt_term, const, AVal
from . import COMMON_ASSUMPTIONS
from .handlers import model, H_TERM, FRAME_TERM
from .c07 import init_bools

EXPLANATION = (
    'Exactly-once, in-order, byte-intact delivery under all schedules is a statement about run-time histories and is '
    'not decided. Decided are the structural facts without which correlation and intactness cannot hold: '
    '(a) stream-id provenance - on every enumerated path of every entry point of the six handler classes and their '
    'helper subscribers the stream id of every frame that is enqueued is an unmodified copy of the handler\'s own id; '
    'a handler is registered under the id that is written into it; a new request is registered under the id the '
    'allocator returned in the same activation; a responder is registered under the id of the request frame; a '
    'received frame is dispatched to the table entry of its own stream id; (b) payload provenance - every frame '
    'builder copies data to data and metadata to metadata from the payload it was given, the payload handed to the '
    'application is built from the data and metadata of the frame being handled, and what requesters/responders pass '
    'to the builders is the payload they were given; (c) single producer and consumer of the wire - the send queue is '
    'dequeued only by the frame picker (and by the two functions that re-queue or fail everything), transports are '
    'read only by the receive loop and written only by the sender, and both tasks are spawned at one site; '
    '(d) shared rules whose violation corrupts delivered bytes: fragments of one stream are not displaced behind '
    'frames of that stream (C05.a), reassembly keeps the flags of the last fragment (C03.c), the last-fragment mark '
    'is an exhaustion test (C03.f).')
EXPLANATION_ADDED = ("(e) received frames reach the code the other rules analyse: the receive loop passes every frame of the transport and its dispatch table to _handle_next_frame, which puts fragmentable frames through the reassembly cache exactly once and dispatches the cache's result, sends stream-0 frames and new requests (never offered to the stream table first) to the table and everything else to the stream table; table[type(frame)] is awaited with the frame; each row's method calls the application's entry point once with Payload(frame.data, frame.metadata), creates the matching responder and hands it the request frame; the handler future of a request-response is wired to the responder's send callback; (f) per (interaction, role, event) what a handler does on every path from its initial state is the protocol's reaction (signals, frames with their flags, future resolution, credit, cancellation), on the right branch of the tests it depends on; (g) the library's stream source hands every credited element on exactly once (C06.e), new_frame_fragment (C03.b) and the queue class (C05.f) do what the picker assumes; the awaitable adapter binds its limit_rate to the collector's refill size and nothing to its element cut-off, so it collects the whole stream (shared C06.a); (h, reported as C01.g) at every resolved call site of a library function or constructor (about 700) no argument named after one parameter of the callee is bound by position to a different one, and every parameter that receives a value from a library call site is read by the function (outside log lines; parameters declared by an abstract interface method excepted); the awaitable adapter (C01.h): the collector appends every element once before anything else, the completing element / on_complete / on_error release the waiter, run() raises the kept error or returns the collection, each request method calls the wrapped socket's method of the same name with the caller's arguments and hands its result back; (C01.i) every transport's send_frame hands the frame or its serialisation to an awaited send of the connection, to an own method that writes it, or to an outgoing queue that a drain loop of the class empties into an awaited send; (C01.j) no queue attribute of the library that is fed with put_nowait() is built with a fixed positive maxsize (QueueFull would drop the element); only the sender task writes to the transport (shared C05.g); a reconnect starts with an empty reassembly cache (shared C17.c).")
EXPLANATION = EXPLANATION.replace(' Not decided', ' ' + EXPLANATION_ADDED + ' Not decided', 1) \
    if ' Not decided' in EXPLANATION else EXPLANATION + ' ' + EXPLANATION_ADDED
ASSUMPTIONS = COMMON_ASSUMPTIONS


def rule_a(ctx):
    rep = ctx.report
    slots = ctx.slots
    m = model(ctx)
    n_sites = 0
    for h in m.handlers:
        bad = []
        sites = 0
        for en in m.entries(h):
            for p in m.run(en, None):
                for cname, complete, ev in m.emitted(p):
                    if cname == '?':
                        continue
                    frame = ev.data['args'][0].term
                    sid = None
                    for s in p.events:
                        if s.kind == 'store' and s.seq < ev.seq and s.data['target'][0] == 'attr' and \
                                s.data['target'][1] == frame and s.data['target'][2] == 'stream_id':
                            sid = strip_epoch(s.data['value'].term)
                    sites += 1
                    if sid != ('attr', H_TERM, 'stream_id'):
                        bad.append((en.name, cname, sid, ev))
        n_sites += sites
        if sites == 0:
            raise AnalysisError('C01.a: %s enqueues nothing' % h.name)
        if bad:
            en, cname, sid, ev = bad[0]
            rep.bad('C01.a', '%s / frames carry the handler\'s own stream id' % h.name, (ev.func.file, ev.line),
                    '%s enqueues a %s whose stream id is %s, not an unmodified copy of the handler\'s id: the frame goes '
                    'to another stream' % (en, cname, fmt_term(sid) if sid else 'never set (0)'),
                    extra={'sites': sites, 'bad': len(bad)})
        else:
            rep.ok('C01.a', '%s / frames carry the handler\'s own stream id' % h.name, h,
                   'stream id of the frame = handler.stream_id at all %d enqueue sites/paths' % sites)
    rep.require('C01.a', 'enqueue sites in handlers', n_sites, 30)
    # registration under the id written into the handler
    base = slots.RSocketBase
    rs = base.methods['_register_stream']
    ok = True
    detail = ''
    for p in ctx.paths(rs, slots.RSocketClient, inline_depth=3):
        if p.outcome != 'return':
            continue
        regs = [e for e in p.events if is_register(e, slots)]
        st = [e for e in p.events if e.kind == 'store' and e.data['target'][0] == 'attr' and
              e.data['target'][2] == 'stream_id' and strip_epoch(e.data['target'][1]) == ('param', rs.qualname,
                                                                                          'handler')]
        if len(regs) != 1 or len(st) != 1:
            ok, detail = False, 'a handler is not registered exactly once / not told its id'
            continue
        key = strip_epoch(regs[0].data['target'][2])
        val = strip_epoch(regs[0].data['value'].term)
        if key != ('param', rs.qualname, 'stream_id') or strip_epoch(st[0].data['value'].term) != key:
            ok, detail = False, 'the table key (%s) and the id written into the handler (%s) differ' % (
                fmt_term(key), fmt_term(st[0].data['value'].term))
        if val != ('param', rs.qualname, 'handler'):
            ok, detail = False, 'the table entry is not the handler that was told the id'
    rep.add('C01.a', 'RSocketBase._register_stream / key = id written into the handler', rs, ok,
            detail or 'handler.stream_id = id; table[id] = handler')
    rn = base.methods['register_new_stream']
    ok = True
    for p in ctx.paths(rn, slots.RSocketClient, inline_depth=2, no_inline={'allocate_stream', 'register_stream'}):
        if p.outcome != 'return':
            continue
        alloc = [e for e in p.events if e.kind == 'call' and e.data.get('name') == 'allocate_stream']
        reg = [e for e in p.events if e.kind == 'call' and e.data.get('name') == 'register_stream']
        if len(alloc) != 1 or len(reg) != 1 or reg[0].data['args'][0].term != alloc[0].data['value'].term:
            ok = False
        elif strip_epoch(reg[0].data['args'][1].term) != ('param', rn.qualname, 'handler'):
            ok = False
    rep.add('C01.a', 'RSocketBase.register_new_stream / registered under the freshly allocated id', rn, ok,
            'the id returned by the allocator in this activation is the registration key' if ok else
            'a new request is not registered under the id that was just allocated')
    # responders: registered under the id of the request frame
    for name in ('handle_request_response', 'handle_request_stream', 'handle_request_channel'):
        f = base.methods[name]
        ok = True
        n = 0
        for p in ctx.paths(f, slots.RSocketServer, inline_depth=3, no_inline={'frame_received', 'setup', 'subscribe'}):
            regs = [e for e in p.events if is_register(e, slots)]
            for r in regs:
                n += 1
                if strip_epoch(r.data['target'][2]) != ('attr', ('param', f.qualname, 'frame'), 'stream_id'):
                    ok = False
        rep.add('C01.a', 'RSocketBase.%s / responder registered under the request\'s stream id' % name, f,
                ok and n > 0, 'table[frame.stream_id] = responder' if ok and n else
                'the responder is not registered under the stream id of the request frame')
    # dispatch
    hs = slots.StreamControl.methods['handle_stream']
    ok = True
    n = 0
    for p in ctx.paths(hs, slots.StreamControl, no_inline={'frame_received'}):
        for e in p.events:
            if e.kind == 'call' and e.data.get('name') == 'frame_received':
                n += 1
                r = strip_epoch(e.data['recv'].term)
                fr = ('param', hs.qualname, 'frame')
                good = r[0] == 'item' and strip_epoch(r[2]) == ('attr', fr, 'stream_id') and \
                    slots.stream_table_attr in repr(r[1]) and strip_epoch(e.data['args'][0].term) == fr
                if not good:
                    ok = False
    rep.add('C01.a', 'StreamControl.handle_stream / frame dispatched to the entry of its own stream id', hs,
            ok and n > 0, 'table[frame.stream_id].frame_received(frame)' if ok and n else
            'a received frame is not dispatched to the table entry of its own stream id')


BUILDERS = ('to_payload_frame', 'to_request_channel_frame', 'to_request_stream_frame', 'to_request_response_frame',
            'to_fire_and_forget_frame', 'to_setup_frame')


def rule_b(ctx):
    rep = ctx.report
    slots = ctx.slots
    fb = ctx.repo.module('rsocket.frame_builders')
    for name in BUILDERS:
        fs = fb.functions.get(name)
        if not fs:
            raise AnalysisError('C01.b: builder %s vanished' % name)
        f = fs[-1]
        pay = ('param', f.qualname, 'payload')
        ok = True
        detail = ''
        n = 0
        for p in ctx.paths(f, None, inline_depth=3):
            if p.outcome != 'return':
                continue
            obj = p.value.term
            last = {}
            for e in p.events:
                if e.kind == 'store' and e.data['target'][0] == 'attr' and e.data['target'][1] == obj:
                    last[e.data['target'][2]] = strip_epoch(e.data['value'].term)
            given = not any(c.kind == 'cond' and c.data['key'][0] == 'isnone' and c.data['value'] is True and
                            strip_epoch(c.data['key'][1]) == pay for c in p.events)
            if not given:
                continue
            n += 1
            for fld in ('data', 'metadata'):
                if last.get(fld) != ('attr', pay, fld):
                    ok = False
                    detail = 'frame.%s is %s, not payload.%s' % (fld, fmt_term(last.get(fld)) if last.get(fld) else
                                                                 'left empty', fld)
            sid = last.get('stream_id')
            if 'stream_id' in f.params() and sid != ('param', f.qualname, 'stream_id'):
                ok, detail = False, 'the builder does not put the given stream id into the frame'
        rep.add('C01.b', '%s / data->data, metadata->metadata' % name, f, ok and n > 0,
                detail or 'payload fields copied to the same-named frame fields, unmodified')
    mp = fb.functions['to_metadata_push_frame'][-1]
    ok = True
    for p in ctx.paths(mp, None, inline_depth=3):
        obj = p.value.term
        md = [e for e in p.events if e.kind == 'store' and e.data['target'][0] == 'attr' and
              e.data['target'][1] == obj and e.data['target'][2] == 'metadata']
        if not md or strip_epoch(md[-1].data['value'].term) != ('param', mp.qualname, 'metadata'):
            ok = False
    rep.add('C01.b', 'to_metadata_push_frame / metadata unmodified', mp, ok,
            'frame.metadata = metadata' if ok else 'the pushed metadata is not copied unmodified')
    # frame -> payload for the application
    hm = ctx.repo.module('rsocket.helpers')
    pf = hm.functions['payload_from_frame'][-1]
    fr = ('param', pf.qualname, 'frame')
    ok = True
    for p in ctx.paths(pf, None):
        obj = p.value.term
        last = {}
        for e in p.events:
            if e.kind == 'store' and e.data['target'][0] == 'attr' and e.data['target'][1] == obj:
                last[e.data['target'][2]] = strip_epoch(e.data['value'].term)
        if last.get('data') != ('attr', fr, 'data') or last.get('metadata') != ('attr', fr, 'metadata'):
            ok = False
    rep.add('C01.b', 'payload_from_frame / Payload(frame.data, frame.metadata)', pf, ok,
            'the payload handed to the application carries the frame\'s data as data and metadata as metadata' if ok
            else 'payload_from_frame crosses or alters data/metadata')
    # handlers deliver the payload of the frame being handled
    m = model(ctx)
    n = 0
    for h in m.handlers:
        pre0 = init_bools(ctx, m, h)
        bad = None
        seen = 0
        for en in m.entries(h):
            if en.kind != 'frame' or en.frame_cls.name != 'PayloadFrame':
                continue
            for p in m.run(en, pre0):
                for e in p.events:
                    deliver = (signal_kind(e) == 'next') or (is_resolve(e) == 'set_result')
                    if not deliver or not e.data.get('args'):
                        continue
                    seen += 1
                    a = e.data['args'][0]
                    # a Payload created on this path from the handled frame
                    fields = {}
                    for s in p.events:
                        if s.kind == 'store' and s.data['target'][0] == 'attr' and s.data['target'][1] == a.term:
                            fields[s.data['target'][2]] = strip_epoch(s.data['value'].term)
                    if fields.get('data') != ('attr', FRAME_TERM, 'data') or \
                            fields.get('metadata') != ('attr', FRAME_TERM, 'metadata'):
                        bad = (en, e)
        if seen:
            n += 1
            rep.add('C01.b', '%s / delivers the payload of the frame being handled' % h.name, h, bad is None,
                    'on_next/set_result receive Payload(frame.data, frame.metadata) of the handled frame (%d sites)' %
                    seen if bad is None else
                    '%s hands the application something other than the payload of the handled frame (line %s)' % (
                        bad[0].name, bad[1].line))
    rep.require('C01.b', 'handler classes that deliver payloads', n, 3)
    # requesters send the payload they were given
    base = slots.RSocketBase
    for api, cls_name in (('request_response', 'RequestResponseRequester'), ('request_stream', 'RequestStreamRequester'),
                          ('request_channel', 'RequestChannelRequester')):
        f = base.methods[api]
        ok = False
        for node in walk_local(f.node):
            if isinstance(node, ast.Call) and isinstance(node.func, ast.Name) and node.func.id == cls_name:
                ok = len(node.args) >= 2 and isinstance(node.args[1], ast.Name) and node.args[1].id == 'payload'
        rep.add('C01.b', 'RSocketBase.%s / the caller\'s payload goes into the requester' % api, f, ok,
                '%s(self, payload, ...)' % cls_name if ok else 'the requester is not given the caller\'s payload')
    for h in m.handlers:
        if m.role(h)[1] != 'requester':
            continue
        init = h.lookup('__init__')
        attr = None
        for node in walk_local(init.node):
            if isinstance(node, ast.Assign) and isinstance(node.value, ast.Name) and node.value.id == 'payload' and \
                    isinstance(node.targets[0], ast.Attribute):
                attr = node.targets[0].attr
        ok = attr is not None
        sent = 0
        if ok:
            for en in m.entries(h):
                if not en.is_event:
                    continue
                for p in m.run(en, None):
                    for cname, complete, ev in m.emitted(p):
                        if not cname.startswith('Request') or cname == 'RequestNFrame':
                            continue
                        frame = ev.data['args'][0].term
                        sent += 1
                        for fld in ('data', 'metadata'):
                            v = None
                            for s in p.events:
                                if s.kind == 'store' and s.seq < ev.seq and s.data['target'][0] == 'attr' and \
                                        s.data['target'][1] == frame and s.data['target'][2] == fld:
                                    v = strip_epoch(s.data['value'].term)
                            if v != ('attr', ('attr', H_TERM, attr), fld):
                                ok = False
        rep.add('C01.b', '%s / request frame carries the stored payload' % h.name, h, ok and sent > 0,
                'frame.data/metadata = self.%s.data/metadata' % attr if ok and sent else
                'the request frame does not carry the payload the requester was created with')


def rule_c(ctx):
    rep = ctx.report
    slots = ctx.slots
    cg = callgraph(ctx)
    # who dequeues the send queue
    deq = set()
    for f in ctx.repo.all_functions():
        if not f.module.name.startswith('rsocket') or f.module.name.startswith('rsocket.cli'):
            continue
        for n in walk_local(f.node):
            if isinstance(n, ast.Call) and isinstance(n.func, ast.Attribute) and n.func.attr in ('get_nowait', 'get') \
                    and slots.send_queue_attr in ast.unparse(n.func.value):
                deq.add(f)
            if isinstance(n, ast.For) and slots.send_queue_attr in ast.unparse(n.iter):
                for c in ast.walk(n):
                    if isinstance(c, ast.Call) and isinstance(c.func, ast.Attribute) and c.func.attr == 'get_nowait':
                        deq.add(f)
    allowed = {'_get_next_frame_to_send', 'send_priority_frame', '_fail_unsent_frames'}
    extra = sorted(f.short for f in deq if f.name not in allowed)
    ok = not extra and any(f.name == '_get_next_frame_to_send' for f in deq)
    rep.add('C01.c', 'send queue / dequeued by the frame picker only', slots.RSocketBase, ok,
            'dequeue sites: %s' % sorted(f.short for f in deq) if ok else
            'the send queue is also dequeued by %s: frames can bypass the sender or be lost' % extra)
    # who reads the transport
    readers = set()
    for c in [slots.Transport] + ctx.repo.subclasses(slots.Transport):
        g = c.methods.get('next_frame_generator')
        if g is None:
            continue
        for caller, node in cg.callers(g):
            readers.add(caller)
    ok = {r.name for r in readers} == {'_receiver_listen'}
    rep.add('C01.c', 'Transport.next_frame_generator / read by the receive loop only', slots.RSocketBase, ok,
            'the only reader of a transport is _receiver_listen' if ok else
            'transports are also read from %s' % sorted(r.short for r in readers if r.name != '_receiver_listen'))
    # tasks spawned at one site
    st = slots.RSocketBase.methods['_start_tasks']
    refs = {'_receiver': [], '_sender': []}
    for f in ctx.repo.all_functions():
        if f.cls is None or not f.cls.is_subclass_of(slots.RSocketBase):
            continue
        for n in walk_local(f.node):
            if isinstance(n, ast.Attribute) and n.attr in refs and isinstance(n.ctx, ast.Load) and \
                    isinstance(n.value, ast.Name) and n.value.id == 'self':
                refs[n.attr].append(f)
    ok = all(len(v) == 1 and v[0] is st for v in refs.values())
    rep.add('C01.c', 'sender and receiver / spawned at one site', st, ok,
            'both coroutines are referenced only in _start_tasks' if ok else
            'the sender/receiver coroutine is referenced at %s' % {k: [f.short for f in v] for k, v in refs.items()})
    callers = {c.short for c, _ in cg.callers(st)}
    ok = callers == {'RSocketClient.connect', 'RSocketServer._setup_internals'}
    rep.add('C01.c', '_start_tasks / once per connection', st, ok,
            'called from the client\'s connect() and the server\'s constructor hook' if ok else
            '_start_tasks is called from %s' % sorted(callers))


def rule_e(ctx):
    """The response of a request-response reaches the wire: the responder is wired to the handler's future."""
    rep = ctx.report
    slots = ctx.slots
    f = slots.RSocketBase.methods['handle_request_response']
    ok = True
    detail = ''
    n = 0
    m = model(ctx)
    for p in ctx.paths(f, slots.RSocketServer, inline_depth=3, no_inline={'assert_stream_id_available',
                                                                       'register_stream'}):
        if p.outcome != 'return':
            continue
        n += 1
        news = [e for e in p.events if e.kind == 'new' and e.data['cls'].name == 'RequestResponseResponder']
        regs = [e for e in p.events if e.kind == 'call' and e.data.get('name') == 'add_done_callback']
        if len(news) != 1 or not regs:
            ok, detail = False, 'the handler\'s response future gets no done-callback: the response is never sent'
            continue
        fut = news[0].data['args'][1].term if len(news[0].data.get('args') or []) > 1 else None
        cb = regs[0].data['args'][0].term if regs[0].data.get('args') else None
        if strip_epoch(regs[0].data['recv'].term) != strip_epoch(fut):
            ok, detail = False, 'the done-callback is registered on something other than the handler\'s response future'
        elif not (cb and cb[0] == 'boundmethod' and cb[1] == news[0].data['value'].term):
            ok, detail = False, 'the done-callback is not a method of the responder registered for this stream'
        else:
            h = [x for x in m.handlers if x.name == 'RequestResponseResponder']
            if not h or cb[2] not in m._registered_callbacks(h[0]):
                ok, detail = False, 'the registered callback %s is not the responder\'s completion callback' % cb[2]
    rep.add('C01.d', 'RSocketBase.handle_request_response / response future wired to the responder', f,
            ok and n > 0, detail or 'response_future.add_done_callback(responder.<send callback>) on all %d paths' % n)


def rule_f(ctx):
    """Received frames reach the code the other rules analyse: dispatch table rows, lookup, routing."""
    from . import dispatch
    dispatch.rule_rows(ctx, 'C01.e', ['RequestResponseFrame', 'RequestStreamFrame', 'RequestChannelFrame',
                                      'RequestFireAndForgetFrame', 'MetadataPushFrame', 'ErrorFrame'])
    dispatch.rule_lookup(ctx, 'C01.e')
    dispatch.rule_routing(ctx, 'C01.e')


def rule_h(ctx):
    """Elements of the library's own stream sources reach the subscriber once each (shared C06.e)."""
    from .sources import rule_source
    rule_source(ctx, 'C06.e')


def rule_i(ctx):
    """The awaitable adapter collects the whole stream: the limit_rate it is given is the collector's refill size
    and nothing is bound to the collector's element cut-off (shared C06.a)."""
    from .c06 import rule_g as c06g
    c06g(ctx)


def rule_j(ctx):
    """Across the library, a value named after one parameter of the function or constructor it is passed to reaches
    that parameter (rules/binding.py): payloads, stream ids, data/metadata and credit are not cross-wired by a
    positional call into a reordered signature."""
    from .binding import rule_argument_binding
    rule_argument_binding(ctx, 'C01.g', ['rsocket', 'reactivestreams'], 'library call sites', minimum=400)
    from .binding import rule_no_ignored_argument
    rule_no_ignored_argument(ctx, 'C01.g', ['rsocket', 'reactivestreams'], 'library call sites')


def rule_k(ctx):
    """The awaitable adapter hands its caller every element the stream delivered, in order, or the stream's error, and
    forwards each request to the wrapped socket (rules/awaitable.py)."""
    from .awaitable import rule_awaitable
    rule_awaitable(ctx, 'C01.h')


def rule_l(ctx):
    """Every transport's send_frame hands the frame to its connection (rules/msgtransports.py)."""
    from .msgtransports import rule_send_frame_sends
    rule_send_frame_sends(ctx, 'C01.i')
    from .msgtransports import rule_feeders_started
    rule_feeders_started(ctx, 'C01.i')
    # the byte-stream transport writes prefix and payload of the frame it is given, once, in order (shared C02.e)
    from .c02 import rule_tcp_writer
    rule_tcp_writer(ctx)
    # a new connection of the same client starts with an empty reassembly cache (and table, queues): fragments left
    # over from the old connection are not prepended to what arrives on a reused stream id (shared C17.c)
    from .c17 import rule_c as c17c
    c17c(ctx)
    # only the sender task writes to the transport (shared C05.g)
    from .c05 import rule_single_writer
    rule_single_writer(ctx)
    # what is handed from task to task inside the library is not dropped on the way: the queues that are fed with
    # put_nowait() have no fixed bound
    from .plumbing import rule_bounded_queue_nowait
    rule_bounded_queue_nowait(ctx, 'C01.j', ['rsocket', 'reactivestreams'], 'library queues')


def rule_g(ctx):
    """What each handler does for each event is the protocol's reaction (delivery, emission, credit, cancellation)."""
    from .reactions import rule_reactions
    rule_reactions(ctx, 'C01.f')


def rule_d(ctx):
    from .c03 import rule_b as c03b
    c03b(ctx)
    from .c05 import rule_f as c05f
    c05f(ctx)
    from .c05 import rule_a as c05a
    from .c03 import rule_c as c03c, rule_f as c03f
    c05a(ctx)
    c03c(ctx)
    c03f(ctx)



def rule_balancer(ctx):
    """C01.m  A request made through the load balancer is one request on one client of the pool with the caller's
    arguments, and the caller gets that client's result; each strategy's index stays within the pool
    (rules/loadbalancer.py)."""
    from .loadbalancer import rule_balancer as rb
    rb(ctx, 'C01.m')



def rule_pumps(ctx):
    """C01.n  The receive and send loops are started, run while the connection is alive and hand every received frame
    to the dispatcher; metadata_push queues the frame it builds (rules/pumps.py)."""
    from .pumps import rule_pumps as rp
    rp(ctx, 'C01.n')



def rule_dead_responders_silenced(ctx):
    """(shared C11.c)  Each caller receives only the response its own request produced - also across a reconnect, where
    stream ids start again: the responders of the lost connection are silenced by the close loop (dispose() cancels
    the handler's future / publisher unconditionally), otherwise a future resolved late answers the new connection's
    request that happens to carry the same id (rules/c11.py)."""
    from .c11 import rule_c as c11c
    c11c(ctx)



def rule_default_subscriber(ctx):
    """C01.o  DefaultSubscriber - the base of the library's own subscribers and of most application subscribers - hands
    each signal to the call-back that was given for it: __init__ keeps the four call-backs, each of on_next / on_error /
    on_complete / on_subscribe calls the call-back kept for its own name exactly once with its own parameters when one
    was given and does nothing else otherwise, and on_subscribe keeps the subscription on every path."""
    rep = ctx.report
    k = ctx.repo.cls('reactivestreams.subscriber:DefaultSubscriber')
    init = k.methods.get('__init__') if k is not None else None
    if init is None:
        raise AnalysisError('C01.o: DefaultSubscriber.__init__ vanished')
    kept = {}
    defaults = {}  # call-back name -> (min, max positional arguments, takes *args) of its no-op default
    for n in walk_local(init.node):
        if isinstance(n, (ast.Assign, ast.AnnAssign)):
            t = n.targets[0] if isinstance(n, ast.Assign) else n.target
            if isinstance(t, ast.Attribute) and isinstance(t.value, ast.Name) and t.value.id == 'self' and \
                    isinstance(n.value, ast.Name):
                kept[n.value.id] = t.attr
            # `given or (lambda ...: None)` / `given if given is not None else (lambda ...: None)`: a no-op default
            v = n.value
            lam = src = None
            if isinstance(v, ast.BoolOp) and isinstance(v.op, ast.Or) and len(v.values) == 2 and \
                    isinstance(v.values[0], ast.Name) and isinstance(v.values[1], ast.Lambda):
                src, lam = v.values[0].id, v.values[1]
            if isinstance(v, ast.IfExp) and isinstance(v.body, ast.Name) and isinstance(v.orelse, ast.Lambda):
                src, lam = v.body.id, v.orelse
            if lam is not None and isinstance(t, ast.Attribute) and isinstance(t.value, ast.Name) and \
                    t.value.id == 'self' and isinstance(lam.body, ast.Constant) and lam.body.value is None:
                kept[src] = t.attr
                a = lam.args
                defaults[src] = (len(a.posonlyargs) + len(a.args) - len(a.defaults), len(a.posonlyargs) + len(a.args),
                                 a.vararg is not None)
    for name in ('on_next', 'on_error', 'on_complete', 'on_subscribe'):
        f = k.methods.get(name)
        attr = kept.get(name)
        if f is None or attr is None:
            rep.bad('C01.o', 'DefaultSubscriber.%s / forwards to the call-back given for it' % name, f or init,
                    '__init__ does not keep the %s call-back' % name if attr is None else 'method missing')
            continue
        cb = ('attr', ('self',), attr)
        params = [('param', f.qualname, p) for p in f.params() if p != 'self']
        ok, detail = True, ''
        n_call = n_skip = 0
        for p in ctx.paths(f, k, inline_depth=0):
            given = None
            for e in p.events:
                if e.kind == 'cond':
                    kk = strip_epoch(e.data['key'])
                    if kk[0] == 'isnone' and kk[1] == cb:
                        given = not bool(e.data['value'])
                    elif kk[0] == 'truth' and kk[1] == cb:
                        given = bool(e.data['value'])
            calls = [e for e in p.events if e.kind == 'call' and strip_epoch(e.data.get('func_term') or ()) == cb or
                     e.kind == 'call' and e.data.get('name') == attr]
            others = [e for e in p.events if e.kind == 'call' and e not in calls and
                      e.data.get('name') in ('_on_next', '_on_error', '_on_complete', '_on_subscribe')]
            if others:
                ok, detail = False, 'the signal is handed to %s' % others[0].data.get('name')
            if given is None and name in defaults:
                # the call-back is never None: called unconditionally, and the default must take what it is given
                n_call += 1
                n_skip += 1
                lo, hi, star = defaults[name]
                if len(calls) != 1 or [strip_epoch(a.term) for a in calls[0].data['args']] != params:
                    ok, detail = False, 'the call-back is not called once with (%s)' % ', '.join(x[2] for x in params)
                elif not (lo <= len(params) and (star or len(params) <= hi)):
                    ok, detail = False, ('the no-op default takes %s argument(s) but is called with %d: every signal '
                                         'of a subscriber built without this call-back raises TypeError' % (
                                             lo if lo == hi else '%d..%d' % (lo, hi), len(params)))
            elif given is None:
                ok, detail = False, 'a path does not ask whether a call-back was given'
            elif given:
                n_call += 1
                if len(calls) != 1 or [strip_epoch(a.term) for a in calls[0].data['args']] != params:
                    ok, detail = False, 'the call-back is not called once with (%s)' % ', '.join(
                        x[2] for x in params)
            else:
                n_skip += 1
                if calls:
                    ok, detail = False, 'a call-back that was not given is called'
            if name == 'on_subscribe':
                st = [e for e in p.events if e.kind == 'store' and e.data['target'][0] == 'attr' and
                      e.data['target'][2] == 'subscription' and strip_epoch(e.data['value'].term) == params[0]]
                if not st:
                    ok, detail = False, 'on_subscribe does not keep the subscription on every path'
        rep.add('C01.o', 'DefaultSubscriber.%s / forwards to the call-back given for it' % name, f,
                ok and n_call > 0 and n_skip > 0, detail or 'self.%s(%s) iff it is not None' % (
                    attr, ', '.join(x[2] for x in params)))




def rule_responder_setup(ctx):
    """C01.p  A responder's publisher is connected to the wire: the set-up of the stream and channel responders (and of
    the channel requester) builds a StreamSubscriber for its own stream id and socket, keeps it, and - when there is a
    publisher - subscribes it to that publisher, exactly once, on every path."""
    rep = ctx.report
    repo = ctx.repo
    n = 0
    for q in ('rsocket.handlers.request_stream_responder:RequestStreamResponder',
              'rsocket.handlers.request_cahnnel_responder:RequestChannelResponder',
              'rsocket.handlers.request_channel_requester:RequestChannelRequester'):
        k = repo.cls(q)
        g = k.lookup('setup') if k is not None else None
        if g is None:
            raise AnalysisError('C01.p: %s.setup vanished' % q)
        n += 1
        ok, detail = True, ''
        n_sub = 0
        ps = [p for p in ctx.paths(g, k, inline_depth=2) if p.outcome == 'return']
        for p in ps:
            news = [e for e in p.events if e.kind == 'new' and e.data['cls'].name == 'StreamSubscriber']
            if len(news) != 1:
                ok, detail = False, '%d StreamSubscriber objects built' % len(news)
                continue
            args = [strip_epoch(a.term) for a in news[0].data.get('args', [])]
            if args[:2] != [('attr', ('self',), 'stream_id'), ('attr', ('self',), 'socket')]:
                ok, detail = False, 'the subscriber is not built for this handler\'s stream id and socket'
                continue
            obj = strip_epoch(news[0].data['value'].term)
            kept = [e for e in p.events if e.kind == 'store' and e.data['target'][0] == 'attr' and
                    strip_epoch(e.data['target'][1]) == ('self',) and strip_epoch(e.data['value'].term) == obj]
            if not kept:
                ok, detail = False, 'the subscriber is not kept on the handler'
            subs = [e for e in p.events if e.kind == 'call' and e.data.get('name') == 'subscribe' and
                    e.data.get('recv') is not None and strip_epoch(e.data['recv'].term)[0] == 'attr' and
                    strip_epoch(e.data['recv'].term)[1] == ('self',)]
            absent = [e for e in p.events if e.kind == 'cond' and strip_epoch(e.data['key'])[0] == 'isnone' and
                      'publisher' in repr(strip_epoch(e.data['key'])) and e.data['value']]
            if absent:
                if subs:
                    ok, detail = False, 'an absent publisher is subscribed'
                continue
            if len(subs) != 1 or [strip_epoch(a.term) for a in subs[0].data['args']] != [obj]:
                ok, detail = False, 'the publisher is not subscribed once with the stream\'s subscriber'
            else:
                n_sub += 1
        rep.add('C01.p', '%s.setup / the publisher is subscribed with this stream\'s subscriber' % k.name, g,
                ok and n_sub > 0, detail or 'StreamSubscriber(self.stream_id, self.socket, ...) kept and handed to '
                                            '<publisher>.subscribe on %d paths' % n_sub)
    rep.require('C01.p', 'handler set-ups', n, 3)




def rule_cache_entries(ctx):
    """(shared C03.j)  a payload being received in fragments is delivered whole: partial frames leave the reassembly cache
    only on their last fragment or with their stream (rules/c03.py)."""
    from .c03 import rule_cache_entries_leave_when_done as r
    r(ctx)



def rule_sender_writes_every_hand_out(ctx):
    """(shared C05.i)  Every frame or fragment the sender takes from the queue is written: a skipped last fragment leaves
    the peer with a partial frame, i.e. the payload is never delivered (rules/c05.py)."""
    from .c05 import rule_every_dequeued_frame_is_written
    rule_every_dequeued_frame_is_written(ctx)



RULES = [('C01.a', rule_a), ('C01.b', rule_b), ('C01.c', rule_c), ('C01.d', rule_e), ('C01.e', rule_f), ('C01.f', rule_g), ('C06.e', rule_h), ('C06.a', rule_i), ('C01.g', rule_j), ('C01.h', rule_k), ('C01.i+C02.e+C17.c+C05.g+C01.j', rule_l), ('C05.a+C05.f+C03.b+C03.c+C03.f', rule_d), ('C01.m', rule_balancer), ('C01.n', rule_pumps), ('C11.c', rule_dead_responders_silenced), ('C01.o', rule_default_subscriber), ('C01.p', rule_responder_setup), ('C03.j', rule_cache_entries), ('C05.i', rule_sender_writes_every_hand_out)]
