"""Argument binding at call sites of the library's own functions and constructors.

A value named after one parameter of the callee but bound, by position, to a *different* parameter is the static
shape of "two call sites that each look fine alone": a reordered parameter list whose positional callers were not
updated, or two arguments swapped at one site.  The rule resolves the callee (module function, class constructor,
`self.` / `super().` method through the MRO), binds positional and keyword arguments against its signature and
compares identifiers; a site is reported when an argument's own identifier is the name of a parameter of the callee
other than the one it is bound to and that other parameter is not bound to anything of its own name either.

This is a necessary condition (the payload / stream id / credit a caller holds reaches the parameter of that meaning),
not the behaviour."""
import ast

from .. import AnalysisError
from ..index import ClassInfo, FuncInfo, walk_local


def _ident(e):
    """identifier an argument expression is 'named' by: x, self.x, self._x, obj.x -> 'x'"""
    if isinstance(e, ast.Name):
        return e.id
    if isinstance(e, ast.Attribute):
        return e.attr
    return None


def _norm(s):
    return s.lstrip('_')


def _callee(repo, fn, call):
    """FuncInfo of the function a call runs, when it can be resolved statically; also whether the first parameter is
    bound implicitly."""
    f = call.func
    m = fn.module
    if isinstance(f, ast.Name):
        r = repo.resolve_name(m, f.id)
        if isinstance(r, ClassInfo):
            init = r.lookup('__init__')
            return (init, True) if init is not None else (None, False)
        if isinstance(r, list) and r and isinstance(r[0], FuncInfo):
            return r[-1], False
        return None, False
    if isinstance(f, ast.Attribute):
        if isinstance(f.value, ast.Name) and f.value.id == 'self' and fn.cls is not None:
            g = fn.cls.lookup(f.attr)
            if g is not None:
                # the most-derived definition is unknown statically: only accept when every override agrees on the
                # parameter names
                sigs = {tuple(a.arg for a in k.methods[f.attr].node.args.args)
                        for k in [fn.cls] + repo.subclasses(fn.cls) if f.attr in k.methods}
                sigs.add(tuple(a.arg for a in g.node.args.args))
                if len(sigs) == 1:
                    return g, True
            return None, False
        if isinstance(f.value, ast.Call) and isinstance(f.value.func, ast.Name) and f.value.func.id == 'super' and \
                fn.cls is not None:
            g = fn.cls.lookup_after(fn.cls, f.attr)
            return (g, True) if g is not None else (None, False)
        r = repo.resolve_expr(m, f, fn.cls)
        if isinstance(r, ClassInfo):
            init = r.lookup('__init__')
            return (init, True) if init is not None else (None, False)
        if isinstance(r, list) and r and isinstance(r[0], FuncInfo):
            g = r[-1]
            is_static = any(isinstance(d, ast.Name) and d.id in ('staticmethod',) for d in g.node.decorator_list)
            is_cls = any(isinstance(d, ast.Name) and d.id in ('classmethod',) for d in g.node.decorator_list)
            return g, (is_cls and True) or (g.cls is not None and not is_static and False)
    return None, False


def binding_sites(repo, prefixes):
    """[(caller FuncInfo, call node, callee FuncInfo, {param: arg expr})]"""
    out = []
    for fn in repo.all_functions():
        if not any(fn.qualname.startswith(p) for p in prefixes):
            continue
        for n in walk_local(fn.node):
            if not isinstance(n, ast.Call):
                continue
            if any(isinstance(a, ast.Starred) for a in n.args) or any(k.arg is None for k in n.keywords):
                continue
            g, implicit = _callee(repo, fn, n)
            if g is None:
                continue
            a = g.node.args
            names = [x.arg for x in a.posonlyargs + a.args]
            if implicit and names:
                names = names[1:]
            if len(n.args) > len(names) and a.vararg is None:
                continue  # not this callee
            bound = {}
            for name, arg in zip(names, n.args):
                bound[name] = arg
            kwnames = set(names) | {x.arg for x in a.kwonlyargs}
            for k in n.keywords:
                if k.arg in kwnames:
                    bound[k.arg] = k.value
            out.append((fn, n, g, bound, names))
    return out


def rule_argument_binding(ctx, rule, prefixes, label, minimum=40):
    rep = ctx.report
    sites = binding_sites(ctx.repo, prefixes)
    n_pos = 0
    bad = []
    for fn, call, g, bound, names in sites:
        pnames = {_norm(p): p for p in names}
        for p, arg in bound.items():
            ident = _ident(arg)
            if ident is None:
                continue
            n_pos += 1
            other = pnames.get(_norm(ident))
            if other is None or other == p:
                continue
            # the argument is named after parameter `other` but bound to `p`
            o_arg = bound.get(other)
            if o_arg is not None and _ident(o_arg) is not None and _norm(_ident(o_arg)) == _norm(other):
                continue  # `other` has its own namesake: a deliberate cross-wiring would be visible in review
            if _norm(p) in _norm(ident) or _norm(ident) in _norm(p):
                continue
            bad.append((fn, call, g, p, other, ast.unparse(arg)))
    if len(sites) < minimum:
        raise AnalysisError('%s: only %d resolved call sites in %s' % (rule, len(sites), label))
    seen = set()
    for fn, call, g, p, other, text in bad:
        key = (fn.qualname, g.qualname, p)
        if key in seen:
            continue
        seen.add(key)
        rep.bad(rule, '%s -> %s / argument named %s bound to %s' % (fn.short, g.short, other, p), (fn.file, call.lineno),
                '%s is passed where %s takes %r; the parameter %r it is named after is left to its default or to '
                'another value' % (text, g.short, p, other))
    rep.add(rule, '%s / arguments reach the parameter of their name' % label, None, not bad,
            '%d resolved call sites of library functions, %d named arguments: none is bound to a parameter other '
            'than the one it is named after' % (len(sites), n_pos) if not bad else
            '%d call sites bind a value to a differently named parameter' % len(bad))
