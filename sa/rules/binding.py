"""Argument binding at call sites of the library's own functions and constructors.

A value named after one parameter of the callee but bound, by position, to a *different* parameter is the static
shape of "two call sites that each look fine alone": a reordered parameter list whose positional callers were not
updated, or two arguments swapped at one site.  The rule resolves the callee (module function, class constructor,
`self.` / `super().` method through the MRO), binds positional and keyword arguments against its signature and
compares identifiers; a site is reported when an argument's own identifier is the name of a parameter of the callee
other than the one it is bound to and that other parameter is not bound to anything of its own name either.

This is a necessary condition (the payload / stream id / credit a caller holds reaches the parameter of that meaning),
not the behaviour."""
import ast

from .. import AnalysisError
from ..index import ClassInfo, FuncInfo, walk_local


def _ident(e):
    """identifier an argument expression is 'named' by: x, self.x, self._x, obj.x -> 'x'"""
    if isinstance(e, ast.Name):
        return e.id
    if isinstance(e, ast.Attribute):
        return e.attr
    return None


def _norm(s):
    return s.lstrip('_')


def _callee(repo, fn, call):
    """FuncInfo of the function a call runs, when it can be resolved statically; also whether the first parameter is
    bound implicitly."""
    f = call.func
    m = fn.module
    if isinstance(f, ast.Name):
        r = repo.resolve_name(m, f.id)
        if isinstance(r, ClassInfo):
            init = r.lookup('__init__')
            return (init, True) if init is not None else (None, False)
        if isinstance(r, list) and r and isinstance(r[0], FuncInfo):
            return r[-1], False
        return None, False
    if isinstance(f, ast.Attribute):
        if isinstance(f.value, ast.Name) and f.value.id == 'self' and fn.cls is not None:
            g = fn.cls.lookup(f.attr)
            if g is not None:
                # the most-derived definition is unknown statically: only accept when every override agrees on the
                # parameter names
                sigs = {tuple(a.arg for a in k.methods[f.attr].node.args.args)
                        for k in [fn.cls] + repo.subclasses(fn.cls) if f.attr in k.methods}
                sigs.add(tuple(a.arg for a in g.node.args.args))
                if len(sigs) == 1:
                    return g, True
            return None, False
        if isinstance(f.value, ast.Call) and isinstance(f.value.func, ast.Name) and f.value.func.id == 'super' and \
                fn.cls is not None:
            g = fn.cls.lookup_after(fn.cls, f.attr)
            return (g, True) if g is not None else (None, False)
        r = repo.resolve_expr(m, f, fn.cls)
        if isinstance(r, ClassInfo):
            init = r.lookup('__init__')
            return (init, True) if init is not None else (None, False)
        if isinstance(r, list) and r and isinstance(r[0], FuncInfo):
            g = r[-1]
            is_static = any(isinstance(d, ast.Name) and d.id in ('staticmethod',) for d in g.node.decorator_list)
            is_cls = any(isinstance(d, ast.Name) and d.id in ('classmethod',) for d in g.node.decorator_list)
            return g, (is_cls and True) or (g.cls is not None and not is_static and False)
    return None, False


def binding_sites(repo, prefixes):
    """[(caller FuncInfo, call node, callee FuncInfo, {param: arg expr})]"""
    out = []
    for fn in repo.all_functions():
        if not any(fn.qualname.startswith(p) for p in prefixes):
            continue
        for n in walk_local(fn.node):
            if not isinstance(n, ast.Call):
                continue
            if any(isinstance(a, ast.Starred) for a in n.args) or any(k.arg is None for k in n.keywords):
                continue
            g, implicit = _callee(repo, fn, n)
            if g is None:
                continue
            a = g.node.args
            names = [x.arg for x in a.posonlyargs + a.args]
            if implicit and names:
                names = names[1:]
            if len(n.args) > len(names) and a.vararg is None:
                continue  # not this callee
            bound = {}
            for name, arg in zip(names, n.args):
                bound[name] = arg
            kwnames = set(names) | {x.arg for x in a.kwonlyargs}
            for k in n.keywords:
                if k.arg in kwnames:
                    bound[k.arg] = k.value
            out.append((fn, n, g, bound, names))
    return out


def rule_argument_binding(ctx, rule, prefixes, label, minimum=40):
    rep = ctx.report
    sites = binding_sites(ctx.repo, prefixes)
    n_pos = 0
    bad = []
    for fn, call, g, bound, names in sites:
        pnames = {_norm(p): p for p in names}
        for p, arg in bound.items():
            ident = _ident(arg)
            if ident is None:
                continue
            n_pos += 1
            other = pnames.get(_norm(ident))
            if other is None or other == p:
                continue
            # the argument is named after parameter `other` but bound to `p`
            o_arg = bound.get(other)
            if o_arg is not None and _ident(o_arg) is not None and _norm(_ident(o_arg)) == _norm(other):
                continue  # `other` has its own namesake: a deliberate cross-wiring would be visible in review
            if _norm(p) in _norm(ident) or _norm(ident) in _norm(p):
                continue
            bad.append((fn, call, g, p, other, ast.unparse(arg)))
    if len(sites) < minimum:
        raise AnalysisError('%s: only %d resolved call sites in %s' % (rule, len(sites), label))
    seen = set()
    for fn, call, g, p, other, text in bad:
        key = (fn.qualname, g.qualname, p)
        if key in seen:
            continue
        seen.add(key)
        rep.bad(rule, '%s -> %s / argument named %s bound to %s' % (fn.short, g.short, other, p), (fn.file, call.lineno),
                '%s is passed where %s takes %r; the parameter %r it is named after is left to its default or to '
                'another value' % (text, g.short, p, other))
    rep.add(rule, '%s / arguments reach the parameter of their name' % label, None, not bad,
            '%d resolved call sites of library functions, %d named arguments: none is bound to a parameter other '
            'than the one it is named after' % (len(sites), n_pos) if not bad else
            '%d call sites bind a value to a differently named parameter' % len(bad))


# ------------------------------------------------------------------------------------------------ ignored arguments
def _is_log_call(call):
    t = ast.unparse(call.func)
    return t.startswith('logger()') or t.startswith('logging.') or t.startswith('log_')


def _used_names(fn):
    """names read in the body outside logging calls"""
    used = set()

    class V(ast.NodeVisitor):
        def __init__(self):
            self.inlog = 0

        def visit_Call(self, n):
            if _is_log_call(n):
                self.inlog += 1
                self.generic_visit(n)
                self.inlog -= 1
            else:
                self.generic_visit(n)

        def visit_Name(self, n):
            if isinstance(n.ctx, ast.Load) and not self.inlog:
                used.add(n.id)

    v = V()
    for st in fn.node.body:
        v.visit(st)
    return used


def _trivial(fn):
    if any('abstractmethod' in ast.unparse(d) for d in fn.node.decorator_list):
        return True
    stmts = [st for st in fn.node.body if not (isinstance(st, ast.Expr) and (
        isinstance(st.value, ast.Constant) or isinstance(st.value, ast.Call) and _is_log_call(st.value) or
        not any(isinstance(x, (ast.Name, ast.Attribute)) and not (isinstance(x, ast.Name) and x.id == 'len')
                for x in ast.walk(st.value))))]
    return not stmts or all(isinstance(st, (ast.Pass, ast.Raise)) for st in stmts)


def _method_families(repo, prefixes):
    """method name -> [FuncInfo] for methods defined in library classes"""
    fam = {}
    for k in repo.all_classes():
        if not any(k.qualname.startswith(p) for p in prefixes):
            continue
        for name, m in k.methods.items():
            fam.setdefault(name, []).append(m)
    return fam


def rule_no_ignored_argument(ctx, rule, prefixes, label, minimum=400):
    """A value a library call site passes is used by the function that receives it (outside log lines).  Methods
    called on a receiver of unknown class are resolved by name when every library definition of that name has the same
    parameter list; a parameter counts as ignored only when every non-trivial definition ignores it.  The frame
    logger's functions are exempt (their purpose is the log line)."""
    rep = ctx.report
    repo = ctx.repo
    fam = _method_families(repo, prefixes)
    sites = list(binding_sites(repo, prefixes))
    resolved = {(id(c)) for _, c, _, _, _ in sites}
    # loose resolution of obj.method(...) by name
    loose = []
    for fn in repo.all_functions():
        if not any(fn.qualname.startswith(p) for p in prefixes):
            continue
        for n in walk_local(fn.node):
            if not isinstance(n, ast.Call) or id(n) in resolved or not isinstance(n.func, ast.Attribute):
                continue
            if any(isinstance(a, ast.Starred) for a in n.args) or any(k.arg is None for k in n.keywords):
                continue
            defs = fam.get(n.func.attr)
            if not defs:
                continue
            sigs = {tuple(a.arg for a in d.node.args.args) for d in defs}
            if len(sigs) != 1:
                continue
            names = list(next(iter(sigs)))[1:]
            if len(n.args) > len(names):
                continue
            bound = dict(zip(names, n.args))
            for k in n.keywords:
                if k.arg in names:
                    bound[k.arg] = k.value
            loose.append((fn, n, defs, bound))
    checked = 0
    seen = set()
    bad = []
    for fn, call, g, bound, names in sites:
        impls = [g]
        if g.cls is not None and g.node.name in fam:
            impls = [d for d in fam[g.node.name] if d.cls is not None and (d.cls.is_subclass_of(g.cls) or
                                                                            g.cls.is_subclass_of(d.cls))] or [g]
        loose.append((fn, call, impls, bound))
    for fn, call, impls, bound in loose:
        real = [d for d in impls if not _trivial(d) and not d.qualname.startswith('rsocket.frame_logger')]
        if not real:
            continue
        # a parameter declared by an abstract method of an interface applications implement is part of that
        # contract whether or not the library's own implementations need it
        declared = [d for d in impls if _trivial(d)]
        if not declared and real[0].cls is not None:
            declared = [k.methods[real[0].node.name] for k in real[0].cls.mro()[1:]
                        if real[0].node.name in k.methods and _trivial(k.methods[real[0].node.name])]
        interface_params = {a.arg for d in declared for a in d.node.args.args}
        used = [(d, _used_names(d)) for d in real]
        for p, arg in bound.items():
            checked += 1
            if any(p in u for _, u in used):
                continue
            if p in interface_params:
                continue
            key = (real[0].qualname, p)
            if key in seen:
                continue
            seen.add(key)
            bad.append((fn, call, real[0], p, ast.unparse(arg)))
    if checked < minimum:
        raise AnalysisError('%s: only %d bound arguments examined in %s' % (rule, checked, label))
    for fn, call, g, p, text in bad:
        rep.bad(rule, '%s / parameter %s receives a value and ignores it' % (g.short, p), g,
                '%s passes %s (line %d) but %s never reads %s: what the caller says no longer influences the callee' % (
                    fn.short, text, call.lineno, g.short, p))
    rep.add(rule, '%s / every argument passed is read by the function that receives it' % label, None, not bad,
            '%d bound arguments at library call sites: each parameter that receives one is read outside log lines' %
            checked if not bad else '%d parameters receive a value that is ignored' % len(bad))


# ------------------------------------------------------------------------------------------------ coroutines run
# method names that objects from outside the library (generators, stream writers, queues, events, tasks, websockets)
# also have: a call on a receiver of unknown class is not taken for the library's method of that name
_FOREIGN_NAMES = {'close', 'aclose', 'cancel', 'send', 'get', 'put', 'wait', 'connect', 'write', 'read', 'drain',
                  'join', 'start', 'stop', 'run', 'set', 'clear', 'pop', 'append', 'extend', 'remove', 'add',
                  'update', 'receive', 'accept', 'throw', 'result', 'exception', 'done', 'subscribe', 'dispose'}


def rule_coroutines_run(ctx, rule, prefixes, label, minimum=60):
    """A call of one of the library's coroutine functions only creates the coroutine; the body runs when somebody awaits
    it.  Reported: such a call used as a statement (the coroutine is dropped), and `return <call>` inside another
    coroutine function (the caller's `await` then yields the inner coroutine object, un-run, instead of its result).
    Accepted: awaited; handed to create_task / ensure_future / gather / wait / wait_for / run_until_complete / shield;
    returned from a plain function (the caller awaits it); bound to a name or passed on as an argument (not followed).
    Callees are resolved as in the binding rule; a method called on a receiver of unknown class counts only when every
    library definition of that name is a coroutine function."""
    rep = ctx.report
    repo = ctx.repo
    fam = _method_families(repo, prefixes)
    n_calls = 0
    bad = []
    for fn in repo.all_functions():
        if not any(fn.qualname.startswith(p) for p in prefixes):
            continue
        parents = {}
        for a in ast.walk(fn.node):
            for b in ast.iter_child_nodes(a):
                parents[b] = a
        for n in walk_local(fn.node):
            if not isinstance(n, ast.Call):
                continue
            g, _ = _callee(repo, fn, n)
            defs = None
            if g is not None:
                defs = [g]
                if g.cls is not None and g.node.name in fam:
                    # overrides may differ: count only when all of them are coroutine functions
                    defs = [d for d in fam[g.node.name] if d.cls is not None and (
                        d.cls.is_subclass_of(g.cls) or g.cls.is_subclass_of(d.cls))] or [g]
            elif isinstance(n.func, ast.Attribute) and n.func.attr in fam and n.func.attr not in _FOREIGN_NAMES:
                defs = fam[n.func.attr]
            if not defs:
                continue
            if not all(d.is_async and not d.has_yield() for d in defs):
                continue
            n_calls += 1
            par = parents.get(n)
            if isinstance(par, ast.Expr):
                bad.append((fn, n, defs[0], 'is called as a statement: the coroutine is created and dropped, its body '
                                            'never runs'))
            elif isinstance(par, ast.Return) and fn.is_async and not fn.has_yield():
                bad.append((fn, n, defs[0], 'is returned un-awaited from a coroutine function: the caller\'s await '
                                            'yields a coroutine object, the body never runs'))
    if n_calls < minimum:
        raise AnalysisError('%s: only %d calls of library coroutine functions found in %s' % (rule, n_calls, label))
    seen = set()
    for fn, call, g, why in bad:
        key = (fn.qualname, g.node.name)
        if key in seen:
            continue
        seen.add(key)
        rep.bad(rule, '%s / coroutine of %s' % (fn.short, g.node.name), (fn.file, call.lineno),
                '%s(...) %s' % (ast.unparse(call.func), why))
    rep.add(rule, '%s / every coroutine the library creates is run' % label, None, not bad,
            '%d calls of library coroutine functions: none is dropped as a statement or returned un-awaited from a '
            'coroutine' % n_calls if not bad else '%d coroutines are created and never run' % len(bad))


# ------------------------------------------------------------------------------------------------ dispatch tables
def _arity(fn, bound_method):
    a = fn.node.args
    names = [x.arg for x in a.posonlyargs + a.args]
    if bound_method and names:
        names = names[1:]
    required = len(names) - len(a.defaults)
    return max(required, 0), (None if a.vararg is not None else len(names))


def rule_dispatch_table_arity(ctx, rule, prefixes, label, minimum=2):
    """Functions kept in a dispatch table (a dict literal whose values are functions or bound methods) are called
    through the table with one argument list: every function in the table - and the default handed to .get() - must
    accept that many positional arguments.  A handler with another signature put into the table raises TypeError only
    for the key it is stored under (for the frame logger: only for the undecodable-frame marker, and only when debug
    logging is on - inside the receive loop)."""
    rep = ctx.report
    repo = ctx.repo
    n_tables = 0
    n_sites = 0
    bad = []
    for mod in repo.modules.values():
        if not any(mod.name.startswith(p) for p in prefixes):
            continue
        fns = [f for f in repo.all_functions() if f.module is mod]
        # tables: name -> [(value expr, FuncInfo, bound?)], from module level and from function bodies
        tables = {}
        scopes = [(None, mod.tree if hasattr(mod, 'tree') else None)] + [(f, f.node) for f in fns]
        for owner, node in scopes:
            if node is None:
                continue
            body_nodes = node.body if owner is None else list(walk_local(node))
            for st in body_nodes:
                if isinstance(st, (ast.Assign, ast.AnnAssign)) and isinstance(getattr(st, 'value', None), ast.Dict):
                    tgt = st.targets[0] if isinstance(st, ast.Assign) else st.target
                    if not isinstance(tgt, ast.Name) or len(st.value.values) < 2:
                        continue
                    entries = []
                    for v in st.value.values:
                        g = None
                        bound = False
                        if isinstance(v, ast.Name):
                            r = repo.resolve_name(mod, v.id)
                            if isinstance(r, list) and r and isinstance(r[0], FuncInfo):
                                g = r[-1]
                        elif isinstance(v, ast.Attribute) and isinstance(v.value, ast.Name) and v.value.id == 'self' \
                                and owner is not None and owner.cls is not None:
                            g = owner.cls.lookup(v.attr)
                            bound = True
                        if g is None:
                            entries = None
                            break
                        entries.append((v, g, bound))
                    if entries:
                        tables[tgt.id] = entries
        if not tables:
            continue
        n_tables += len(tables)
        # a table built in one method and handed on as an argument is known in the callee under the parameter's name
        alias = {}   # (callee qualname, parameter name) -> table name
        owners = {}
        for owner, node in scopes:
            if owner is None or node is None:
                continue
            for st in walk_local(node):
                if isinstance(st, (ast.Assign, ast.AnnAssign)) and isinstance(getattr(st, 'value', None), ast.Dict):
                    tgt = st.targets[0] if isinstance(st, ast.Assign) else st.target
                    if isinstance(tgt, ast.Name) and tgt.id in tables:
                        owners[tgt.id] = owner
        work = [(owner, tname, tname) for tname, owner in owners.items()]
        depth = 0
        while work and depth < 4:
            depth += 1
            nxt = []
            for fn_, local_name, tname in work:
                for c in walk_local(fn_.node):
                    if not (isinstance(c, ast.Call) and isinstance(c.func, ast.Attribute) and
                            isinstance(c.func.value, ast.Name) and c.func.value.id == 'self' and fn_.cls is not None):
                        continue
                    g = fn_.cls.lookup(c.func.attr)
                    if g is None:
                        continue
                    params = g.params()[1:]
                    for i_, a in enumerate(c.args):
                        if isinstance(a, ast.Name) and a.id == local_name and i_ < len(params):
                            key = (g.qualname, params[i_])
                            if key not in alias:
                                alias[key] = tname
                                nxt.append((g, params[i_], tname))
            work = nxt
        for f in fns:
            local_tables = dict((k, k) for k in tables if k not in owners or owners[k] is f)
            for (q, pname), tname in alias.items():
                if q == f.qualname:
                    local_tables[pname] = tname
            single = {}
            for st in walk_local(f.node):
                if isinstance(st, ast.Assign) and len(st.targets) == 1 and isinstance(st.targets[0], ast.Name):
                    single.setdefault(st.targets[0].id, []).append(st.value)

            def table_lookup(e):
                """(table name, default expr) when e looks an entry up in a known table"""
                if isinstance(e, ast.Subscript) and isinstance(e.value, ast.Name) and e.value.id in local_tables:
                    return local_tables[e.value.id], None
                if isinstance(e, ast.Call) and isinstance(e.func, ast.Attribute) and e.func.attr == 'get' and \
                        isinstance(e.func.value, ast.Name) and e.func.value.id in local_tables:
                    return local_tables[e.func.value.id], (e.args[1] if len(e.args) > 1 else None)
                return None

            for c in walk_local(f.node):
                if not isinstance(c, ast.Call):
                    continue
                look = table_lookup(c.func)
                if look is None and isinstance(c.func, ast.Name) and len(single.get(c.func.id, [])) == 1:
                    look = table_lookup(single[c.func.id][0])
                if look is None:
                    continue
                if any(isinstance(a, ast.Starred) for a in c.args) or any(k.arg is None for k in c.keywords):
                    continue
                n_sites += 1
                npos = len(c.args)
                tname, default = look
                cands = list(tables[tname])
                if isinstance(default, ast.Name):
                    r = repo.resolve_name(mod, default.id)
                    if isinstance(r, list) and r and isinstance(r[0], FuncInfo):
                        cands.append((default, r[-1], False))
                for v, g, bound in cands:
                    lo, hi = _arity(g, bound)
                    if npos < lo or (hi is not None and npos > hi):
                        bad.append((f, c, tname, g, npos, lo, hi))
    if n_tables < minimum or n_sites < minimum:
        raise AnalysisError('%s: %d dispatch tables / %d call sites found in %s' % (rule, n_tables, n_sites, label))
    seen = set()
    for f, c, tname, g, npos, lo, hi in bad:
        key = (tname, g.qualname)
        if key in seen:
            continue
        seen.add(key)
        rep.bad(rule, '%s[%s] / called with %d arguments' % (tname, g.node.name, npos), (f.file, c.lineno),
                '%s calls the entry of %s with %d positional arguments; %s, stored in the table, takes %s: TypeError '
                'for the key it is stored under' % (f.short, tname, npos, g.short,
                                                    '%d' % lo if lo == hi else 'between %d and %s' % (lo, hi)))
    rep.add(rule, '%s / dispatch tables and their call sites agree' % label, None, not bad,
            '%d tables, %d calls through them: every stored function accepts the arguments passed' % (
                n_tables, n_sites) if not bad else '%d stored functions do not fit their table\'s call' % len(bad))


# ------------------------------------------------------------------------------------------------ memoised factories
CACHING_DECORATORS = ('lru_cache', 'cache', 'cached', 'memoize', 'memoized')


def rule_no_memoised_factories(ctx, rule, prefixes, label):
    """A function that builds and returns an object of a library class hands out a new object per call: publishers,
    subscribers, adapters and handlers carry per-subscription state (the subscriber, the credit channel, counters).
    Decorated with a memoising decorator, equal arguments get the same object back, and two interactions share - and
    overwrite - that state.  Expected count on a healthy tree: zero; the registered variants keep the rule alive."""
    rep = ctx.report
    repo = ctx.repo
    from ..astutil import returned_exprs
    n = 0
    bad = []
    for fn in repo.all_functions():
        if not any(fn.qualname.startswith(p) for p in prefixes):
            continue
        n += 1
        decos = [ast.unparse(d) for d in fn.node.decorator_list]
        memo = [d for d in decos if d.split('(')[0].split('.')[-1] in CACHING_DECORATORS]
        if not memo:
            continue
        builds = []
        for r in returned_exprs(fn.node):
            for c in ast.walk(r):
                if isinstance(c, ast.Call):
                    t = repo.resolve_expr(fn.module, c.func, fn.cls)
                    if isinstance(t, ClassInfo):
                        builds.append(t.name)
        if builds:
            bad.append((fn, memo[0], builds[0]))
    if n < 400:
        raise AnalysisError('%s: only %d functions scanned in %s' % (rule, n, label))
    for fn, d, cls in bad:
        rep.bad(rule, '%s / memoised constructor of %s' % (fn.short, cls), fn,
                '@%s makes %s return the same %s object for equal arguments: interactions that overlap in time share '
                'its per-subscription state' % (d, fn.short, cls))
    rep.add(rule, '%s / factories hand out a new object per call' % label, None, not bad,
            '%d functions scanned: none that builds a library object is memoised' % n if not bad else
            '%d memoised factories' % len(bad))
