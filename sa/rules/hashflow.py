"""Mutable wire buffers never become dictionary keys.

What the frame parser hands the codecs is a `bytearray` (FrameParser accumulates the stream in one) and every slice of
a bytearray is a bytearray again.  A bytearray is unhashable: looking one up in a table (`table.get(name)`,
`table[name]`, `name in table`) raises TypeError.  The names a metadata parser hands back (custom MIME types,
authentication types) are looked up in the well-known tables when the item is encoded again, and in the item
registries while parsing, so a name that is still a raw slice makes decode-then-encode fail although decoding worked.

Decided by a field-based, flow-insensitive taint analysis over the syntax trees of the library:
  sources     the buffer parameter (annotated bytes / ByteTypes / bytearray / memoryview) of a function or method whose
              name starts with parse / unpack / _parse, every slice of it, bytearray(...) and memoryview(...);
  propagation assignments, tuple unpacking, return values (per tuple position), arguments to the repository's own
              functions (also through a function-valued parameter, resolved at the call sites of the enclosing
              function), attribute stores (by attribute name; by class too where the receiver is self), list.append / extend / list displays (a collection of
              buffers; indexing it gives a buffer);
  sanitisers  bytes(x), x.decode(...), str(...), int.from_bytes, len, struct unpacking: every call that is not a
              repository function and not bytearray / memoryview yields an untainted value; indexing a buffer gives an
              int;
  sinks       the key of `d.get(k)`, `d[k]`, `k in d`, `{k: ...}`, `s.add(k)`, hash(k) with d a table (a name or
              attribute whose value is not itself a buffer).
A buffer reaching a sink is reported with the chain of constructs it travelled through.  The rule decides the
structural part - no path from a wire slice to a hash without an immutable copy - and not the byte-for-byte equality of
the round trip."""
import ast

from .. import AnalysisError
from ..index import walk_local, ClassInfo

BUF, COLL = 'buf', 'coll'
BUFFER_ANNOTATIONS = ('bytes', 'ByteTypes', 'bytearray', 'memoryview')
PARSE_PREFIXES = ('parse', '_parse', 'unpack')
SCOPE = ('rsocket.', 'reactivestreams.')
SKIP = ('rsocket.cli',)


def _is_buffer_param(f, arg):
    if arg.annotation is None:
        return False
    text = ast.unparse(arg.annotation)
    return any(a in text for a in BUFFER_ANNOTATIONS)


class V:
    """An abstract value: kind (BUF / COLL), chain (how a wire buffer got here; None when it is a buffer only if one
    of the enclosing function's parameters is), deps (those parameters)."""
    __slots__ = ('kind', 'chain', 'deps')

    def __init__(self, kind, chain=None, deps=frozenset()):
        self.kind, self.chain, self.deps = kind, chain, frozenset(deps)

    @property
    def real(self):
        return self.chain is not None

    def key(self):
        return (self.kind, self.chain is not None, self.deps)

    def via(self, step):
        return V(self.kind, self.chain + [step] if self.chain is not None else None, self.deps)

    def as_kind(self, kind):
        return V(kind, self.chain, self.deps)


def join(a, b):
    if a is None:
        return b
    if b is None:
        return a
    kind = COLL if COLL in (a.kind, b.kind) else BUF
    return V(kind, a.chain if a.chain is not None else b.chain, a.deps | b.deps)


class HashFlow:
    def __init__(self, repo):
        self.repo = repo
        self.funcs = [f for f in repo.all_functions() if f.module.name.startswith(SCOPE) and
                      not f.module.name.startswith(SKIP)]
        self.funcset = set(self.funcs)
        self.attr = {}  # (owner class or None, attribute name) -> V (real only)
        self.param = {}  # (func, param name) -> V (real only): some call site passes a wire buffer
        self.ret = {}  # (func, index or None) -> V (real and / or depending on parameters)
        self.fparam = {}  # (func, param name) -> set of FuncInfo bound at call sites
        self.sinks = {}  # (func, text) -> (node, chain)
        self.sources = 0
        self.source = {}
        self._seed()
        self._bind_function_arguments()
        for _ in range(20):
            before = self._size()
            for f in self.funcs:
                self._function(f)
            if before == self._size():
                break
        else:
            raise AnalysisError('hashflow: no fixpoint after 20 rounds')

    def _size(self):
        return (sorted((str(k), v.key()) for k, v in self.attr.items()), len(self.param),
                sorted((k[0].qualname, str(k[1]), v.key()) for k, v in self.ret.items()), len(self.sinks))

    # ------------------------------------------------------------------ sources
    def _seed(self):
        for f in self.funcs:
            if not f.name.startswith(PARSE_PREFIXES):
                continue
            a = f.node.args
            for arg in a.posonlyargs + a.args + a.kwonlyargs:
                if arg.arg in ('self', 'cls'):
                    continue
                if _is_buffer_param(f, arg):
                    self.param[(f, arg.arg)] = V(BUF, ['%s(%s: wire buffer)' % (f.qualname.split(':')[-1], arg.arg)])
                    self.source[(f, arg.arg)] = self.param[(f, arg.arg)]
                    self.sources += 1

    def _bind_function_arguments(self):
        """Which functions are passed for a function-valued parameter (encoding_name_provider=..., get_by_name)."""
        for _ in range(3):
            for f in self.funcs:
                for n in walk_local(f.node):
                    if not isinstance(n, ast.Call):
                        continue
                    for g in self._targets(f, n.func):
                        for pname, e in self._bound(g, n):
                            if isinstance(e, (ast.Name, ast.Attribute)):
                                for h in self._targets(f, e):
                                    self.fparam.setdefault((g, pname), set()).add(h)

    @staticmethod
    def _bound(g, n):
        names = list(g.params())
        if g.cls is not None and names and names[0] in ('self', 'cls'):
            names = names[1:]
        return list(zip(names, n.args)) + [(k.arg, k.value) for k in n.keywords if k.arg]

    def _targets(self, f, e):
        """Repository functions an expression used as a callee can denote."""
        if not isinstance(e, (ast.Name, ast.Attribute)):
            return []
        if isinstance(e, ast.Name) and (f, e.id) in self.fparam:
            return list(self.fparam[(f, e.id)])
        if isinstance(e, ast.Attribute) and isinstance(e.value, ast.Name) and e.value.id in ('self', 'cls') and \
                f.cls is not None:
            g = f.cls.lookup(e.attr)
            if g is not None:
                return [g]
        try:
            t = self.repo.resolve_expr(f.module, e)
        except Exception:
            t = None
        if isinstance(t, list):
            return t[-1:]
        if isinstance(t, ClassInfo):
            g = t.lookup('__init__')
            return [g] if g is not None else []
        if isinstance(e, ast.Attribute) and isinstance(e.value, ast.Call) and isinstance(e.value.func, ast.Name) and \
                e.value.func.id == 'super' and f.cls is not None:
            for k in f.cls.mro()[1:]:
                if e.attr in k.methods:
                    return [k.methods[e.attr]]
            return []
        if isinstance(e, ast.Attribute) and t is None and not e.attr.startswith('__'):
            # a method called on a value of unknown class: every method of that name in scope
            return [g for g in self.funcs if g.name == e.attr and g.cls is not None][:12]
        return []

    # ------------------------------------------------------------------ one function
    def _function(self, f):
        # pass A: parameters stand for themselves (and for the wire where they are a source): the summary of what the
        # function returns; pass B: parameters as any call site may bind them: stores, arguments, sinks
        self._pass(f, summary=True)
        self._pass(f, summary=False)

    def _pass(self, f, summary):
        env = {'<summary>': summary} if summary else {}
        a = f.node.args
        for arg in a.posonlyargs + a.args + a.kwonlyargs + ([a.vararg] if a.vararg else []):
            if arg.arg in ('self', 'cls'):
                continue
            text = ast.unparse(arg.annotation) if arg.annotation is not None else ''
            kind = COLL if any(w in text for w in ('List', 'Iterable', 'Sequence', 'Tuple', 'Set')) or \
                arg is a.vararg else BUF
            real = self.source.get((f, arg.arg)) if summary else self.param.get((f, arg.arg))
            env[arg.arg] = V(real.kind if real else kind, real.chain if real else None, {arg.arg})
        changed = True
        rounds = 0
        while changed and rounds < 10:
            rounds += 1
            changed = False
            for n in walk_local(f.node):
                if isinstance(n, ast.Assign):
                    for t in n.targets:
                        changed |= self._assign(f, env, t, n.value)
                elif isinstance(n, ast.AnnAssign) and n.value is not None:
                    changed |= self._assign(f, env, n.target, n.value)
                elif isinstance(n, ast.AugAssign):
                    v = self._taint(f, env, n.value)
                    if v:
                        changed |= self._store(f, env, n.target, v)
                elif isinstance(n, (ast.For, ast.AsyncFor)):
                    v = self._taint(f, env, n.iter)
                    if v and v.kind == COLL:
                        changed |= self._store(f, env, n.target, v.as_kind(BUF))
                elif isinstance(n, ast.comprehension):
                    v = self._taint(f, env, n.iter)
                    if v and v.kind == COLL:
                        changed |= self._store(f, env, n.target, v.as_kind(BUF))
                elif isinstance(n, ast.Call) and isinstance(n.func, ast.Attribute) and \
                        n.func.attr in ('append', 'extend', 'insert') and n.args:
                    v = self._taint(f, env, n.args[-1])
                    if v:
                        changed |= self._store(f, env, n.func.value, v.as_kind(COLL).via('%s(...)' % n.func.attr))
                elif isinstance(n, ast.Return) and n.value is not None and summary:
                    if isinstance(n.value, ast.Tuple):
                        for i, e in enumerate(n.value.elts):
                            changed |= self._returns(f, i, self._taint(f, env, e))
                    else:
                        changed |= self._returns(f, None, self._taint(f, env, n.value))
                if isinstance(n, ast.Call) and not summary:
                    changed |= self._call_arguments(f, env, n)
        if not summary:
            self._sinks(f, env)

    def _returns(self, f, idx, v):
        if v is None:
            return False
        old = self.ret.get((f, idx))
        if v.real:
            v = v.via('returned by %s%s' % (f.name, '' if idx is None else ' [%d]' % idx))
        new = join(old, v)
        if old is None or new.key() != old.key():
            self.ret[(f, idx)] = new
            return True
        return False

    def _assign(self, f, env, target, value):
        if isinstance(target, (ast.Tuple, ast.List)):
            changed = False
            if isinstance(value, (ast.Tuple, ast.List)) and len(value.elts) == len(target.elts):
                for t, v in zip(target.elts, value.elts):
                    changed |= self._assign(f, env, t, v)
                return changed
            if isinstance(value, ast.Call):
                for i, t in enumerate(target.elts):
                    v = self._call_result(f, env, value, i)
                    if v:
                        changed |= self._store(f, env, t, v)
                return changed
            return False
        v = self._taint(f, env, value)
        if not v:
            return False
        return self._store(f, env, target, v)

    def _store(self, f, env, target, v):
        if isinstance(target, ast.Name):
            old = env.get(target.id)
            new = join(old, v)
            if old is None or new.key() != old.key():
                env[target.id] = new
                return True
            return False
        if isinstance(target, ast.Attribute):
            if not v.real or env.get('<summary>'):
                return False
            owner = f.cls if isinstance(target.value, ast.Name) and target.value.id in ('self', 'cls') else None
            k = (owner, target.attr)
            old = self.attr.get(k)
            if old is None or (old.kind == BUF and v.kind == COLL):
                self.attr[k] = V(v.kind if old is None else COLL,
                                 v.chain + ['stored in .%s (%s)' % (target.attr, f.qualname.split(':')[-1])])
                return True
            return False
        if isinstance(target, ast.Subscript):
            return self._store(f, env, target.value, v.as_kind(COLL))
        if isinstance(target, ast.Starred):
            return self._store(f, env, target.value, v)
        return False

    def _call_arguments(self, f, env, n):
        changed = False
        for g in self._targets(f, n.func):
            if g not in self.funcset:
                continue
            for pname, e in self._bound(g, n):
                v = self._taint(f, env, e)
                if v and v.real and (g, pname) not in self.param:
                    self.param[(g, pname)] = V(v.kind, v.chain + ['passed to %s(%s)' % (g.name, pname)])
                    changed = True
        return changed

    def _call_result(self, f, env, e, idx):
        out = None
        for g in self._targets(f, e.func):
            s = self.ret.get((g, idx))
            if s is None:
                continue
            if s.real:
                out = join(out, V(s.kind, s.chain))
            if s.deps:
                bound = dict(self._bound(g, e))
                for p in s.deps:
                    if p in bound:
                        v = self._taint(f, env, bound[p])
                        if v:
                            out = join(out, V(s.kind, v.chain + ['through %s()' % g.name] if v.real else None, v.deps))
        return out

    # ------------------------------------------------------------------ expressions
    def _taint(self, f, env, e):
        if isinstance(e, ast.Name):
            return env.get(e.id)
        if isinstance(e, ast.Attribute):
            # by attribute name, and by class where the receiver is self: SetupFrame.data_encoding is not
            # StreamDataMimetype.data_encoding
            reader = f.cls if isinstance(e.value, ast.Name) and e.value.id in ('self', 'cls') else None
            for (owner, attr), v in self.attr.items():
                if attr != e.attr:
                    continue
                if owner is None or reader is None or owner is reader or owner.is_subclass_of(reader) or \
                        reader.is_subclass_of(owner):
                    return v
            return None
        if isinstance(e, ast.Subscript):
            base = self._taint(f, env, e.value)
            if not base:
                return None
            if isinstance(e.slice, ast.Slice):
                return base
            return base.as_kind(BUF) if base.kind == COLL else None
        if isinstance(e, ast.Call):
            fn = e.func
            if isinstance(fn, ast.Name) and fn.id in ('bytearray', 'memoryview'):
                return V(BUF, ['%s(...) in %s' % (fn.id, f.qualname.split(':')[-1])])
            if isinstance(fn, ast.Name) and fn.id in ('list', 'tuple', 'sorted', 'reversed') and e.args:
                return self._taint(f, env, e.args[0])
            return self._call_result(f, env, e, None)
        if isinstance(e, ast.IfExp):
            return join(self._taint(f, env, e.body), self._taint(f, env, e.orelse))
        if isinstance(e, ast.BoolOp):
            out = None
            for x in e.values:
                out = join(out, self._taint(f, env, x))
            return out
        if isinstance(e, ast.BinOp) and isinstance(e.op, ast.Add):
            # bytes + bytearray -> bytes; bytearray + x -> bytearray: the left operand decides
            return self._taint(f, env, e.left)
        if isinstance(e, (ast.List, ast.Tuple, ast.Set)):
            out = None
            for x in e.elts:
                out = join(out, self._taint(f, env, x))
            return out.as_kind(COLL) if out else None
        if isinstance(e, (ast.ListComp, ast.GeneratorExp, ast.SetComp)):
            v = self._taint(f, env, e.elt)
            return v.as_kind(COLL) if v else None
        if isinstance(e, (ast.Await, ast.NamedExpr, ast.Starred)):
            return self._taint(f, env, e.value)
        return None

    # ------------------------------------------------------------------ sinks
    def _sinks(self, f, env):
        def hit(node, key, how):
            v = self._taint(f, env, key)
            if v and v.real and v.kind == BUF:
                k = (f, ast.unparse(node))
                if k not in self.sinks:
                    self.sinks[k] = (node, v.chain + [how])

        where = f.qualname.split(':')[-1]
        for n in walk_local(f.node):
            if isinstance(n, ast.Call) and isinstance(n.func, ast.Attribute) and n.args:
                if n.func.attr in ('get', 'setdefault', 'pop') and not self._taint(f, env, n.func.value):
                    hit(n, n.args[0], 'looked up with .%s() in %s' % (n.func.attr, where))
                elif n.func.attr in ('add', 'discard') and not self._taint(f, env, n.func.value):
                    hit(n, n.args[0], 'put in a set in %s' % where)
            elif isinstance(n, ast.Call) and isinstance(n.func, ast.Name) and n.func.id == 'hash' and n.args:
                hit(n, n.args[0], 'hashed in %s' % where)
            elif isinstance(n, ast.Subscript) and not isinstance(n.slice, ast.Slice) and \
                    not self._taint(f, env, n.value):
                hit(n, n.slice, 'used as the key of %s in %s' % (ast.unparse(n.value), where))
            elif isinstance(n, ast.Dict):
                for k in n.keys:
                    if k is not None:
                        hit(n, k, 'used as a key of a dict display in %s' % where)
            elif isinstance(n, ast.Compare) and len(n.ops) == 1 and isinstance(n.ops[0], (ast.In, ast.NotIn)):
                right = n.comparators[0]
                # `x in <table>`: only a module-level dict / set; `x in buffer` is a substring test
                if isinstance(right, ast.Name) and f.module.assigns.get(right.id) and isinstance(
                        f.module.assigns[right.id][-1], (ast.Dict, ast.Set)):
                    hit(n, n.left, 'tested for membership in %s in %s' % (right.id, where))


def hashflow(ctx):
    if 'hashflow' not in ctx.cache:
        ctx.cache['hashflow'] = HashFlow(ctx.repo)
    return ctx.cache['hashflow']


def rule_no_buffer_is_hashed(ctx, rule, modules=None):
    """`modules`: restrict the reported sinks to functions of these module prefixes (None: all)."""
    rep = ctx.report
    hf = hashflow(ctx)
    rep.require(rule, 'wire-buffer parameters of parse functions', hf.sources, 20)
    rep.require(rule, 'attributes, parameters and results carrying a wire buffer', len(hf.attr) + len(hf.param) +
                len(hf.ret), 30)
    n = 0
    for (f, text), (node, chain) in sorted(hf.sinks.items(), key=lambda kv: (kv[0][0].qualname, kv[0][1])):
        if modules and not f.module.name.startswith(tuple(modules)):
            continue
        n += 1
        rep.bad(rule, '%s / %s hashes a wire buffer' % (f.qualname.split(':')[-1], text), f,
                'a slice of the received bytes (a bytearray on the wire path) reaches a table lookup without an '
                'immutable copy: TypeError unhashable type. Flow: %s' % ' -> '.join(chain))
    if n == 0:
        rep.ok(rule, 'wire buffers / none reaches a table lookup', ctx.repo.module('rsocket.helpers').functions['parse_well_known_encoding'][-1],
               '%d buffer parameters, %d tainted attributes, %d tainted parameters, %d tainted results; no tainted key' % (
                   hf.sources, len(hf.attr), len(hf.param), len(hf.ret)))
