"""Contracts of the small socket-level functions that the other rules rely on by name.

The handler and protocol rules follow calls into `RSocketBase` (most are inlined), but several helpers are looked at
only at their call sites: "the close sequence calls `_fail_unsent_frames`", "the sender calls `_before_sender`",
"`send_error` answers on the frame's stream".  Each rule here decides what such a helper actually does, on every
enumerated path, so that the caller-side rules mean what they say.  Every rule takes the rule id under which it is
reported, because each is shared by the property that depends on it."""
import ast

from .. import AnalysisError
from ..effects import strip_epoch, recv_attr, is_enq_send, is_resolve
from ..index import walk_local
from ..interp import AVal, fmt_term, const


# ----------------------------------------------------------------------------------------------- queue traces
def queue_ops(p, qattr):
    """Operations on `self.<qattr>` along a path: ('E', emptiness observed: bool, ev), ('D', None, ev) dequeue,
    ('P', None, ev) enqueue."""
    out = []
    for e in p.events:
        if e.kind == 'cond' and e.data['key'][0] == 'truth':
            t = strip_epoch(e.data['key'][1])
            if t[0] == 'pure' and t[1] == 'empty' and _attr_of(t[2]) == qattr:
                out.append(('E', e.data['value'], e))
        elif e.kind == 'call' and recv_attr(e) == qattr:
            if e.data.get('name') in ('get_nowait', 'get'):
                out.append(('D', None, e))
            elif e.data.get('name') in ('put_nowait', 'put'):
                out.append(('P', None, e))
    return out


def _attr_of(term):
    t = strip_epoch(term)
    if isinstance(t, tuple) and t and t[0] == 'attr':
        return t[2]
    return None


def call_results(p, name):
    """[(enter event, exit event, returned AVal or None)] for the inlined calls of `name` along the path."""
    out = []
    stack = []
    for e in p.events:
        if e.kind == 'enter':
            stack.append([e, None])
        elif e.kind == 'return' and stack:
            if e.depth == stack[-1][0].depth + 1:
                stack[-1][1] = e.data.get('value')
        elif e.kind == 'exit' and stack:
            en, val = stack.pop()
            if en.data['callee'].name == name:
                out.append((en, e, val))
    return out


def drain_discipline(p, qattr, allow_results=None):
    """-> (ok, reason).  Every dequeue is preceded, since the previous dequeue, by an observation that the queue is
    not empty; a path that returns has last observed the queue empty (or, with allow_results = [(seq, bool)], a
    refusal after the last dequeue)."""
    ops = queue_ops(p, qattr)
    last_e = None
    last_d_seq = -1
    for kind, val, ev in ops:
        if kind == 'E':
            last_e = val
        elif kind == 'D':
            if last_e is not False:
                return False, 'an element is taken from %s (line %s) without the queue being known non-empty' % (
                    qattr, ev.line)
            if allow_results is not None:
                oks = [v for s, v in allow_results if last_d_seq < s < ev.seq]
                if not oks or oks[-1] is not True:
                    return False, 'an element is taken from %s (line %s) without a granted allowance' % (
                        qattr, ev.line)
            last_e = None
            last_d_seq = ev.seq
    if p.outcome == 'return':
        refused = allow_results is not None and any(v is False for s, v in allow_results if s > last_d_seq)
        if last_e is not True and not refused:
            return False, 'the loop over %s can end while the queue is not known to be empty' % qattr
    return True, ''


# ----------------------------------------------------------------------------------------------- rules
def rule_lease_drain(ctx, rule):
    """handle_lease releases held requests: while (not empty and allowed): send(dequeue)."""
    rep = ctx.report
    slots = ctx.slots
    f = ctx.repo.func('rsocket.rsocket_base:RSocketBase.handle_lease')
    q = slots.request_queue_attr
    ps = ctx.paths(f, slots.RSocketClient, inline_depth=4)
    ok = True
    detail = ''
    n_deq = 0
    for p in ps:
        if p.outcome not in ('return', 'cut'):
            continue
        res = []
        for en, ex, val in call_results(p, 'is_request_allowed'):
            res.append((ex.seq, val.const if val is not None and val.is_const() else None))
        for e in p.events:
            if e.kind == 'call' and e.data.get('name') == 'is_request_allowed':
                res.append((e.seq, None))
        good, why = drain_discipline(p, q, allow_results=sorted(res))
        if not good:
            ok, detail = False, why
        for kind, val, ev in queue_ops(p, q):
            if kind == 'D':
                n_deq += 1
                sends = [e for e in p.events if is_enq_send(e, slots) and e.data.get('args') and
                         strip_epoch(e.data['args'][0].term) == strip_epoch(ev.data['value'].term)]
                if len(sends) != 1:
                    ok, detail = False, 'a request taken from the hold queue is put into the send queue %d times' % len(
                        sends)
        # the release is atomic: once the new lease is visible, the held requests go out before any other task can
        # make a request - send_request() only asks the lease, it does not look whether older requests still wait
        installed = [e for e in p.events if e.kind == 'store' and e.data['target'][0] == 'attr' and
                     e.data['target'][2] == '_requester_lease']
        if installed:
            susp = [e for e in p.events if e.kind in ('await', 'yield') and e.seq > installed[0].seq]
            if susp:
                ok, detail = False, ('handle_lease suspends after the new lease has been installed: a request made by '
                                     'another task meanwhile is sent at once, ahead of the requests still held, and '
                                     'uses up their allowance')
    if n_deq == 0:
        ok, detail = False, 'no path releases a held request: requests held while no lease was available are never sent'
    rep.add(rule, 'RSocketBase.handle_lease / held requests released while allowed', f, ok,
            detail or 'a request is released only after the hold queue was seen non-empty and the new lease granted '
                      'an allowance; the loop ends only on an empty queue or a refusal (%d paths)' % len(ps))


def rule_fail_unsent(ctx, rule):
    """_fail_unsent_frames empties both queues and fails the sent future of every element."""
    rep = ctx.report
    slots = ctx.slots
    f = slots.RSocketBase.lookup('_fail_unsent_frames')
    if f is None:
        raise AnalysisError('%s: RSocketBase._fail_unsent_frames vanished' % rule)
    ps = ctx.paths(f, slots.RSocketClient, inline_depth=2, max_paths=4000)
    for q, what in ((slots.send_queue_attr, 'send queue'), (slots.request_queue_attr, 'lease hold queue')):
        ok = True
        detail = ''
        n_deq = 0
        n_failed = 0
        for p in ps:
            if p.outcome not in ('return', 'cut'):
                ok, detail = False, 'draining the %s can raise' % what
                continue
            ops = queue_ops(p, q)
            if p.outcome == 'return' and not [o for o in ops if o[0] == 'E']:
                ok, detail = False, 'the %s is not examined on a path' % what
                continue
            good, why = drain_discipline(p, q)
            if not good:
                ok, detail = False, why
            for kind, val, ev in ops:
                if kind != 'D':
                    continue
                n_deq += 1
                item = strip_epoch(ev.data['value'].term)
                fut = ('attr', item, 'sent_future')
                settled = False
                for e in p.events:
                    if e.seq <= ev.seq:
                        continue
                    if is_resolve(e) and e.data.get('name') == 'set_exception' and \
                            strip_epoch(e.data['recv'].term) == fut:
                        settled = True
                        n_failed += 1
                    if e.kind == 'cond' and e.data['key'][0] == 'isnone' and \
                            strip_epoch(e.data['key'][1]) == fut and e.data['value'] is True:
                        settled = True
                    if e.kind == 'cond' and e.data['key'][0] == 'truth' and e.data['value'] is True:
                        t = strip_epoch(e.data['key'][1])
                        if t[0] in ('pure', 'call') and t[1] == 'done' and fut in _flatten(t):
                            settled = True
                if not settled and p.outcome == 'return':
                    ok, detail = False, 'a frame taken from the %s keeps a pending sent future' % what
                # most frames have no sent future at all: it is looked at only behind a None test
                known_set = False
                for e in p.events:
                    if e.seq <= ev.seq:
                        continue
                    if e.kind == 'cond' and e.data['key'][0] == 'isnone' and strip_epoch(e.data['key'][1]) == fut:
                        known_set = e.data['value'] is False
                    if e.kind == 'call' and e.data.get('recv') is not None and \
                            strip_epoch(e.data['recv'].term) == fut and not known_set:
                        ok, detail = False, ('%s() is called on the sent future of a frame taken from the %s without '
                                             'a None test: for a frame that has none the drain raises and the close '
                                             'sequence stops there' % (e.data.get('name'), what))
                        break
        if n_deq == 0 or n_failed == 0:
            ok, detail = False, ('no path takes a frame from the %s and fails its sent future: awaitables of frames '
                                 'never written stay pending after the connection is gone' % what)
        rep.add(rule, 'RSocketBase._fail_unsent_frames / %s emptied, every sent future failed' % what, f, ok,
                detail or 'each frame is taken only from a non-empty queue, its pending sent future gets '
                          'set_exception, and the loop ends only on an empty queue (%d paths)' % len(ps))


def _flatten(t):
    out = []
    if isinstance(t, tuple):
        out.append(t)
        for x in t:
            out.extend(_flatten(x))
    return out


def rule_priority_insert(ctx, rule):
    """send_priority_frame: the frame is inserted when the queue has just been seen empty (so it is first), and every
    drained element is re-queued behind it."""
    rep = ctx.report
    slots = ctx.slots
    f = slots.RSocketBase.lookup('send_priority_frame')
    if f is None:
        raise AnalysisError('%s: send_priority_frame vanished' % rule)
    q = slots.send_queue_attr
    fparam = ('param', f.qualname, f.params()[1])
    ps = ctx.paths(f, slots.RSocketClient)
    ok = True
    detail = ''
    n = 0
    for p in ps:
        if p.outcome != 'return':
            continue
        n += 1
        last_e = None
        put = False
        for kind, val, ev in queue_ops(p, q):
            if kind == 'E':
                last_e = val
            elif kind == 'D':
                if put:
                    ok, detail = False, 'elements are drained after the frame was inserted'
                last_e = None if last_e is False else 'bad'
            elif kind == 'P' and strip_epoch(ev.data['args'][0].term) == fparam:
                if last_e is not True:
                    ok, detail = False, ('the frame is inserted while the queue is not known to be empty: it is not '
                                         'first in the queue')
                put = True
        if last_e == 'bad':
            ok, detail = False, 'an element is drained without the queue being known non-empty'
        if not put:
            ok, detail = False, 'the frame is not inserted on a path'
    rep.add(rule, 'RSocketBase.send_priority_frame / inserted into the emptied queue', f, ok and n > 0,
            detail or 'the frame is put only after empty() returned True, after all drains (%d paths)' % n)
    # re-queue loop (the interpreter does not model list contents): for x in L: Q.put_nowait(x), L filled only by
    # L.append(Q.get_nowait())
    lists = {}
    for nd in walk_local(f.node):
        if isinstance(nd, ast.Call) and isinstance(nd.func, ast.Attribute) and nd.func.attr == 'append' and \
                isinstance(nd.func.value, ast.Name) and len(nd.args) == 1:
            from ..astutil import resolve_temp
            a = resolve_temp(f.node, nd.args[0])
            is_deq = isinstance(a, ast.Call) and isinstance(a.func, ast.Attribute) and \
                a.func.attr in ('get_nowait',) and isinstance(a.func.value, ast.Attribute) and a.func.value.attr == q
            lists.setdefault(nd.func.value.id, []).append(is_deq)
    requeued = False
    for nd in walk_local(f.node):
        if isinstance(nd, ast.For) and isinstance(nd.iter, ast.Name) and isinstance(nd.target, ast.Name) and \
                nd.iter.id in lists and all(lists[nd.iter.id]):
            for c in ast.walk(nd):
                if isinstance(c, ast.Call) and isinstance(c.func, ast.Attribute) and \
                        c.func.attr in ('put_nowait',) and isinstance(c.func.value, ast.Attribute) and \
                        c.func.value.attr == q and len(c.args) == 1 and isinstance(c.args[0], ast.Name) and \
                        c.args[0].id == nd.target.id:
                    # the loop must come after the frame's own insertion
                    requeued = True
    rep.add(rule, 'RSocketBase.send_priority_frame / drained elements re-queued', f, requeued,
            'every element drained into the list is put back by iterating that list' if requeued else
            'the elements drained from the send queue are not put back: frames queued before connect() are lost')


def rule_send_helpers(ctx, rule):
    """send_frame / send_error / send_payload / send_complete put exactly one frame of the right kind, with the
    stream id they were given, at the tail of the send queue."""
    rep = ctx.report
    slots = ctx.slots
    base = slots.RSocketBase
    specs = [
        ('send_frame', None, None),
        ('send_error', 'ErrorFrame', 'stream_id'),
        ('send_payload', 'PayloadFrame', 'stream_id'),
        ('send_complete', 'PayloadFrame', 'stream_id'),
    ]
    for name, cname, sid_param in specs:
        f = base.lookup(name)
        if f is None:
            continue
        ps = ctx.paths(f, slots.RSocketClient, inline_depth=4)
        ok = True
        detail = ''
        n = 0
        for p in ps:
            if p.outcome != 'return':
                continue
            n += 1
            enq = [e for e in p.events if is_enq_send(e, slots)]
            if len(enq) != 1:
                ok, detail = False, '%s puts %d frames into the send queue' % (name, len(enq))
                continue
            a = enq[0].data['args'][0]
            if cname is None:
                if strip_epoch(a.term) != ('param', f.qualname, f.params()[1]):
                    ok, detail = False, 'what is queued is not the frame passed in'
                continue
            cls = next(iter(a.types)).name if a.types and len(a.types) == 1 else None
            if cls != cname:
                ok, detail = False, '%s queues a %s' % (name, cls)
                continue
            sid = None
            flags = {}
            for s in p.events:
                if s.kind == 'store' and s.seq < enq[0].seq and s.data['target'][0] == 'attr' and \
                        s.data['target'][1] == a.term:
                    if s.data['target'][2] == 'stream_id':
                        sid = strip_epoch(s.data['value'].term)
                    flags[s.data['target'][2]] = s.data['value']
            if sid != ('param', f.qualname, sid_param):
                ok, detail = False, 'the queued %s carries stream id %s, not the one passed in' % (
                    cname, fmt_term(sid) if sid else None)
            if name == 'send_complete':
                c = flags.get('flags_complete')
                nx = flags.get('flags_next')
                if not (c is not None and c.is_const() and c.const is True):
                    ok, detail = False, 'send_complete queues a PAYLOAD frame without the COMPLETE flag'
            if name == 'send_payload':
                c = flags.get('flags_complete')
                if c is None or strip_epoch(c.term) != ('param', f.qualname, 'complete'):
                    ok, detail = False, 'send_payload does not pass its complete argument to the frame'
        rep.add(rule, 'RSocketBase.%s / one frame, own stream id, tail of the send queue' % name, f, ok and n > 0,
                detail or '%d paths' % n)


def rule_sender_hooks(ctx, rule):
    """The sender runs `_before_sender()` once the transport is there and before its loop, and `_finally_sender()`
    on every way out (the client starts / stops its keepalive tasks there)."""
    rep = ctx.report
    slots = ctx.slots
    s = slots.RSocketBase.lookup('_sender')
    ps = ctx.paths(s, slots.RSocketClient, exc=('app', 'cancel', 'transport'), inline_depth=1,
                   no_inline={'_before_sender', '_finally_sender', 'is_server_alive', '_current_transport',
                              '_log_identifier', '_get_next_frame_to_send', '_fail_sent_future'}, max_paths=4000)
    ok_b = ok_f = ok_t = True
    n = 0
    for p in ps:
        if p.outcome == 'cut':
            continue
        n += 1
        before = [e for e in p.events if e.kind == 'call' and e.data.get('name') == '_before_sender']
        fin = [e for e in p.events if e.kind == 'call' and e.data.get('name') == '_finally_sender']
        alive = [e for e in p.events if e.kind == 'call' and e.data.get('name') == 'is_server_alive']
        if alive and (len(before) != 1 or before[0].seq > alive[0].seq):
            ok_b = False
        # ... and only once the connection exists: the hook starts the keepalive clock, which must not run while the
        # transport provider is still retrying - the periods would be counted from connect() and the KEEPALIVEs pile
        # up behind SETUP
        got = [e for e in p.events if e.kind == 'call' and e.data.get('name') == '_current_transport']
        if before and (not got or got[0].seq > before[0].seq):
            ok_t = False
        if len(fin) != 1:
            ok_f = False
    if n == 0:
        raise AnalysisError('%s: no path through _sender' % rule)
    rep.add(rule, 'RSocketBase._sender / _before_sender() once, before the send loop', s, ok_b,
            'called exactly once before the first liveness test on all %d paths' % n if ok_b else
            'the send loop can start without _before_sender(): the client\'s keepalive task is never started')
    rep.add(rule, 'RSocketBase._sender / _before_sender() only after the transport has been obtained', s, ok_t,
            'await self._current_transport() precedes the hook on every path' if ok_t else
            '_before_sender() runs before the transport future is awaited: the client\'s keepalive emitter runs from '
            'connect() on, not from the moment the client is connected')
    rep.add(rule, 'RSocketBase._sender / _finally_sender() on every exit', s, ok_f,
            'awaited exactly once on all %d paths (normal, cancel, transport error, other exceptions)' % n if ok_f else
            'the sender can end without _finally_sender(): the keepalive tasks of the connection keep running')
    # the client's hooks start and stop the tasks
    c = slots.RSocketClient
    bs = c.lookup('_before_sender')
    ok = False
    if bs is not None and bs.cls is not slots.RSocketBase:
        for n_ in walk_local(bs.node):
            if isinstance(n_, ast.Call) and '_keepalive_send_task' in ast.unparse(n_):
                ok = True
    rep.add(rule, 'RSocketClient._before_sender / starts the keepalive sender', bs or c, ok,
            'the keepalive send task is started from the hook' if ok else
            'RSocketClient._before_sender does not start the keepalive send task')


def rule_close_transport(ctx, rule):
    """close(): tasks stopped, then the transport (when one was obtained) is closed."""
    rep = ctx.report
    slots = ctx.slots
    f = slots.RSocketBase.lookup('_close_transport')
    cl = slots.RSocketBase.lookup('close')
    if f is None or cl is None:
        raise AnalysisError('%s: RSocketBase.close/_close_transport vanished' % rule)
    ps = ctx.paths(f, slots.RSocketClient, inline_depth=1, no_inline={'_current_transport', '_log_identifier'})
    ok = True
    n_closed = 0
    for p in ps:
        if p.outcome != 'return':
            continue
        done = [e for e in p.events if e.kind == 'cond' and 'done' in repr(e.data['key']) and
                e.data['key'][0] == 'truth']
        closes = [e for e in p.events if e.kind == 'call' and e.data.get('name') == 'close' and
                  e.data.get('awaited')]
        nonecond = [e for e in p.events if e.kind == 'cond' and e.data['key'][0] == 'isnone']
        is_none = bool(nonecond) and nonecond[-1].data['value'] is True
        if done and done[0].data['value'] is True and not is_none:
            if len(closes) != 1:
                ok = False
            else:
                n_closed += 1
        elif closes and is_none:
            ok = False
    rep.add(rule, 'RSocketBase._close_transport / an obtained transport is closed', f, ok and n_closed > 0,
            'when the transport future is done and holds a transport, transport.close() is awaited (%d paths)' % len(ps)
            if ok and n_closed else 'close() can return without closing the transport it obtained')
    # the only thing that excuses a return without close() is that no transport was obtained (future not done, or it
    # holds None): a path that returns before the done() test, or with done() true and a transport at hand, on any other
    # condition (liveness flag, closing flag, ...) leaks the old transport on exactly the causes that set that condition
    early = []
    for p in ps:
        if p.outcome != 'return':
            continue
        closes = [e for e in p.events if e.kind == 'call' and e.data.get('name') == 'close' and e.data.get('awaited')]
        if closes:
            continue
        conds = [e for e in p.events if e.kind == 'cond']
        excused = any(('done' in repr(e.data['key']) and e.data['key'][0] == 'truth' and e.data['value'] is False) or
                      (e.data['key'][0] == 'isnone' and e.data['value'] is True) for e in conds)
        if not excused:
            early.append(p)
    rep.add(rule, 'RSocketBase._close_transport / no exit without close() but "no transport obtained"', f, not early,
            'every returning path either awaits transport.close() or found the transport future not done / holding None '
            '(%d paths)' % len(ps) if not early else
            'a path returns without closing the transport although the transport future was not found empty (conditions: %s)'
            % ', '.join(sorted({repr(e.data['key'])[:60] for p in early for e in p.events if e.kind == 'cond'})))
    # whatever transport.close() raises stays inside: close() and the reconnect loop go on after a transport that
    # fails to close (a reset connection re-raises its error from close())
    pe = ctx.paths(f, slots.RSocketClient, inline_depth=1, no_inline={'_current_transport', '_log_identifier'},
                   exc={'app'})
    escaped = [p for p in pe if p.outcome == 'raise' and
               any(e.kind == 'call' and e.data.get('name') == 'close' and e.data.get('how') == 'app'
                   for e in p.events[-3:])]
    n_failing = sum(1 for p in pe if any(e.kind == 'call' and e.data.get('name') == 'close' and
                                         e.data.get('how') == 'app' for e in p.events))
    if n_failing < 2:
        raise AnalysisError('%s: no path on which transport.close() fails was explored' % rule)
    rep.add(rule, 'RSocketBase._close_transport / a failing transport.close() is contained', f, not escaped,
            'an arbitrary exception from transport.close() is handled inside (%d paths)' % len(pe) if not escaped else
            'an exception raised by transport.close() escapes _close_transport (line %s): the caller - close() or '
            'the reconnect loop - ends there' % (escaped[0].events[-1].node.lineno if escaped[0].events else '?'))
    calls = [n.func.attr for n in sorted((x for x in walk_local(cl.node) if isinstance(x, ast.Call)),
                                         key=lambda x: (x.lineno, x.col_offset))
             if isinstance(n.func, ast.Attribute) and isinstance(n.func.value, ast.Name) and n.func.value.id == 'self']
    ok2 = '_stop_tasks' in calls and f.node.name in calls and calls.index('_stop_tasks') < calls.index(f.node.name)
    rep.add(rule, 'RSocketBase.close / tasks stopped, then transport closed', cl, ok2,
            'close() awaits _stop_tasks() and then _close_transport()' if ok2 else
            'close() does not stop the tasks and then close the transport')


def rule_lease_wiring(ctx, rule):
    """The lease publisher's values reach the wire and the responder-side gate: the publisher is subscribed with a
    LeaseSubscriber of this socket when leases are in use, the subscriber forwards every value to send_lease, and
    send_lease installs the value as the responder lease and queues its frame."""
    rep = ctx.report
    slots = ctx.slots
    base = slots.RSocketBase
    sub = base.lookup('_subscribe_to_lease_publisher')
    if sub is None:
        raise AnalysisError('%s: _subscribe_to_lease_publisher vanished' % rule)
    ps = ctx.paths(sub, slots.RSocketServer, inline_depth=2)
    ok = True
    n_sub = 0
    for p in ps:
        nn = [e for e in p.events if e.kind == 'cond' and e.data['key'][0] == 'isnone' and
              '_lease_publisher' in repr(e.data['key'])]
        subs = [e for e in p.events if e.kind == 'call' and e.data.get('name') == 'subscribe' and
                recv_attr(e) == '_lease_publisher']
        have = nn and nn[-1].data['value'] is False
        if have:
            if len(subs) != 1:
                ok = False
                continue
            a = subs[0].data['args'][0] if subs[0].data.get('args') else None
            if a is None:
                ok = False
                continue
            t = strip_epoch(a.term)
            if t[0] == 'call' and t[1] == 'LeaseSubscriber':
                # self.LeaseSubscriber(self): the nested class reached through the instance
                if ('self',) not in [x for x in t[2] if isinstance(x, tuple)]:
                    ok = False
                    continue
            elif a.types and getattr(next(iter(a.types)), 'name', None) == 'LeaseSubscriber':
                st = [e for e in p.events if e.kind == 'store' and e.data['target'][0] == 'attr' and
                      e.data['target'][1] == a.term and strip_epoch(e.data['value'].term) == ('self',)]
                if not st:
                    ok = False
                    continue
            else:
                ok = False
                continue
            n_sub += 1
        elif subs:
            ok = False
    rep.add(rule, 'RSocketBase._subscribe_to_lease_publisher / publisher subscribed with this socket', sub,
            ok and n_sub > 0, 'a configured lease publisher is subscribed once with a LeaseSubscriber bound to this '
                              'socket' if ok and n_sub else 'a configured lease publisher is not subscribed: no LEASE '
                                                            'is ever announced')
    ls = ctx.repo.cls('rsocket.rsocket_base:RSocketBase.LeaseSubscriber')
    on = ls.lookup('on_next')
    ok = False
    if on is not None:
        ok = True
        pp = ctx.paths(on, ls, inline_depth=0)
        vparam = ('param', on.qualname, on.params()[1])
        for p in pp:
            if p.outcome != 'return':
                continue
            calls = [e for e in p.events if e.kind == 'call' and e.data.get('name') == 'send_lease']
            if len(calls) != 1 or strip_epoch(calls[0].data['args'][0].term) != vparam:
                ok = False
    rep.add(rule, 'LeaseSubscriber.on_next / every published lease goes to send_lease', on or ls, ok,
            'send_lease(value) once per published value' if ok else
            'a published lease is not forwarded to send_lease')
    sl = base.lookup('send_lease')
    lparam = ('param', sl.qualname, sl.params()[1])
    ok = True
    n = 0
    for p in ctx.paths(sl, slots.RSocketServer, inline_depth=3, no_inline={'to_frame', 'send_error'}):
        if p.outcome != 'return':
            continue
        if any(e.kind == 'raise' for e in p.events):
            continue
        n += 1
        st = [e for e in p.events if e.kind == 'store' and e.data['target'][0] == 'attr' and
              e.data['target'][2] == '_responder_lease' and strip_epoch(e.data['value'].term) == lparam]
        enq = [e for e in p.events if is_enq_send(e, slots)]
        tf = [e for e in p.events if e.kind == 'call' and e.data.get('name') == 'to_frame']
        if len(st) != 1 or len(enq) != 1 or len(tf) != 1:
            ok = False
            continue
        recv = strip_epoch(tf[0].data['recv'].term) if tf[0].data.get('recv') is not None else None
        if recv not in (lparam, ('attr', ('self',), '_responder_lease')):
            ok = False
        if strip_epoch(enq[0].data['args'][0].term) != strip_epoch(tf[0].data['value'].term):
            ok = False
    rep.add(rule, 'RSocketBase.send_lease / lease installed for the responder gate and announced', sl, ok and n > 0,
            'the lease becomes the responder lease and its frame is queued once' if ok and n else
            'send_lease does not both install the lease for the responder gate and queue its LEASE frame')
    # who subscribes: the client's connect() when it honours leases, the server's SETUP handling when lease is asked
    con = base.lookup('connect')
    hs = slots.RSocketServer.lookup('handle_setup') or base.lookup('handle_setup')
    for f, cls, label, condkey in ((con, slots.RSocketClient, 'RSocketBase.connect', '_honor_lease'),
                                   (hs, slots.RSocketServer, 'handle_setup', 'flags_lease')):
        ok = True
        n = 0
        for p in ctx.paths(f, cls, inline_depth=1,
                           no_inline={'_subscribe_to_lease_publisher', 'send_priority_frame', '_create_setup_frame',
                                      'on_setup'}):
            if p.outcome != 'return':
                continue
            conds = [e for e in p.events if e.kind == 'cond' and e.data['key'][0] == 'truth' and
                     condkey in repr(e.data['key'])]
            calls = [e for e in p.events if e.kind == 'call' and
                     e.data.get('name') == '_subscribe_to_lease_publisher']
            if conds and conds[0].data['value'] is True:
                n += 1
                if len(calls) != 1:
                    ok = False
            elif calls:
                ok = False
        rep.add(rule, '%s / lease publisher subscribed iff leases are in use' % label, f, ok and n > 0,
                '_subscribe_to_lease_publisher() exactly when %s is set' % condkey if ok and n else
                'with %s set the lease publisher is not subscribed (or it is subscribed without it)' % condkey)


def shared_default_state(ctx):
    """Per-instance state must be created per instance: an __init__ parameter whose default is an object built when the
    function is defined (a call to a repository class or a container literal), stored into an attribute that the class
    then mutates, is one object shared by every instance constructed without that argument.
    -> [(class, init FuncInfo, parameter, attribute, why)]"""
    from ..index import ClassInfo
    out = []
    for c in ctx.repo.all_classes():
        if not c.module.name.startswith('rsocket') or c.module.name.startswith('rsocket.cli'):
            continue
        init = c.methods.get('__init__')
        if init is None:
            continue
        a = init.node.args
        params = a.posonlyargs + a.args
        defaults = [None] * (len(params) - len(a.defaults)) + list(a.defaults)
        pairs = list(zip(params, defaults)) + list(zip(a.kwonlyargs, a.kw_defaults))
        for prm, d in pairs:
            if d is None:
                continue
            mutable = isinstance(d, (ast.List, ast.Dict, ast.Set, ast.ListComp, ast.DictComp, ast.SetComp))
            if isinstance(d, ast.Call):
                r = ctx.repo.resolve_expr(init.module, d.func, c)
                if isinstance(r, ClassInfo):
                    mutable = True
                elif isinstance(d.func, ast.Name) and d.func.id in ('dict', 'list', 'set', 'bytearray', 'deque',
                                                                     'Queue', 'defaultdict', 'OrderedDict'):
                    mutable = True
                elif ast.unparse(d.func).split('.')[-1] in ('Queue', 'Event', 'Future', 'Lock', 'deque'):
                    mutable = True
            if not mutable:
                continue
            # stored into self.<attr>?
            attrs = [n.targets[0].attr for n in walk_local(init.node)
                     if isinstance(n, ast.Assign) and len(n.targets) == 1 and
                     isinstance(n.targets[0], ast.Attribute) and isinstance(n.targets[0].value, ast.Name) and
                     n.targets[0].value.id == 'self' and isinstance(n.value, ast.Name) and n.value.id == prm.arg]
            attrs += [n.target.attr for n in walk_local(init.node)
                      if isinstance(n, ast.AnnAssign) and isinstance(n.target, ast.Attribute) and
                      isinstance(n.target.value, ast.Name) and n.target.value.id == 'self' and
                      isinstance(n.value, ast.Name) and n.value.id == prm.arg]
            for attr in attrs:
                mutated = None
                for k in [c] + ctx.repo.subclasses(c):
                    for f in k.methods.values():
                        for n in ast.walk(f.node):
                            tgt = None
                            if isinstance(n, (ast.Assign, ast.AugAssign)):
                                ts = n.targets if isinstance(n, ast.Assign) else [n.target]
                                for t in ts:
                                    if isinstance(t, (ast.Attribute, ast.Subscript)) and \
                                            isinstance(t.value, ast.Attribute) and t.value.attr == attr and \
                                            isinstance(t.value.value, ast.Name) and t.value.value.id == 'self':
                                        tgt = t
                            if isinstance(n, ast.Call) and isinstance(n.func, ast.Attribute) and \
                                    n.func.attr in ('append', 'extend', 'add', 'update', 'pop', 'clear', 'put_nowait',
                                                    'put', 'set', 'insert', 'remove', 'setdefault', 'popitem',
                                                    'receive_data') and \
                                    isinstance(n.func.value, ast.Attribute) and n.func.value.attr == attr and \
                                    isinstance(n.func.value.value, ast.Name) and n.func.value.value.id == 'self':
                                tgt = n
                            if tgt is not None and mutated is None:
                                mutated = (f, n)
                if mutated is not None:
                    out.append((c, init, prm.arg, attr,
                                'self.%s is the default object of parameter %s (%s, built once when the class is '
                                'defined) and is mutated in %s (line %s): every %s constructed without that argument '
                                'shares it' % (attr, prm.arg, ast.unparse(d)[:40], mutated[0].short, mutated[1].lineno,
                                               c.name)))
    return out


def rule_shared_defaults(ctx, rule, module_prefixes, label):
    rep = ctx.report
    found = [x for x in shared_default_state(ctx) if x[0].module.name.startswith(tuple(module_prefixes))]
    n_cls = len([c for c in ctx.repo.all_classes() if c.module.name.startswith(tuple(module_prefixes)) and
                 '__init__' in c.methods])
    if n_cls == 0:
        raise AnalysisError('%s: no class with a constructor under %s' % (rule, module_prefixes))
    if found:
        c, init, prm, attr, why = found[0]
        rep.bad(rule, '%s / per-instance state is created per instance' % label, init, why)
    else:
        rep.ok(rule, '%s / per-instance state is created per instance' % label, ctx.repo.cls(
            [c for c in ctx.repo.all_classes() if c.module.name.startswith(tuple(module_prefixes)) and
             '__init__' in c.methods][0].module.name + ':' +
            [c for c in ctx.repo.all_classes() if c.module.name.startswith(tuple(module_prefixes)) and
             '__init__' in c.methods][0].name),
               'no constructor of %d classes stores a mutable default argument into state it later mutates' % n_cls)


def rule_bounded_queue_nowait(ctx, rule, prefixes, label):
    """put_nowait() on a queue built with a fixed positive maxsize raises QueueFull when the consumer is behind: the
    element (a stream element, a frame, a credit) is lost or turned into a failure although nothing went wrong.  Every
    queue attribute of the library that is fed with put_nowait() is therefore unbounded - or bounded by a value the
    application configures (the lease hold queue), which is that configuration's documented meaning."""
    rep = ctx.report
    repo = ctx.repo
    n_q = 0
    bad = []
    for k in repo.all_classes():
        if not any(k.qualname.startswith(p) for p in prefixes):
            continue
        init = k.methods.get('__init__')
        if init is None:
            continue
        params = set(init.params())
        for st in walk_local(init.node):
            if not (isinstance(st, (ast.Assign, ast.AnnAssign)) and isinstance(getattr(st, 'value', None), ast.Call)):
                continue
            tgt = st.targets[0] if isinstance(st, ast.Assign) else st.target
            if not (isinstance(tgt, ast.Attribute) and isinstance(tgt.value, ast.Name) and tgt.value.id == 'self'):
                continue
            callee = ast.unparse(st.value.func).split('.')[-1]
            if 'Queue' not in callee:
                continue
            n_q += 1
            size = st.value.args[0] if st.value.args else next(
                (kw.value for kw in st.value.keywords if kw.arg == 'maxsize'), None)
            if size is None:
                continue
            names = {x.id for x in ast.walk(size) if isinstance(x, ast.Name)}
            if names & params:
                continue  # configured by the application
            val = repo.try_const(init.module, size)
            if val is None or (isinstance(val, (int, float)) and val <= 0):
                if val is None:
                    bad.append((k, tgt.attr, st, 'a bound the analysis cannot evaluate (%s)' % ast.unparse(size), None))
                continue
            # bounded by a constant: who puts without waiting?
            for c2 in [k] + repo.subclasses(k):
                for m in c2.methods.values():
                    for c in walk_local(m.node):
                        if isinstance(c, ast.Call) and isinstance(c.func, ast.Attribute) and \
                                c.func.attr == 'put_nowait' and isinstance(c.func.value, ast.Attribute) and \
                                c.func.value.attr == tgt.attr and isinstance(c.func.value.value, ast.Name) and \
                                c.func.value.value.id == 'self':
                            bad.append((k, tgt.attr, st, 'maxsize %s' % val, (m, c)))
    if n_q < 6:
        raise AnalysisError('%s: only %d queue attributes found in %s' % (rule, n_q, label))
    seen = set()
    for k, attr, st, what, site in bad:
        key = (k.qualname, attr, site[0].qualname if site else '')
        if key in seen:
            continue
        seen.add(key)
        if site is None:
            rep.bad(rule, '%s.%s / queue bound' % (k.name, attr), (k.file, st.lineno), what)
        else:
            rep.bad(rule, '%s.%s / put_nowait on a bounded queue' % (k.name, attr), (site[0].file, site[1].lineno),
                    'self.%s is built with %s and %s puts into it without waiting: when the consumer is %s elements '
                    'behind QueueFull is raised and the element is lost' % (attr, what, site[0].short,
                                                                            what.split()[-1]))
    rep.add(rule, '%s / queues fed without waiting are unbounded' % label, None, not bad,
            '%d queue attributes: none that is fed with put_nowait() has a fixed positive bound' % n_q if not bad else
            '%d put_nowait() sites on bounded queues' % len(bad))


def rule_builders_fresh(ctx, rule):
    """Frames are queued as objects and serialised by the sender task later, so every frame a builder hands out must
    be an object of its own: each function of rsocket.frame_builders returns an object it constructed in that call
    (a frame class constructor, or another builder's result) - not a module-level or cached frame that the next call
    re-stamps while the first one still waits in the send queue."""
    import ast as _ast
    from ..astutil import returned_exprs
    from ..index import walk_local
    from .c19 import _creates_instance
    rep = ctx.report
    repo = ctx.repo
    m = repo.module('rsocket.frame_builders')
    if m is None:
        raise AnalysisError('%s: rsocket.frame_builders vanished' % rule)
    n = 0
    for name, lst in sorted(m.functions.items()):
        f = lst[-1]
        rets = list(returned_exprs(f.node))
        if not rets:
            continue
        params = set(f.params())
        if all(isinstance(r, _ast.Constant) or (isinstance(r, _ast.Name) and r.id in params) for r in rets):
            continue  # a helper that hands back one of its arguments or a constant: it returns no frame
        n += 1
        ok, why = True, ''
        memo = [d for d in f.node.decorator_list if 'cache' in _ast.unparse(d)]
        if memo:
            ok, why = False, 'the builder is memoised (@%s): equal arguments give the same frame object' % \
                _ast.unparse(memo[0])
        for r in rets:
            e = r
            if isinstance(e, _ast.Name):
                assigned = [a.value for a in walk_local(f.node) if isinstance(a, _ast.Assign) and
                            any(isinstance(t, _ast.Name) and t.id == e.id for t in a.targets)]
                if len(assigned) != 1:
                    if not assigned:
                        ok, why = False, '%s is not built in this call' % e.id
                    else:
                        bad = [a for a in assigned if not _creates_instance(repo, m, f, a)[0]]
                        if bad:
                            ok, why = False, '%s can be %s, which is not built in this call' % (e.id, _ast.unparse(bad[0]))
                    continue
                e = assigned[0]
            good, reason = _creates_instance(repo, m, f, e)
            if not good:
                ok, why = False, ('returns %s: %s - frames wait in the send queue as objects, so a frame shared '
                                  'between calls goes out with the fields of the last call' % (_ast.unparse(e), reason))
        rep.add(rule, 'frame builder %s / a frame object of its own per call' % name, f, ok,
                why or 'the returned frame is constructed in the call')
    rep.require(rule, 'frame builders', n, 8)

    # ... and nobody queues a frame it keeps: the argument of the queueing functions is never an attribute
    n_sites = 0
    for f in repo.all_functions():
        if not f.module.name.startswith('rsocket.') or f.module.name.startswith('rsocket.cli'):
            continue
        for c in walk_local(f.node):
            if isinstance(c, _ast.Call) and isinstance(c.func, _ast.Attribute) and c.func.attr in (
                    'send_frame', 'send_request', 'send_priority_frame') and c.args and not (
                    isinstance(c.func.value, _ast.Name) and c.func.value.id in ('transport', 'self') and
                    f.name == 'send_frame' and False):
                if 'transport' in _ast.unparse(c.func.value).lower():
                    continue  # the transport's write, not the queue
                n_sites += 1
                a = c.args[0]
                if isinstance(a, _ast.Attribute) and isinstance(a.value, _ast.Name) and a.value.id == 'self':
                    rep.bad(rule, '%s / queues a frame it keeps' % f.qualname.split(':')[-1], f,
                            '%s(self.%s): the same frame object is queued by every call and re-stamped while an '
                            'earlier entry still waits in the send queue' % (c.func.attr, a.attr))
    rep.require(rule, 'frame queueing call sites', n_sites, 15)
    rep.ok(rule, 'queueing call sites / no frame kept in an attribute is queued', m.functions['to_cancel_frame'][-1],
           '%d call sites of send_frame / send_request / send_priority_frame' % n_sites)
