"""Shared codec extraction for C02/C03/C04/C18: reader and writer layouts of the frame classes."""
import ast
from typing import List, Dict, Optional, Tuple

from .. import AnalysisError
from ..effects import strip_epoch
from ..index import ClassInfo, walk_local
from ..interp import AVal, const, fmt_term, Path
from ..layout import (Atoms, Read, Emit, lower_read, lower_bytes_expr, lower_value_bits, to_lin, LayoutError,
                      struct_fields, cbit_fields, _call_parts)
from ..linear import Lin

BACKENDS = {'native': ('parse_header_native', 'except'), 'cbitstruct': ('parse_header_cbitstruct', 'try')}
HEADER = 6


class RItem:
    """One reader item: kind int/bool/bytes, absolute position (Lin over reader atoms), width, field stored to."""

    def __init__(self, read: Read, field=None):
        self.read = read
        self.field = field
        self.lenof = None
        self.order = 0

    @property
    def kind(self):
        return self.read.kind

    def width(self) -> Lin:
        if self.read.kind == 'bytes':
            return self.read.width
        return Lin.k(self.read.nbytes)

    def sig(self):
        if self.read.kind == 'bytes':
            return ('bytes', self.field)
        return ('int', self.read.nbytes, self.read.value_bits(), self.field or ('lenof', self.lenof))

    def __repr__(self):
        return 'R(%s %s lenof=%s %r)' % (self.field, self.read, self.lenof, self.read.pos)


def frame_classes(ctx) -> Dict[str, ClassInfo]:
    """The frame classes registered for parsing (values of the type->class table)."""
    m = ctx.repo.module('rsocket.frame')
    if '_frame_class_by_id' not in m.assigns:
        raise AnalysisError('frame registry _frame_class_by_id vanished')
    d = m.assigns['_frame_class_by_id'][-1]
    if not isinstance(d, ast.Dict):
        raise AnalysisError('frame registry is not a dict literal')
    out = {}
    for k, v in zip(d.keys, d.values):
        c = ctx.repo.resolve_expr(m, v)
        if not isinstance(c, ClassInfo):
            raise AnalysisError('frame registry value %s is not a class' % ast.unparse(v))
        out[ast.unparse(k).split('.')[-1]] = c
    return out


def init_consts(ctx, T: ClassInfo) -> Dict:
    key = ('init_consts', T)
    if key in ctx.cache:
        return ctx.cache[key]
    out = {}
    init = T.lookup('__init__')
    if init is not None:
        ps = [p for p in ctx.paths(init, T) if p.outcome == 'return']
        if ps:
            for e in ps[0].events:
                if e.kind == 'store' and e.data['target'][0] == 'attr' and e.data['target'][1] == ('self',):
                    if e.data['value'].is_const():
                        out[e.data['target'][2]] = e.data['value']
                    else:
                        out.pop(e.data['target'][2], None)
    ctx.cache[key] = out
    return out


def _header_heap(ctx, backend):
    hpn, arm = BACKENDS[backend]
    hp = ctx.repo.func('rsocket.frame:' + hpn)
    return {(('class', 'rsocket.frame:ParseHelper'), 'parse_header'): AVal(('func', (hp.qualname,)))}, arm


def reader_paths(ctx, T: ClassInfo, backend: str):
    """[(conditions, items sorted by occurrence, atoms, path)] for T.parse with the given header backend."""
    key = ('reader', T, backend)
    if key in ctx.cache:
        return ctx.cache[key]
    heap, arm = _header_heap(ctx, backend)
    ic = init_consts(ctx, T)
    for k in ('metadata_only',):
        if k in ic:
            heap[(('self',), k)] = ic[k]
    f = T.lookup('parse')
    if f is None:
        raise AnalysisError('%s has no parse()' % T.name)
    paths = ctx.paths(f, T, arm=arm, symbolic_compare=True, initial_heap=heap, stable_attrs=True)
    buf = ('param', f.qualname, 'buffer')

    def buffer_ok(t):
        return strip_epoch(t) == buf

    out = []
    for p in paths:
        if p.outcome != 'return':
            continue
        atoms = Atoms()
        items: List[RItem] = []
        seen_pos = {}

        def add(read, field=None):
            k2 = (repr(read.pos), read.kind, tuple(read.bits) if read.bits else None, repr(read.width))
            if k2 in seen_pos:
                it = seen_pos[k2]
                if field and not it.field:
                    it.field = field
                return it
            it = RItem(read, field)
            it.order = len(items)
            items.append(it)
            seen_pos[k2] = it
            return it

        flags = {}
        for e in p.events:
            if e.kind == 'call':
                nm = str(e.data.get('name', ''))
                base = nm.split('.')[-1]
                if base in ('unpack_from', 'unpack') and ('struct' in nm):
                    v = e.data['value'].term
                    args = e.data.get('args') or []
                    if not args or not args[0].is_const():
                        raise LayoutError('unpack with non-literal format at %s' % e.where())
                    fmt = args[0].const
                    if 'cbitstruct' in nm:
                        n = len([x for x in cbit_fields(fmt) if x[2] != 'p'])
                    else:
                        n = len(struct_fields(fmt))
                    for i in range(n):
                        r = lower_read(('unpack', v, i), atoms, buffer_ok)
                        if r is not None and r.kind != 'bool' or (r is not None and r.kind == 'bool'):
                            it = add(r)
            elif e.kind == 'store' and e.data['target'][0] == 'attr' and e.data['target'][1] == ('self',):
                field = e.data['target'][2]
                try:
                    r = lower_read(e.data['value'].term, atoms, buffer_ok)
                except LayoutError as ex:
                    raise LayoutError('%s.parse: value stored to %s at %s: %s' % (T.name, field, e.where(), ex))
                if r is None:
                    continue
                if r.kind == 'bool':
                    flags[field] = r
                    continue
                # a masked variant of a whole-field read refines the unnamed item produced by the unpack call
                refined = False
                if r.kind == 'int':
                    rb = {b for b in r.bits if b is not None}
                    for it in items:
                        if it.field is None and it.read.kind == 'int' and it.read.pos == r.pos and \
                                it.read.nbytes == r.nbytes and rb and rb <= {b for b in it.read.bits if b is not None} \
                                and tuple(it.read.bits) != tuple(r.bits):
                            it.read = r
                            it.field = field
                            refined = True
                            break
                if not refined:
                    add(r, field)
        # roles: an integer whose value is the width of a following byte string is the length of that field
        for it in items:
            if it.read.kind == 'bytes' and it.read.width is not None and len(it.read.width.coef) == 1:
                (a, c), = it.read.width.coef.items()
                t = atoms.terms.get(a)
                if c == 1 and t is not None:
                    for jt in items:
                        if jt.read.kind == 'int' and _term_reads(t, jt, atoms, buffer_ok):
                            jt.lenof = it.field
        # conditions of the path in terms of the flag attributes whose stored value was tested
        stored = {}
        for e in p.events:
            if e.kind == 'store' and e.data['target'][0] == 'attr' and e.data['target'][1] == ('self',):
                stored[strip_epoch(e.data['value'].term)] = e.data['target'][2]
        conds = {}
        for e in p.events:
            if e.kind == 'cond' and not e.data.get('static'):
                k = strip_epoch(e.data['key'])
                if k[0] == 'truth' and k[1] in stored:
                    conds.setdefault(stored[k[1]], e.data['value'])
                elif k[0] == 'truth' and isinstance(k[1], tuple) and k[1][0] == 'attr' and k[1][1] == ('self',):
                    conds.setdefault(k[1][2], e.data['value'])
        out.append((conds, items, flags, atoms, p))
    ctx.cache[key] = out
    return out


def _term_reads(t, item: RItem, atoms, buffer_ok) -> bool:
    try:
        r = lower_read(t, atoms, buffer_ok)
    except LayoutError:
        return False
    return r is not None and r.kind == 'int' and r.pos == item.read.pos and r.nbytes == item.read.nbytes


def path_conditions(p: Path) -> Dict[str, bool]:
    """Truth of the attribute-level predicates a path took: {'flags_resume': True, 'metadata': False, ...}"""
    out = {}
    for e in p.events:
        if e.kind == 'cond' and not e.data.get('static'):
            k = strip_epoch(e.data['key'])
            if k[0] == 'truth' and isinstance(k[1], tuple) and k[1] and k[1][0] == 'attr' and k[1][1] == ('self',):
                out.setdefault(k[1][2], e.data['value'])
    return out


# ------------------------------------------------------------------------------------------ writer

class Write:
    def __init__(self, start: Lin, end: Optional[Lin], emits: List[Emit], node):
        self.start = start
        self.end = end
        self.emits = emits
        self.node = node


def writer_paths(ctx, T: ClassInfo, backend: str, entry='serialize', bind_init=True):
    """[(conditions, header bit sources (48, MSB-first index), emitted items after the header, atoms, path)]
    entry: 'serialize' (one-shot form) or 'serialize_frame_prefix' (prefix of the incremental form)."""
    key = ('writer', T, backend, entry, bind_init)
    if key in ctx.cache:
        return ctx.cache[key]
    _, arm = _header_heap(ctx, backend)
    ic = init_consts(ctx, T)
    heap = {}
    for k in ('metadata_only',):
        if k in ic and bind_init:
            heap[(('self',), k)] = ic[k]
    f = ctx.repo.func('rsocket.frame:Frame.serialize') if entry == 'serialize' else T.lookup(entry)
    if f is None:
        raise AnalysisError('%s.%s vanished' % (T.name, entry))
    args = {'middle': const(b''), 'flags': const(0)}
    paths = ctx.paths(f, T, args=args, arm=arm, symbolic_compare=True, initial_heap=heap, stable_attrs=True,
                      no_inline={'compute_frame_length', '_compute_frame_prefix_length',
                                 '_compute_data_metadata_length'})
    out = []
    for p in paths:
        if p.outcome != 'return':
            continue
        atoms = Atoms()
        writes: List[Write] = []
        buffers = []
        for e in p.events:
            if e.kind == 'call' and str(e.data.get('name', '')).endswith('pack_into'):
                a = e.data['args']
                if not a[0].is_const():
                    raise LayoutError('pack_into with non-literal format at %s' % e.where())
                fields = struct_fields(a[0].const)
                off = to_lin(a[2].term, atoms)
                emits = []
                for (fo, w, s), v in zip(fields, a[3:]):
                    emits.append(Emit('int', w, v.term, lower_value_bits(v.term, 8 * w)))
                total = sum(x[1] for x in fields)
                writes.append((strip_epoch(a[1].term), Write(off, off + total, emits, e.node)))
            elif e.kind == 'store' and e.data['target'][0] == 'item':
                bterm = strip_epoch(e.data['target'][1])
                idx = strip_epoch(e.data['target'][2])
                v = e.data['value'].term
                if idx[0] == 'slice':
                    lo = Lin.k(0) if idx[1] == ('const', None) else to_lin(idx[1], atoms)
                    hi = None if idx[2] == ('const', None) else to_lin(idx[2], atoms)
                    emits = []
                    vt = strip_epoch(v)
                    if vt[0] == 'call' and str(vt[1]).split('.')[-1] == 'bytearray':
                        # copy of the prefix buffer into the final buffer: the prefix writes are re-based below
                        writes.append((bterm, Write(lo, hi, [Emit('buffer', None, vt)], e.node)))
                        continue
                    lower_bytes_expr(v, emits, atoms)
                    writes.append((bterm, Write(lo, hi, emits, e.node)))
                else:
                    pos = to_lin(idx, atoms)
                    writes.append((bterm, Write(pos, pos + 1, [Emit('int', 1, v, lower_value_bits(v, 8))], e.node)))
        # two buffers: the prefix buffer and the final buffer (whose first write copies the prefix)
        final = [w for b, w in writes if any(em.kind == 'buffer' for em in w.emits)]
        if entry != 'serialize':
            if final or len({b for b, w in writes}) != 1:
                raise LayoutError('%s.%s: expected writes to a single buffer' % (T.name, entry))
            pre_w = [w for b, w in writes]
            fin_w = []
        else:
            if len(final) != 1:
                raise LayoutError('%s.serialize: expected one copy of the prefix buffer, found %d' % (
                    T.name, len(final)))
            prefix_term = final[0].emits[0].src
            pre_w = [w for b, w in writes if b == prefix_term]
            fin_w = [w for b, w in writes if b != prefix_term and not any(em.kind == 'buffer' for em in w.emits)]
        seq = sorted(pre_w, key=lambda w: (sorted(w.start.coef.items()), w.start.const))
        # contiguity inside the prefix
        pos = Lin.k(0)
        emits_all: List[Emit] = []
        for w in pre_w:
            if w.start != pos:
                raise LayoutError('%s: prefix write at %r does not continue at %r (line %s)' % (
                    T.name, w.start, pos, getattr(w.node, 'lineno', '?')))
            pos = w.end if w.end is not None else None
            emits_all.extend(w.emits)
            if pos is None:
                raise LayoutError('%s: open-ended prefix write' % T.name)
        emits_all_final = list(emits_all)
        for w in fin_w:
            emits_all_final.extend(w.emits)
        # positions and widths of every write (prefix writes were checked for contiguity above): each section of the
        # final buffer starts where the previous one ended, and a slice assignment replaces exactly as many bytes as
        # it writes (a bytearray slice assignment of another width silently resizes the buffer)
        problems = ctx.cache.setdefault(('writer_positions', T, backend, entry), [])

        def len_atom(src):
            src = strip_epoch(src)
            if src[0] == 'item' and src[2][0] == 'slice' and src[2][1] == ('const', None) and \
                    src[2][2] == ('const', None):
                src = strip_epoch(src[1])
            if src[0] == 'const' and isinstance(src[1], (bytes, bytearray)):
                return Lin.k(len(src[1]))
            for a, t in atoms.terms.items():
                if t[0] == 'pure' and t[1] == 'len' and t[3] and strip_epoch(t[3][0]) == src:
                    return Lin.atom(a)
            return None

        def emitted_width(w):
            total = Lin.k(0)
            for em in w.emits:
                if em.kind == 'int':
                    total = total + Lin.k(em.nbytes)
                else:
                    la = len_atom(em.src)
                    if la is None:
                        return None
                    total = total + la
            return total

        def norm(lin):
            """replace len(<packed value>) atoms by the number of bytes the value lowers to"""
            res = Lin.k(lin.const)
            for a, c in lin.coef.items():
                t = atoms.terms.get(a)
                done = False
                if t is not None and t[0] == 'pure' and t[1] == 'len' and t[3]:
                    try:
                        ems = []
                        lower_bytes_expr(t[3][0], ems, atoms)
                        if ems and all(e.kind == 'int' for e in ems):
                            res = res + Lin.k(sum(e.nbytes for e in ems)).scale(c)
                            done = True
                        elif not ems:
                            done = True
                    except LayoutError:
                        pass
                if not done:
                    res = res + Lin.atom(a).scale(c)
            return res

        for w in pre_w + final + fin_w:
            if w.end is None:
                continue
            ew = emitted_width(w)
            if ew is not None and norm(w.end - w.start) != norm(ew):
                problems.append('line %s: a slice of %r bytes is assigned %r bytes (the buffer is resized)' % (
                    getattr(w.node, 'lineno', '?'), w.end - w.start, ew))
        if entry == 'serialize':
            cp = final[0]
            pos = cp.end
            if cp.start != Lin.k(0) or pos is None:
                problems.append('line %s: the prefix is not copied to the start of the frame' % getattr(
                    cp.node, 'lineno', '?'))
            for w in fin_w:
                if pos is None:
                    break
                if norm(w.start) != norm(pos):
                    problems.append('line %s: a section is written at %r but the previous one ended at %r '
                                    '(bytes are overwritten or left zero)' % (getattr(w.node, 'lineno', '?'),
                                                                              w.start, pos))
                pos = w.end
        # header: first 6 bytes
        header_bits = []
        consumed = 0
        rest = []
        for em in emits_all_final:
            if consumed < HEADER:
                if em.kind != 'int':
                    raise LayoutError('%s: non-integer item inside the 6-byte header' % T.name)
                for j in range(8 * em.nbytes - 1, -1, -1):
                    header_bits.append(em.bits[j])
                consumed += em.nbytes
            else:
                rest.append(em)
        if consumed != HEADER:
            raise LayoutError('%s: header is %d bytes' % (T.name, consumed))
        out.append((path_conditions(p), header_bits, rest, atoms, p))
    ctx.cache[key] = out
    return out


def emit_sig(em: Emit):
    if em.kind == 'bytes':
        t = strip_epoch(em.src)
        return ('bytes', t[2] if t[0] == 'attr' else fmt_term(t))
    sig_bits = len([b for b in em.bits if b != 0])
    t = strip_epoch(em.src)
    role = None
    # masks: x & MASK
    while t[0] == 'op' and t[1] == 'BitAnd':
        t = t[2] if t[3][0] == 'const' else t[3]
    if t[0] == 'attr' and t[1] == ('self',):
        role = t[2]
    elif t[0] == 'pure' and t[1] == 'len':
        inner = strip_epoch(t[3][0]) if t[3] else None
        if inner is not None and inner[0] == 'attr':
            role = ('lenof', inner[2])
        else:
            role = ('lenof', fmt_term(inner))
    elif t[0] == 'const':
        role = ('const', t[1])
    else:
        role = ('expr', fmt_term(t)[:60])
    return ('int', em.nbytes, sig_bits, role)
