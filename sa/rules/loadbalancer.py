"""The load balancer (rsocket/load_balancer): a request issued on LoadBalancerRSocket is one request on one client of the
pool, with the caller's arguments, and the caller gets that client's result.

Decided on the syntax trees:
  * each of the five request methods calls the method of the same name on what the strategy selected, exactly once,
    with its own parameters in their order (or by their names), and returns that call;
  * the client is what `self._strategy.select()` returned (directly or through a helper that returns it);
  * each strategy's select() returns an element of its pool whose index is in range for every pool size >= 1:
    `random.randint(0, len(pool) - 1)`, `random.randrange(len(pool))`, `random.choice(pool)`, or a cursor attribute
    that is only ever stored as 0 or as `<expression> % len(pool)`.
A necessary condition of C01 for requests made through the balancer (the request reaches a connection and the answer
reaches the caller); which client serves which request at run time is not decided."""
import ast

from .. import AnalysisError
from ..astutil import returned_exprs
from ..index import walk_local

LB = 'rsocket.load_balancer.load_balancer_rsocket:LoadBalancerRSocket'
STRATEGY = 'rsocket.load_balancer.load_balancer_strategy:LoadBalancerStrategy'
REQUESTS = ('request_response', 'fire_and_forget', 'request_stream', 'request_channel', 'metadata_push')


def _is_self_attr(e, attr=None):
    return isinstance(e, ast.Attribute) and isinstance(e.value, ast.Name) and e.value.id == 'self' and \
        (attr is None or e.attr == attr)


def _selects(k, e, depth=0):
    """Is `e` the strategy's selection: self.<strategy>.select(), or a call of a helper of k that returns it?"""
    if not isinstance(e, ast.Call) or not isinstance(e.func, ast.Attribute):
        return False
    if e.func.attr == 'select' and _is_self_attr(e.func.value):
        return True
    if _is_self_attr(e.func) and depth < 2:
        g = k.lookup(e.func.attr)
        if g is not None:
            rets = list(returned_exprs(g.node))
            return bool(rets) and all(_selects(k, r, depth + 1) for r in rets)
    return False


def rule_balancer(ctx, rule):
    rep = ctx.report
    repo = ctx.repo
    k = repo.cls(LB)
    if k is None:
        raise AnalysisError('%s: LoadBalancerRSocket vanished' % rule)
    for name in REQUESTS:
        f = k.methods.get(name)
        if f is None:
            rep.bad(rule, 'LoadBalancerRSocket.%s / one request on the selected client' % name, k, 'method missing')
            continue
        local = {}
        for n in walk_local(f.node):
            if isinstance(n, ast.Assign) and len(n.targets) == 1 and isinstance(n.targets[0], ast.Name):
                local.setdefault(n.targets[0].id, []).append(n.value)

        def client(e):
            if isinstance(e, ast.Name) and len(local.get(e.id, [])) == 1:
                e = local[e.id][0]
            return _selects(k, e)

        calls = [n for n in walk_local(f.node) if isinstance(n, ast.Call) and isinstance(n.func, ast.Attribute) and
                 n.func.attr in REQUESTS and client(n.func.value)]
        selections = [n for n in walk_local(f.node) if isinstance(n, ast.Call) and _selects(k, n)]
        ok, detail = True, ''
        if len(calls) != 1 or calls[0].func.attr != name:
            ok, detail = False, 'does not call %s exactly once on the selected client (%s)' % (
                name, [c.func.attr for c in calls])
        elif len(selections) != 1:
            ok, detail = False, 'selects %d clients for one request' % len(selections)
        else:
            c = calls[0]
            params = [p for p in f.params() if p != 'self']
            given = {}
            for i, a in enumerate(c.args):
                if i < len(params):
                    given[params[i]] = a
            for kw in c.keywords:
                if kw.arg:
                    given[kw.arg] = kw.value
            for p in params:
                v = given.get(p)
                if not (isinstance(v, ast.Name) and v.id == p):
                    ok, detail = False, 'the caller\'s %s is not what the client is given (%s)' % (
                        p, ast.unparse(v) if v is not None else 'nothing')
            rets = list(returned_exprs(f.node))
            resolved = []
            for r in rets:
                if isinstance(r, ast.Name) and len(local.get(r.id, [])) == 1:
                    r = local[r.id][0]
                if isinstance(r, ast.Await):
                    r = r.value
                resolved.append(r)
            if ok and (not resolved or any(r is not c for r in resolved)):
                ok, detail = False, 'the client\'s result is not what the caller gets'
        rep.add(rule, 'LoadBalancerRSocket.%s / one request on the selected client' % name, f, ok,
                detail or '<selected client>.%s(<the caller\'s arguments>) returned' % name)
    # strategies
    base = repo.cls(STRATEGY)
    strategies = [c for c in repo.all_classes() if base is not None and c is not base and c.is_subclass_of(base) and
                  c.module.name.startswith('rsocket.')]
    rep.require(rule, 'load balancer strategies', len(strategies), 2)
    for s in strategies:
        f = s.lookup('select')
        if f is None or f.cls is base:
            rep.bad(rule, '%s.select / an element of the pool' % s.name, s, 'no select()')
            continue
        ok, detail = _select_in_range(s, f)
        rep.add(rule, '%s.select / an element of the pool, index in range' % s.name, f, ok, detail)


def _len_of(e, pool):
    return isinstance(e, ast.Call) and isinstance(e.func, ast.Name) and e.func.id == 'len' and len(e.args) == 1 and \
        ast.unparse(e.args[0]) == pool


def _select_in_range(s, f):
    local = {}
    order = {}
    for i, n in enumerate(walk_local(f.node)):
        if isinstance(n, ast.Assign) and len(n.targets) == 1 and isinstance(n.targets[0], ast.Name):
            local.setdefault(n.targets[0].id, []).append(n.value)
            order[id(n.value)] = n.lineno
    rets = list(returned_exprs(f.node))
    if not rets:
        return False, 'select() returns nothing'
    for r in rets:
        line = r.lineno
        if isinstance(r, ast.Name) and len(local.get(r.id, [])) == 1:
            r = local[r.id][0]
            line = r.lineno
        if isinstance(r, ast.Call) and ast.unparse(r.func) in ('random.choice', 'choice') and len(r.args) == 1 and \
                _is_self_attr(r.args[0]):
            continue
        if not (isinstance(r, ast.Subscript) and _is_self_attr(r.value)):
            return False, 'select() returns %s, not an element of the pool' % ast.unparse(r)
        pool = ast.unparse(r.value)
        idx = r.slice
        if isinstance(idx, ast.Name) and len(local.get(idx.id, [])) == 1:
            idx = local[idx.id][0]
        if isinstance(idx, ast.Call) and ast.unparse(idx.func) in ('random.randint', 'randint') and len(idx.args) == 2:
            lo, hi = idx.args
            good_hi = isinstance(hi, ast.BinOp) and isinstance(hi.op, ast.Sub) and _len_of(hi.left, pool) and \
                isinstance(hi.right, ast.Constant) and hi.right.value == 1
            if not (isinstance(lo, ast.Constant) and lo.value == 0 and good_hi):
                return False, ('randint(%s, %s) is inclusive at both ends: the index must range over 0 .. len(pool) - 1'
                               % (ast.unparse(lo), ast.unparse(hi)))
            continue
        if isinstance(idx, ast.Call) and ast.unparse(idx.func) in ('random.randrange', 'randrange') and \
                len(idx.args) == 1 and _len_of(idx.args[0], pool):
            continue
        if _is_self_attr(idx):
            cur = idx.attr
            # every store to the cursor, in the whole class
            stores = []
            for g in s.methods.values():
                for n in walk_local(g.node):
                    tv = []
                    if isinstance(n, ast.Assign):
                        tv = [(t, n.value) for t in n.targets]
                    elif isinstance(n, ast.AugAssign):
                        tv = [(n.target, None)]
                    elif isinstance(n, ast.AnnAssign) and n.value is not None:
                        tv = [(n.target, n.value)]
                    for t, v in tv:
                        if _is_self_attr(t, cur):
                            stores.append((g, n, v))
            if not stores:
                return False, 'the cursor self.%s is never initialised' % cur
            for g, n, v in stores:
                if v is None:
                    return False, 'self.%s is advanced without wrapping at the pool size' % cur
                if isinstance(v, ast.Constant) and v.value == 0:
                    continue
                wraps = isinstance(v, ast.BinOp) and isinstance(v.op, ast.Mod) and _len_of(v.right, pool)
                if not wraps:
                    return False, ('self.%s = %s: the cursor must be 0 or <anything> %% len(pool), otherwise the index '
                                   'leaves the pool' % (cur, ast.unparse(v)))
            continue
        return False, 'the index %s is not shown to be within the pool' % ast.unparse(idx)
    return True, 'every returned client is pool[i] with 0 <= i < len(pool)'
