"""Receive-side dispatch: the table of the receive loop, its lookup, and the routing in `_handle_next_frame`.

Shared between C01 (requests, fire-and-forget, metadata push, error; routing through the reassembly cache), C14 (LEASE
row) and C15 (KEEPALIVE row).  Every other rule that analyses a `handle_*` method analyses it under the assumption that
frames of its class reach it; this module decides that assumption."""
import ast

from .. import AnalysisError
from ..effects import strip_epoch
from ..index import walk_local, ClassInfo
from ..interp import AVal, fmt_term
from ..tables import DISPATCH_ROWS


def receiver(ctx):
    return ctx.repo.func('rsocket.rsocket_base:RSocketBase._receiver_listen')


def table_rows(ctx):
    """-> (dict node, {frame class name: method name}, name of the local holding the table)"""
    got = ctx.cache.get('dispatch_rows')
    if got is not None:
        return got
    rl = receiver(ctx)
    best = None
    for n in walk_local(rl.node):
        if not isinstance(n, ast.Dict):
            continue
        rows = {}
        for k, v in zip(n.keys, n.values):
            if k is None:
                continue
            kc = ctx.repo.resolve_expr(rl.module, k)
            if isinstance(kc, ClassInfo) and kc.is_subclass_of(ctx.slots.Frame) and isinstance(v, ast.Attribute) and \
                    isinstance(v.value, ast.Name) and v.value.id == 'self':
                if kc.name in rows:
                    rows[kc.name] = None  # duplicate key: the later row wins at run time; treat as undecidable
                else:
                    rows[kc.name] = v.attr
        if rows and (best is None or len(rows) > len(best[1])):
            best = (n, rows)
    if best is None or len(best[1]) < 6:
        raise AnalysisError('dispatch table of RSocketBase._receiver_listen vanished')
    node, rows = best
    # the local the table is bound to
    local = None
    for n in walk_local(rl.node):
        if isinstance(n, (ast.Assign, ast.AnnAssign)) and n.value is node:
            t = n.targets[0] if isinstance(n, ast.Assign) else n.target
            if isinstance(t, ast.Name):
                local = t.id
    got = (node, rows, local)
    ctx.cache['dispatch_rows'] = got
    return got


def rule_rows(ctx, rule_id, classes):
    """Each listed frame class has a row and the row's method does what the protocol table says."""
    rep = ctx.report
    slots = ctx.slots
    rl = receiver(ctx)
    node, rows, local = table_rows(ctx)
    base = slots.RSocketBase
    for cname in classes:
        kind = DISPATCH_ROWS[cname]
        construct = '_receiver_listen dispatch / %s' % cname
        meth = rows.get(cname)
        if meth is None:
            rep.bad(rule_id, construct, (rl.file, node.lineno),
                    '%s has no (unique) row in the dispatch table: such frames are silently ignored' % cname)
            continue
        if kind[0] == 'method':
            ok = meth == kind[1]
            rep.add(rule_id, construct, (rl.file, node.lineno), ok,
                    '%s frames are handled by %s' % (cname, meth) if ok else
                    '%s frames are dispatched to %s, not %s' % (cname, meth, kind[1]))
            continue
        _, app_name, responder, data_from = kind
        f = slots.RSocketServer.lookup(meth) or base.lookup(meth)
        if f is None:
            rep.bad(rule_id, construct, (rl.file, node.lineno), 'row method %s does not exist' % meth)
            continue
        K = slots.frame_classes[cname]
        frame = AVal(('param', f.qualname, f.params()[1]), [K], exact=True)
        ps = ctx.paths(f, slots.RSocketServer, args={(f.params()[1]): frame},
                       inline_depth=3, no_inline={'assert_stream_id_available', 'register_stream', '_register_stream',
                                                  'frame_received', 'setup', 'subscribe'})
        ok = True
        detail = ''
        n_ret = 0
        for p in ps:
            if p.outcome != 'return':
                continue
            n_ret += 1
            calls = [e for e in p.events if e.kind == 'call' and e.data.get('name') == app_name and
                     e.data.get('recv') is not None and strip_epoch(e.data['recv'].term)[0] == 'attr' and
                     strip_epoch(e.data['recv'].term)[1] == ('self',)]
            if len(calls) != 1:
                ok, detail = False, '%s calls the application\'s %s %d times on a returning path' % (
                    meth, app_name, len(calls))
                continue
            c = calls[0]
            pay = [a for a in c.data['args'] if a.term[0] == 'new' and a.term[1] is not None]
            pay = [a for a in c.data['args'] if a.term[0] == 'new']
            if not pay:
                ok, detail = False, 'the payload passed to %s is not built from the frame' % app_name
                continue
            pterm = pay[-1].term
            st = {}
            for e in p.events:
                if e.kind == 'store' and e.seq < c.seq and e.data['target'][0] == 'attr' and \
                        e.data['target'][1] == pterm:
                    st[e.data['target'][2]] = strip_epoch(e.data['value'].term)
            want_meta = ('attr', frame.term, 'metadata')
            want_data = ('attr', frame.term, 'data') if data_from else ('const', None)
            if st.get('metadata') != want_meta or st.get('data') != want_data:
                ok, detail = False, 'the payload passed to %s has data=%s metadata=%s' % (
                    app_name, fmt_term(st.get('data')) if st.get('data') else '?',
                    fmt_term(st.get('metadata')) if st.get('metadata') else '?')
                continue
            if responder:
                news = [e for e in p.events if e.kind == 'new' and e.data['cls'].name == responder]
                if len(news) != 1:
                    ok, detail = False, 'no %s is created for the request' % responder
                    continue
                robj = news[0].data['value'].term
                # the registering call hands the same object back (`x = self._register_stream(id, Responder(...))`)
                same = {strip_epoch(robj)}
                for e in p.events:
                    if e.kind == 'call' and e.data.get('name') in ('_register_stream', 'register_stream') and \
                            any(strip_epoch(a.term) == strip_epoch(robj) for a in e.data.get('args', [])):
                        same.add(strip_epoch(e.data['value'].term))
                # the responder is started with the request frame itself (initial request-n, complete flag) ...
                if cname in ('RequestStreamFrame', 'RequestChannelFrame'):
                    fr = [e for e in p.events if e.kind == 'call' and e.data.get('name') == 'frame_received' and
                          e.data.get('recv') is not None and strip_epoch(e.data['recv'].term) in same]
                    if len(fr) != 1 or [strip_epoch(a.term) for a in fr[0].data['args']] != [frame.term]:
                        ok, detail = False, ('the new %s is not handed the request frame (its initial request-n never '
                                             'reaches the publisher)' % responder)
                # ... and, for a channel, wired to the application's subscriber before that
                if cname == 'RequestChannelFrame':
                    sub = [e for e in p.events if e.kind == 'call' and e.data.get('name') == 'subscribe' and
                           e.data.get('recv') is not None and strip_epoch(e.data['recv'].term) in same]
                    if len(sub) != 1 or not fr or sub[0].seq > fr[0].seq:
                        ok, detail = False, 'the channel responder is not subscribed to the application\'s subscriber ' \
                                            'before it receives the request frame'
        rep.add(rule_id, construct, f, ok and n_ret > 0,
                detail or '%s -> %s: calls the application\'s %s once with the payload of the frame%s (%d paths)' % (
                    cname, meth, app_name, ' and creates a %s' % responder if responder else '', n_ret))


def rule_lookup(ctx, rule_id):
    """The table reaches the lookup, which indexes it by the class of the frame and awaits the result with the frame."""
    rep = ctx.report
    slots = ctx.slots
    rl = receiver(ctx)
    node, rows, local = table_rows(ctx)
    nf = ctx.repo.func('rsocket.rsocket_base:RSocketBase._handle_next_frame')
    # (1) the receive loop passes the table and the frame produced by the transport
    ok = False
    n_calls = 0
    for loop in walk_local(rl.node):
        if not (isinstance(loop, ast.AsyncFor) and isinstance(loop.target, ast.Name)):
            continue
        for n in ast.walk(loop):
            if isinstance(n, ast.Call) and isinstance(n.func, ast.Attribute) and n.func.attr == nf.node.name:
                n_calls += 1
                a = list(n.args) + [k.value for k in n.keywords]
                ok = len(a) == 2 and isinstance(a[0], ast.Name) and a[0].id == loop.target.id and \
                    isinstance(a[1], ast.Name) and a[1].id == local
    ok = ok and n_calls == 1
    rep.add(rule_id, '_receiver_listen / every frame of the transport goes to _handle_next_frame with the table', rl,
            ok, 'the loop variable and the dispatch table are passed' if ok else
            'the receive loop does not pass the frame it read and its dispatch table to _handle_next_frame')
    # (2) the lookup
    lk = ctx.repo.func('rsocket.rsocket_base:RSocketBase._handle_frame_by_type')
    ps = ctx.paths(lk, slots.RSocketServer)
    fparam = ('param', lk.qualname, lk.params()[1])
    tparam = ('param', lk.qualname, lk.params()[2])
    ok = bool(ps)
    detail = ''
    for p in ps:
        if p.outcome != 'return':
            ok, detail = False, 'the lookup raises'
            continue
        gets = [e for e in p.events if e.kind == 'call' and e.data.get('name') in ('get', '__getitem__') and
                e.data.get('recv') is not None and strip_epoch(e.data['recv'].term) == tparam]
        good = False
        for g in gets:
            a0 = g.data['args'][0].term if g.data['args'] else None
            if not (a0 and a0[0] == 'pure' and a0[1] == 'type' and fparam in a0[3]):
                continue
            for c in p.events:
                if c.kind == 'call' and c.seq > g.seq and c.data.get('awaited') and \
                        c.data['callee'].get('value') is not None and \
                        strip_epoch(c.data['callee']['value'].term) == strip_epoch(g.data['value'].term) and \
                        [strip_epoch(a.term) for a in c.data['args']] == [fparam]:
                    good = True
        if not good:
            ok, detail = False, 'the handler awaited is not table[type(frame)] called with the frame'
    rep.add(rule_id, 'RSocketBase._handle_frame_by_type / handler = table[type(frame)], awaited with the frame', lk,
            ok, detail or 'table.get(type(frame), …)(frame) is awaited on every path')


def rule_routing(ctx, rule_id, only=None):
    """`_handle_next_frame`: fragmentable frames go through the reassembly cache and what is dispatched is the cache's
    result; connection-level frames and new requests go to the table; everything else to the stream table."""
    rep = ctx.report
    slots = ctx.slots
    f = ctx.repo.func('rsocket.rsocket_base:RSocketBase._handle_next_frame')
    from ..tables import FRAME_FLAGS
    fragmentable_names = {c for c, fl in FRAME_FLAGS.items() if 'flags_follows' in fl}
    cache_attr = slots.cache_attr if hasattr(slots, 'cache_attr') else '_frame_fragment_cache'
    request_classes = {'RequestResponseFrame', 'RequestStreamFrame', 'RequestChannelFrame',
                       'RequestFireAndForgetFrame'}
    fparam = ('param', f.qualname, 'frame')
    n_classes = 0
    for cname, K in sorted(slots.frame_classes.items()):
        if cname in ('InvalidFrame',) or not K.lookup('parse') and cname not in DISPATCH_ROWS:
            continue
        if cname in ('Frame', 'FragmentableFrame', 'RequestFrame'):
            continue
        if only is not None and cname not in only:
            n_classes += 1
            continue
        n_classes += 1
        fragmentable = cname in fragmentable_names
        ps = ctx.paths(f, slots.RSocketServer, args={'frame': AVal(fparam, [K], exact=True)}, inline_depth=2,
                       no_inline={'append', 'handle_stream', '_handle_frame_by_type', 'log_frame', '_log_identifier'})
        ok = True
        detail = ''
        kinds = set()
        for p in ps:
            if p.outcome != 'return':
                ok, detail = False, 'raises'
                continue
            app = [e for e in p.events if e.kind == 'call' and e.data.get('name') == 'append' and
                   e.data.get('recv') is not None and 'fragment' in fmt_term(e.data['recv'].term)]
            disp = [e for e in p.events if e.kind == 'call' and e.data.get('name') in ('handle_stream',
                                                                                     '_handle_frame_by_type')]
            if fragmentable:
                if len(app) != 1 or strip_epoch(app[0].data['args'][0].term) != fparam:
                    ok, detail = False, 'a fragmentable frame bypasses the reassembly cache'
                    continue
                want = strip_epoch(app[0].data['value'].term)
            else:
                if app:
                    ok, detail = False, 'a non-fragmentable frame is put into the reassembly cache'
                    continue
                want = fparam
            if not disp:
                # legal only while reassembly is incomplete
                isnone = [e for e in p.events if e.kind == 'cond' and e.data['key'][0] == 'isnone' and
                          strip_epoch(e.data['key'][1]) == want and e.data['value'] is True]
                if not (fragmentable and isnone):
                    ok, detail = False, 'the frame is dropped without being dispatched'
                kinds.add('held')
                continue
            if any(strip_epoch(d.data['args'][0].term) != want for d in disp):
                d = [d for d in disp if strip_epoch(d.data['args'][0].term) != want][0]
                ok, detail = False, 'what is dispatched (%s) is not %s' % (
                    fmt_term(d.data['args'][0].term), 'the reassembled frame' if fragmentable else 'the frame')
                continue
            # effective disposition: a stream-table lookup that reports a miss (returns False) did not consume the frame
            consumed = []
            missed = False
            for d in disp:
                if d.data.get('name') == '_handle_frame_by_type':
                    consumed.append(('table', d))
                else:
                    verdict = [c.data['value'] for c in p.events if c.kind == 'cond' and c.seq > d.seq and
                               c.data['key'][0] == 'truth' and
                               strip_epoch(c.data['key'][1]) == strip_epoch(d.data['value'].term)]
                    if verdict and verdict[0] is False:
                        missed = True
                    else:
                        consumed.append(('stream', d))
            if len(consumed) > 1:
                ok, detail = False, 'the frame is dispatched twice'
                continue
            horizon = consumed[0][1].seq if consumed else 10 ** 9
            zero = None
            for e in p.events:
                if e.kind == 'cond' and e.data['key'][0] == 'eq' and e.seq < horizon:
                    a, b = strip_epoch(e.data['key'][1]), strip_epoch(e.data['key'][2])
                    if a == ('attr', want, 'stream_id') and b == ('const', 0) or \
                            b == ('attr', want, 'stream_id') and a == ('const', 0):
                        zero = e.data['value']
            isreq = None
            for e in p.events:
                if e.kind == 'cond' and e.data['key'][0] == 'isinstance' and \
                        strip_epoch(e.data['key'][1]) == want:
                    tested = {c.split(':')[-1] for c in e.data['key'][2]}
                    if tested == request_classes:
                        if consumed and e.seq < consumed[0][1].seq or not consumed:
                            isreq = e.data['value']
                    elif tested < request_classes and e.data['value'] is False:
                        ok, detail = False, 'the new-request test covers only %s' % sorted(tested)
            if isreq is None and not fragmentable:
                isreq = cname in request_classes
            where = consumed[0][0] if consumed else 'dropped'
            kinds.add(where)
            first_stream = [d for d in disp if d.data.get('name') == 'handle_stream']
            if where == 'table':
                d = consumed[0][1]
                if len(d.data['args']) < 2 or \
                        strip_epoch(d.data['args'][1].term) != ('param', f.qualname, f.params()[2]):
                    ok, detail = False, 'the table passed on is not the one received'
            if isreq is True or (cname in request_classes and not fragmentable):
                # a new request must reach its handle_* method (which rejects an id that is in use); offering it to
                # the stream table first delivers it to the live stream under that id
                if where != 'table':
                    ok, detail = False, 'a new request is looked up in the stream table instead of the dispatch table'
                elif first_stream and first_stream[0].seq < consumed[0][1].seq:
                    ok, detail = False, ('a new request is offered to the stream table before the dispatch table: a '
                                         'request reusing a live stream id reaches the live stream instead of being '
                                         'rejected')
                continue
            if fragmentable and isreq is None and where != 'dropped' and not (where == 'table' and zero is True):
                ok, detail = False, ('a reassembled frame is dispatched (%s) without being tested for a new request' %
                                     where)
                continue
            if zero is True:
                if where != 'table':
                    ok, detail = False, 'a frame on stream 0 does not reach the connection dispatch table'
            elif zero is False:
                if where == 'table':
                    ok, detail = False, 'a stream-level frame goes to the connection dispatch table'
                elif where == 'dropped' and not missed:
                    ok, detail = False, 'a stream-level frame is dropped without a stream-table lookup'
            else:
                if where == 'table':
                    ok, detail = False, 'dispatch to the connection table does not depend on the stream id being 0'
                elif where == 'dropped':
                    ok, detail = False, 'a frame is dropped before its stream id was looked at'
        want_kinds = {'table'} if cname in request_classes and not fragmentable else {'table', 'stream'}
        if fragmentable:
            want_kinds = want_kinds | {'held'}
        if ok and not want_kinds <= kinds:
            ok, detail = False, 'no path to %s' % sorted(want_kinds - kinds)
        rep.add(rule_id, '_handle_next_frame / routing of %s' % cname, f, ok,
                detail or '%s: %s (%d paths)' % (
                    cname, 'through the reassembly cache, result dispatched' if fragmentable else
                    'dispatched as received', len(ps)))
    if n_classes < 10:
        raise AnalysisError('%s: only %d frame classes found for the routing rule' % (rule_id, n_classes))
